// Correspondence harness: runs the *implementation* (crate at /repo, public API only)
// on case files and writes canonical observations.  No property logic lives here.
//
// usage: sqv <cases.txt> <out.txt> <tmpdir>
//
// case line:  id \t kind \t opts \t body
//   kind H : body = seg;seg;...   seg = t_ms:hexline,hexline,...   or  t_ms:!hexblob
//            the reader thread (spawn_reader_thread) is run once per segment on a temp
//            file; before each segment every DateTime field of every row is shifted back
//            by (t_k - t_{k-1}) ms, which simulates elapsed time.
//   kind G : body = hexline           get_message / get_downlink_format / get_icao
//   kind M : body = path:hexnibbles,hexnibbles,...  path in {m,d}
//            m: Plane::from_message then Plane::update ; d: DF::from_message +
//            Plane::from_downlink then update_from_downlink   (relaxed from opts)
// opts: comma separated k=v : U R c (0/1)  f=4+5  d=60 u=3 i=Q o=sA+d  O=<hex of observer string>
use chrono::{DateTime, Duration, Utc};
use clap::Parser;
use squitterator::{
    Args, DF, DisplayFlags, Downlink, Plane, Planes, UpdateFromDownlink, format_simple_display,
    get_downlink_format, get_icao, get_message, set_observer_coords_from_str, spawn_reader_thread,
};
use std::collections::HashMap;
use std::fmt::Write as _;
use std::io::{BufRead, Write};
use std::sync::{Arc, RwLock};

fn unhex(s: &str) -> Vec<u8> {
    let b = s.as_bytes();
    let mut v = Vec::with_capacity(b.len() / 2);
    let mut i = 0;
    while i + 1 < b.len() {
        let h = (b[i] as char).to_digit(16).unwrap() as u8;
        let l = (b[i + 1] as char).to_digit(16).unwrap() as u8;
        v.push(h << 4 | l);
        i += 2;
    }
    v
}

struct Opts {
    args: Vec<String>,
    relaxed: bool,
    observer: Option<String>,
    /// the -i letters of the case (kind D renders rows with them; the reader itself stays quiet there)
    info: String,
    /// write the downlink log (-D) into the scratch directory
    dlog: bool,
}

fn parse_opts(s: &str) -> Opts {
    let mut args: Vec<String> = vec!["sq".into()];
    let mut relaxed = false;
    let mut observer = None;
    let mut have_i = false;
    let mut info = String::new();
    let mut dlog = false;
    for kv in s.split(',') {
        if kv.is_empty() || kv == "-" {
            continue;
        }
        let (k, v) = kv.split_once('=').unwrap_or((kv, "1"));
        match k {
            "U" => {
                if v == "1" {
                    args.push("-U".into())
                }
            }
            "R" => {
                if v == "1" {
                    args.push("-R".into());
                    relaxed = true
                }
            }
            "c" => {
                if v == "1" {
                    args.push("-c".into())
                }
            }
            "f" => {
                for x in v.split('+') {
                    args.push("-f".into());
                    args.push(x.into())
                }
            }
            "d" => {
                args.push(format!("--delete-after={}", v));
            }
            "u" => {
                args.push(format!("--update={}", v));
            }
            "i" => {
                have_i = true;
                info = v.replace('+', "");
                for x in v.split('+') {
                    args.push("-i".into());
                    args.push(x.into())
                }
            }
            "o" => {
                for x in v.split('+') {
                    args.push("-o".into());
                    args.push(x.into())
                }
            }
            "M" => {
                for x in v.split('+') {
                    args.push("-M".into());
                    args.push(x.into())
                }
            }
            "O" => observer = Some(String::from_utf8_lossy(&unhex(v)).into_owned()),
            "D" => {
                // --downlink-log into a scratch file (no effect on the table expected)
                dlog = v == "1";
            }
            _ => panic!("unknown opt {}", k),
        }
    }
    if !have_i {
        args.push("-i".into());
        args.push("Q".into());
    }
    Opts {
        args,
        relaxed,
        observer,
        info,
        dlog,
    }
}

fn oq<T: std::fmt::Display>(v: &Option<T>) -> String {
    match v {
        Some(x) => format!("{}", x),
        None => "-".into(),
    }
}
fn of(v: &Option<f64>) -> String {
    match v {
        Some(x) => ff(*x),
        None => "-".into(),
    }
}
fn ff(x: f64) -> String {
    let s = format!("{:.10}", x);
    if s.trim_start_matches('-').chars().all(|c| c == '0' || c == '.') {
        "0.0000000000".into()
    } else {
        s
    }
}
fn oc(v: &Option<char>) -> String {
    match v {
        Some(x) => format!("{}", *x as u32),
        None => "-".into(),
    }
}
fn age(now: DateTime<Utc>, t: DateTime<Utc>) -> i64 {
    now.signed_duration_since(t).num_seconds()
}
fn oage(now: DateTime<Utc>, t: &Option<DateTime<Utc>>) -> String {
    match t {
        Some(x) => format!("{}", age(now, *x)),
        None => "-".into(),
    }
}

fn dump_row(p: &Plane, now: DateTime<Utc>, o: &mut String) {
    let c = &p.capability.1;
    write!(
        o,
        "icao={:06X} ca={} cf={} cb={}{}{}{}{} cat={}.{} reg={} ais={} alt={} altg={} alts={} sela={} baro={} tas_={} sq={} ss={} te={} vr={} vrs={} cl0={} cl1={} co0={} co1={} cs={}{} ct0={} ct1={} lat={} lon={} dist={} gs={} tas={} ias={} mach={} gm={} turn={} trk={} trks={} hdg={} hdgs={} roll={} tar={} b5t={} temp={} wind={} turb={} hum={} pres={} ts={} pt={} tt={} ht={} ltc={} ldf={} ver={}",
        p.icao,
        p.capability.0,
        c.flags,
        c.bds20 as u8,
        c.bds40 as u8,
        c.bds44 as u8,
        c.bds50 as u8,
        c.bds60 as u8,
        p.category.0,
        p.category.1,
        if p.reg.is_empty() { "-" } else { p.reg },
        match &p.ais {
            Some(s) => format!("\"{}\"", s),
            None => "-".into(),
        },
        oq(&p.altitude),
        oq(&p.altitude_gnss),
        p.altitude_source as u32,
        oq(&p.selected_altitude),
        oq(&p.barometric_pressure_setting),
        p.target_altitude_source as u32,
        oq(&p.squawk),
        p.surveillance_status as u32,
        oc(&p.threat_encounter),
        oq(&p.vrate),
        p.vrate_source as u32,
        p.cpr_lat[0],
        p.cpr_lat[1],
        p.cpr_lon[0],
        p.cpr_lon[1],
        p.cpr_surface[0] as u8,
        p.cpr_surface[1] as u8,
        age(now, p.cpr_time[0]),
        age(now, p.cpr_time[1]),
        ff(p.lat),
        ff(p.lon),
        of(&p.distance_from_observer),
        oq(&p.grspeed),
        oq(&p.true_airspeed),
        oq(&p.indicated_airspeed),
        of(&p.mach_number),
        of(&p.ground_movement),
        p.turn,
        oq(&p.track),
        p.track_source as u32,
        oq(&p.heading),
        p.heading_source as u32,
        oq(&p.roll_angle),
        oq(&p.track_angle_rate),
        oage(now, &p.bds_5_0_timestamp),
        of(&p.temperature),
        match p.wind {
            Some((a, b)) => format!("{}.{}", a, b),
            None => "-".into(),
        },
        oq(&p.turbulence),
        oq(&p.humidity),
        oq(&p.pressure),
        age(now, p.timestamp),
        oage(now, &p.position_timestamp),
        oage(now, &p.track_timestamp),
        oage(now, &p.heading_timestamp),
        p.last_type_code,
        p.last_df,
        oq(&p.adsb_version),
    )
    .unwrap();
}

fn dump_table(t: &Arc<RwLock<HashMap<u32, Plane>>>, o: &mut String, show: Option<&str>) -> bool {
    let g = match t.read() {
        Ok(g) => g,
        Err(p) => p.into_inner(),
    };
    let now = Utc::now();
    let mut keys: Vec<&u32> = g.keys().collect();
    keys.sort();
    let mut first = true;
    let mut ok = true;
    for k in keys {
        if !first {
            o.push('|');
        }
        first = false;
        write!(o, "key={:06X} ", k).unwrap();
        match show {
            None => dump_row(&g[k], now, o),
            Some(flags) => {
                // kind D: the row as the table prints it (blanks shown as '_' so that the observation stays one token)
                let p = &g[k];
                let r = std::panic::catch_unwind(std::panic::AssertUnwindSafe(|| {
                    format_simple_display(p, &DisplayFlags::from_arg_str(flags))
                }));
                match r {
                    Ok(line) => write!(o, "disp={} ", line.replace(' ', "_")).unwrap(),
                    Err(_) => {
                        write!(o, "disp=PANIC ").unwrap();
                        ok = false;
                    }
                }
            }
        }
    }
    ok
}

fn shift_plane(p: &mut Plane, d: Duration) {
    p.timestamp = p.timestamp - d;
    p.cpr_time[0] = p.cpr_time[0] - d;
    p.cpr_time[1] = p.cpr_time[1] - d;
    for t in [
        &mut p.position_timestamp,
        &mut p.track_timestamp,
        &mut p.heading_timestamp,
        &mut p.bds_5_0_timestamp,
    ] {
        if let Some(x) = t {
            *x = *x - d;
        }
    }
}

fn shift_table(t: &Arc<RwLock<HashMap<u32, Plane>>>, ms: i64) {
    let mut g = match t.write() {
        Ok(g) => g,
        Err(p) => p.into_inner(),
    };
    let d = Duration::milliseconds(ms);
    for (_, p) in g.iter_mut() {
        shift_plane(p, d);
    }
}

fn run_h(opts: &Opts, body: &str, tmp: &str, id: &str, show: bool) -> (String, String) {
    if let Some(o) = &opts.observer {
        set_observer_coords_from_str(o);
    }
    let table: Arc<RwLock<HashMap<u32, Plane>>> = Arc::new(RwLock::new(HashMap::new()));
    let mut out = String::new();
    let mut outcome = "ok".to_string();
    let mut prev_t: i64 = 0;
    let path = format!("{}/seg-{}-{}.txt", tmp, std::process::id(), id.replace('/', "_"));
    let mut slow = 0u32;
    for (k, seg) in body.split(';').enumerate() {
        if seg.is_empty() {
            continue;
        }
        let (t, rest) = seg.split_once(':').expect("seg");
        let t: i64 = t.parse().expect("t");
        if k > 0 {
            out.push('#');
        }
        if t != prev_t {
            shift_table(&table, t - prev_t);
            prev_t = t;
        }
        let mut content: Vec<u8> = Vec::new();
        if let Some(blob) = rest.strip_prefix('!') {
            content = unhex(blob);
        } else {
            for l in rest.split(',') {
                if l == "." {
                    // explicit empty line
                    content.push(b'\n');
                    continue;
                }
                if l.is_empty() {
                    continue;
                }
                content.extend_from_slice(&unhex(l));
                content.push(b'\n');
            }
        }
        std::fs::write(&path, &content).expect("write seg");
        let mut a = opts.args.clone();
        if show {
            // the reader stays quiet; the -i letters are used for rendering only
            let mut b: Vec<String> = Vec::new();
            let mut skip = false;
            for x in a.iter() {
                if skip {
                    skip = false;
                    continue;
                }
                if x == "-i" {
                    skip = true;
                    continue;
                }
                b.push(x.clone());
            }
            b.push("-i".into());
            b.push("Q".into());
            a = b;
        }
        let dpath = format!("{}/dlog-{}-{}.txt", tmp, std::process::id(), id.replace('/', "_"));
        if opts.dlog {
            a.push("-D".into());
            a.push(dpath.clone());
        }
        a.push("-s".into());
        a.push(path.clone());
        let args = Arc::new(Args::parse_from(a));
        // through the constructor (not a struct literal), so that a refactoring which adds private state to Planes still builds
        let mut planes = Planes::new();
        planes.aircrafts = table.clone();
        let t0 = std::time::Instant::now();
        let h = spawn_reader_thread(args, planes);
        // a reader that never comes back (e.g. a lock taken twice) is caught by the process-wide watchdog (see main)
        BUSY_SINCE.store(now_ms(), std::sync::atomic::Ordering::SeqCst);
        let joined = h.join();
        BUSY_SINCE.store(0, std::sync::atomic::Ordering::SeqCst);
        match joined {
            Ok(Ok(())) => {}
            Ok(Err(e)) => {
                outcome = format!("io:{:?}", e.kind());
            }
            Err(_) => {
                outcome = "panic".into();
            }
        }
        if opts.dlog {
            let _ = std::fs::remove_file(&dpath);
        }
        if t0.elapsed().as_millis() > 350 {
            slow += 1;
        }
        if !dump_table(&table, &mut out, if show { Some(opts.info.as_str()) } else { None }) {
            outcome = "panic".into();
        }
        if outcome == "panic" {
            break;
        }
    }
    let _ = std::fs::remove_file(&path);
    if slow > 0 {
        outcome.push_str("+slow");
    }
    (outcome, out)
}

fn nibbles(s: &str) -> Vec<u32> {
    s.chars().map(|c| c.to_digit(16).unwrap()).collect()
}

fn run_g(body: &str) -> (String, String) {
    let bytes = unhex(body);
    let line = match String::from_utf8(bytes) {
        Ok(s) => s,
        Err(_) => return ("ok".into(), "notutf8".into()),
    };
    let r = std::panic::catch_unwind(|| {
        let mut o = String::new();
        match get_message(&line) {
            None => o.push_str("msg=-"),
            Some(m) => {
                o.push_str("msg=");
                for x in &m {
                    write!(o, "{:X}", x).unwrap();
                }
                let df = get_downlink_format(&m);
                write!(o, " df={}", oq(&df)).unwrap();
                if let Some(df) = df {
                    let ic = get_icao(&m, df);
                    match ic {
                        Some(v) => write!(o, " icao={:06X}", v).unwrap(),
                        None => o.push_str(" icao=-"),
                    }
                }
            }
        }
        o
    });
    match r {
        Ok(o) => ("ok".into(), o),
        Err(_) => ("panic".into(), String::new()),
    }
}

fn run_m(opts: &Opts, body: &str) -> (String, String) {
    if let Some(o) = &opts.observer {
        set_observer_coords_from_str(o);
    }
    let (path, rest) = body.split_once(':').expect("M body");
    let msgs: Vec<Vec<u32>> = rest.split(',').filter(|s| !s.is_empty()).map(nibbles).collect();
    let relaxed = opts.relaxed;
    let compact = path.starts_with('v');
    let path = path.trim_start_matches('v').to_string();
    let r = std::panic::catch_unwind(move || {
        let mut o = String::new();
        let mut plane: Option<Plane> = None;
        for (k, m) in msgs.iter().enumerate() {
            let df = get_downlink_format(m).unwrap_or(0);
            let icao = get_icao(m, df).unwrap_or(0);
            if path == "m" {
                match plane.as_mut() {
                    None => plane = Some(Plane::from_message(m, df, icao, relaxed)),
                    Some(p) => p.update(m, df, relaxed),
                }
            } else {
                let dl = match DF::from_message(m) {
                    Ok(d) => d,
                    Err(_) => continue,
                };
                match plane.as_mut() {
                    None => plane = Some(Plane::from_downlink(&dl, icao)),
                    Some(p) => p.update_from_downlink(&dl),
                }
            }
            if k > 0 {
                o.push('#');
            }
            if compact {
                let p = plane.as_ref().unwrap();
                write!(o, "trk={} gs={} vr={}", oq(&p.track), oq(&p.grspeed), oq(&p.vrate)).unwrap();
            } else {
                dump_row(plane.as_ref().unwrap(), Utc::now(), &mut o);
            }
        }
        o
    });
    match r {
        Ok(o) => ("ok".into(), o),
        Err(_) => ("panic".into(), String::new()),
    }
}

/// kind V: exhaustive sweep of the TC19 velocity decoder.  body = "st:sew:sns:lo:hi:path": for every east-west magnitude
/// field in lo..hi and every north-south field 0..1023 a DF17 TC19 frame (subtype st, the given sign bits) is decoded through
/// DF::from_message + Plane::from_downlink (path d) or Plane::from_message (path m); output "trk.gs" per pair ('-' = none)
fn run_v(body: &str) -> (String, String) {
    let p: Vec<&str> = body.split(':').collect();
    let st: u64 = p[0].parse().unwrap();
    let sew: u64 = p[1].parse().unwrap();
    let sns: u64 = p[2].parse().unwrap();
    let lo: u64 = p[3].parse().unwrap();
    let hi: u64 = p[4].parse().unwrap();
    let path_m = p.get(5).map(|x| *x == "m").unwrap_or(false);
    let r = std::panic::catch_unwind(move || {
        let mut o = String::with_capacity(((hi - lo) * 1024 * 9) as usize);
        for vew in lo..hi {
            for vns in 0..1024u64 {
                // ME: TC(5)=19 ST(3) IC(1) IFR(1) NUC(3) | Dew(1) Vew(10) Dns(1) Vns(10) | VrSrc(1) Svr(1) VR(9) | res(2) SDif(1) dAlt(7)
                let me: u64 = (19 << 51) | (st << 48) | (sew << 42) | (vew << 32) | (sns << 31) | (vns << 21) | (1 << 10);
                let frame: u128 = ((17u128 << 3 | 5) << 104) | (0x4840D6u128 << 80) | ((me as u128) << 24);
                let m: Vec<u32> = (0..28).map(|i| ((frame >> (108 - 4 * i)) & 0xF) as u32).collect();
                let plane = if path_m {
                    Plane::from_message(&m, 17, 0x4840D6, false)
                } else {
                    match DF::from_message(&m) {
                        Ok(dl) => Plane::from_downlink(&dl, 0x4840D6),
                        Err(_) => {
                            o.push_str("E ");
                            continue;
                        }
                    }
                };
                write!(o, "{}.{} ", oq(&plane.track), oq(&plane.grspeed)).unwrap();
            }
        }
        o
    });
    match r {
        Ok(o) => ("ok".into(), o),
        Err(_) => ("panic".into(), String::new()),
    }
}

fn run_k(body: &str) -> (String, String) {
    let p: Vec<u32> = body.split(':').map(|x| x.parse().unwrap()).collect();
    let (start, count, step) = (p[0], p[1], p[2]);
    let dl = DF::from_message(&nibbles("5D000001000000")).unwrap();
    let mut o = String::new();
    for i in 0..count {
        let a = start + i * step;
        let r = Plane::from_downlink(&dl, a).reg;
        if i > 0 {
            o.push(',');
        }
        o.push_str(r);
    }
    ("ok".into(), o)
}

static BUSY_SINCE: std::sync::atomic::AtomicU64 = std::sync::atomic::AtomicU64::new(0);
static CURRENT_CASE: std::sync::Mutex<String> = std::sync::Mutex::new(String::new());

fn now_ms() -> u64 {
    std::time::SystemTime::now().duration_since(std::time::UNIX_EPOCH).map(|d| d.as_millis() as u64).unwrap_or(1)
}

fn main() {
    let a: Vec<String> = std::env::args().collect();
    if a.len() < 4 {
        eprintln!("usage: sqv cases out tmpdir");
        std::process::exit(2);
    }
    std::panic::set_hook(Box::new(|_| {}));
    let f = std::io::BufReader::new(std::fs::File::open(&a[1]).expect("cases"));
    let mut out = std::io::BufWriter::new(std::fs::File::create(&a[2]).expect("out"));
    let tmp = &a[3];
    // watchdog: if one reader run takes longer than 30 s the case is recorded as "hang" in <out>.hang and the process
    // ends (the stuck thread cannot be killed); the cases after it in this shard stay unreported
    let hang_path = format!("{}.hang", &a[2]);
    std::thread::spawn(move || loop {
        std::thread::sleep(std::time::Duration::from_millis(250));
        let b = BUSY_SINCE.load(std::sync::atomic::Ordering::SeqCst);
        if b != 0 && now_ms().saturating_sub(b) > 30_000 {
            let id = CURRENT_CASE.lock().map(|g| g.clone()).unwrap_or_default();
            let _ = std::fs::write(&hang_path, format!("{}\thang\treader thread still running after 30 s\n", id));
            std::process::exit(0);
        }
    });
    for line in f.lines() {
        let line = line.expect("line");
        if line.is_empty() || line.starts_with('%') {
            continue;
        }
        let parts: Vec<&str> = line.splitn(4, '\t').collect();
        if parts.len() < 4 {
            continue;
        }
        let (id, kind, opts, body) = (parts[0], parts[1], parts[2], parts[3]);
        if let Ok(mut g) = CURRENT_CASE.lock() {
            *g = id.to_string();
        }
        let opts = parse_opts(opts);
        let (outcome, obs) = match kind {
            "H" => run_h(&opts, body, tmp, id, false),
            "D" => run_h(&opts, body, tmp, id, true),
            "G" => run_g(body),
            "M" => run_m(&opts, body),
            "K" => run_k(body),
            "V" => run_v(body),
            _ => ("skip".into(), String::new()),
        };
        writeln!(out, "{}\t{}\t{}", id, outcome, obs).expect("write");
        out.flush().expect("flush");
    }
}
