
type __ = Obj.t

(** val negb : bool -> bool **)

let negb = function
| true -> false
| false -> true

type nat =
| O
| S of nat

(** val fst : ('a1 * 'a2) -> 'a1 **)

let fst = function
| (x, _) -> x

(** val snd : ('a1 * 'a2) -> 'a2 **)

let snd = function
| (_, y) -> y

(** val length : 'a1 list -> nat **)

let rec length = function
| [] -> O
| _ :: l' -> S (length l')

(** val app : 'a1 list -> 'a1 list -> 'a1 list **)

let rec app l m =
  match l with
  | [] -> m
  | a :: l1 -> a :: (app l1 m)

type comparison =
| Eq
| Lt
| Gt

(** val compOpp : comparison -> comparison **)

let compOpp = function
| Eq -> Eq
| Lt -> Gt
| Gt -> Lt

(** val id : __ -> __ **)

let id x =
  x

module Coq__1 = struct
 (** val add : nat -> nat -> nat **)
 let rec add n0 m =
   match n0 with
   | O -> m
   | S p -> S (add p m)
end
include Coq__1

(** val mul : nat -> nat -> nat **)

let rec mul n0 m =
  match n0 with
  | O -> O
  | S p -> add m (mul p m)

(** val sub : nat -> nat -> nat **)

let rec sub n0 m =
  match n0 with
  | O -> n0
  | S k -> (match m with
            | O -> n0
            | S l -> sub k l)

(** val eqb : bool -> bool -> bool **)

let eqb b1 b2 =
  if b1 then b2 else if b2 then false else true

module Nat =
 struct
  (** val sub : nat -> nat -> nat **)

  let rec sub n0 m =
    match n0 with
    | O -> n0
    | S k -> (match m with
              | O -> n0
              | S l -> sub k l)

  (** val eqb : nat -> nat -> bool **)

  let rec eqb n0 m =
    match n0 with
    | O -> (match m with
            | O -> true
            | S _ -> false)
    | S n' -> (match m with
               | O -> false
               | S m' -> eqb n' m')

  (** val leb : nat -> nat -> bool **)

  let rec leb n0 m =
    match n0 with
    | O -> true
    | S n' -> (match m with
               | O -> false
               | S m' -> leb n' m')

  (** val ltb : nat -> nat -> bool **)

  let ltb n0 m =
    leb (S n0) m

  (** val divmod : nat -> nat -> nat -> nat -> nat * nat **)

  let rec divmod x y q0 u =
    match x with
    | O -> (q0, u)
    | S x' ->
      (match u with
       | O -> divmod x' y (S q0) y
       | S u' -> divmod x' y q0 u')

  (** val div : nat -> nat -> nat **)

  let div x y = match y with
  | O -> y
  | S y' -> fst (divmod x y' O y')

  (** val modulo : nat -> nat -> nat **)

  let modulo x = function
  | O -> x
  | S y' -> sub y' (snd (divmod x y' O y'))
 end

(** val nth_error : 'a1 list -> nat -> 'a1 option **)

let rec nth_error l = function
| O -> (match l with
        | [] -> None
        | x :: _ -> Some x)
| S n1 -> (match l with
           | [] -> None
           | _ :: l0 -> nth_error l0 n1)

(** val rev : 'a1 list -> 'a1 list **)

let rec rev = function
| [] -> []
| x :: l' -> app (rev l') (x :: [])

(** val rev_append : 'a1 list -> 'a1 list -> 'a1 list **)

let rec rev_append l l' =
  match l with
  | [] -> l'
  | a :: l0 -> rev_append l0 (a :: l')

(** val concat : 'a1 list list -> 'a1 list **)

let rec concat = function
| [] -> []
| x :: l0 -> app x (concat l0)

(** val map : ('a1 -> 'a2) -> 'a1 list -> 'a2 list **)

let rec map f = function
| [] -> []
| a :: t -> (f a) :: (map f t)

(** val fold_left : ('a1 -> 'a2 -> 'a1) -> 'a2 list -> 'a1 -> 'a1 **)

let rec fold_left f l a0 =
  match l with
  | [] -> a0
  | b :: t -> fold_left f t (f a0 b)

(** val fold_right : ('a2 -> 'a1 -> 'a1) -> 'a1 -> 'a2 list -> 'a1 **)

let rec fold_right f a0 = function
| [] -> a0
| b :: t -> f b (fold_right f a0 t)

(** val existsb : ('a1 -> bool) -> 'a1 list -> bool **)

let rec existsb f = function
| [] -> false
| a :: l0 -> (||) (f a) (existsb f l0)

(** val forallb : ('a1 -> bool) -> 'a1 list -> bool **)

let rec forallb f = function
| [] -> true
| a :: l0 -> (&&) (f a) (forallb f l0)

(** val filter : ('a1 -> bool) -> 'a1 list -> 'a1 list **)

let rec filter f = function
| [] -> []
| x :: l0 -> if f x then x :: (filter f l0) else filter f l0

(** val firstn : nat -> 'a1 list -> 'a1 list **)

let rec firstn n0 l =
  match n0 with
  | O -> []
  | S n1 -> (match l with
             | [] -> []
             | a :: l0 -> a :: (firstn n1 l0))

(** val skipn : nat -> 'a1 list -> 'a1 list **)

let rec skipn n0 l =
  match n0 with
  | O -> l
  | S n1 -> (match l with
             | [] -> []
             | _ :: l0 -> skipn n1 l0)

(** val repeat : 'a1 -> nat -> 'a1 list **)

let rec repeat x = function
| O -> []
| S k -> x :: (repeat x k)

type positive =
| XI of positive
| XO of positive
| XH

type n =
| N0
| Npos of positive

type z =
| Z0
| Zpos of positive
| Zneg of positive

module Pos =
 struct
  type mask =
  | IsNul
  | IsPos of positive
  | IsNeg
 end

module Coq_Pos =
 struct
  (** val succ : positive -> positive **)

  let rec succ = function
  | XI p -> XO (succ p)
  | XO p -> XI p
  | XH -> XO XH

  (** val add : positive -> positive -> positive **)

  let rec add x y =
    match x with
    | XI p ->
      (match y with
       | XI q0 -> XO (add_carry p q0)
       | XO q0 -> XI (add p q0)
       | XH -> XO (succ p))
    | XO p ->
      (match y with
       | XI q0 -> XI (add p q0)
       | XO q0 -> XO (add p q0)
       | XH -> XI p)
    | XH -> (match y with
             | XI q0 -> XO (succ q0)
             | XO q0 -> XI q0
             | XH -> XO XH)

  (** val add_carry : positive -> positive -> positive **)

  and add_carry x y =
    match x with
    | XI p ->
      (match y with
       | XI q0 -> XI (add_carry p q0)
       | XO q0 -> XO (add_carry p q0)
       | XH -> XI (succ p))
    | XO p ->
      (match y with
       | XI q0 -> XO (add_carry p q0)
       | XO q0 -> XI (add p q0)
       | XH -> XO (succ p))
    | XH ->
      (match y with
       | XI q0 -> XI (succ q0)
       | XO q0 -> XO (succ q0)
       | XH -> XI XH)

  (** val pred_double : positive -> positive **)

  let rec pred_double = function
  | XI p -> XI (XO p)
  | XO p -> XI (pred_double p)
  | XH -> XH

  (** val pred_N : positive -> n **)

  let pred_N = function
  | XI p -> Npos (XO p)
  | XO p -> Npos (pred_double p)
  | XH -> N0

  type mask = Pos.mask =
  | IsNul
  | IsPos of positive
  | IsNeg

  (** val succ_double_mask : mask -> mask **)

  let succ_double_mask = function
  | IsNul -> IsPos XH
  | IsPos p -> IsPos (XI p)
  | IsNeg -> IsNeg

  (** val double_mask : mask -> mask **)

  let double_mask = function
  | IsPos p -> IsPos (XO p)
  | x0 -> x0

  (** val double_pred_mask : positive -> mask **)

  let double_pred_mask = function
  | XI p -> IsPos (XO (XO p))
  | XO p -> IsPos (XO (pred_double p))
  | XH -> IsNul

  (** val sub_mask : positive -> positive -> mask **)

  let rec sub_mask x y =
    match x with
    | XI p ->
      (match y with
       | XI q0 -> double_mask (sub_mask p q0)
       | XO q0 -> succ_double_mask (sub_mask p q0)
       | XH -> IsPos (XO p))
    | XO p ->
      (match y with
       | XI q0 -> succ_double_mask (sub_mask_carry p q0)
       | XO q0 -> double_mask (sub_mask p q0)
       | XH -> IsPos (pred_double p))
    | XH -> (match y with
             | XH -> IsNul
             | _ -> IsNeg)

  (** val sub_mask_carry : positive -> positive -> mask **)

  and sub_mask_carry x y =
    match x with
    | XI p ->
      (match y with
       | XI q0 -> succ_double_mask (sub_mask_carry p q0)
       | XO q0 -> double_mask (sub_mask p q0)
       | XH -> IsPos (pred_double p))
    | XO p ->
      (match y with
       | XI q0 -> double_mask (sub_mask_carry p q0)
       | XO q0 -> succ_double_mask (sub_mask_carry p q0)
       | XH -> double_pred_mask p)
    | XH -> IsNeg

  (** val sub : positive -> positive -> positive **)

  let sub x y =
    match sub_mask x y with
    | IsPos z0 -> z0
    | _ -> XH

  (** val mul : positive -> positive -> positive **)

  let rec mul x y =
    match x with
    | XI p -> add y (XO (mul p y))
    | XO p -> XO (mul p y)
    | XH -> y

  (** val iter : ('a1 -> 'a1) -> 'a1 -> positive -> 'a1 **)

  let rec iter f x = function
  | XI n' -> f (iter f (iter f x n') n')
  | XO n' -> iter f (iter f x n') n'
  | XH -> f x

  (** val pow : positive -> positive -> positive **)

  let pow x =
    iter (mul x) XH

  (** val size_nat : positive -> nat **)

  let rec size_nat = function
  | XI p0 -> S (size_nat p0)
  | XO p0 -> S (size_nat p0)
  | XH -> S O

  (** val size : positive -> positive **)

  let rec size = function
  | XI p0 -> succ (size p0)
  | XO p0 -> succ (size p0)
  | XH -> XH

  (** val compare_cont : comparison -> positive -> positive -> comparison **)

  let rec compare_cont r x y =
    match x with
    | XI p ->
      (match y with
       | XI q0 -> compare_cont r p q0
       | XO q0 -> compare_cont Gt p q0
       | XH -> Gt)
    | XO p ->
      (match y with
       | XI q0 -> compare_cont Lt p q0
       | XO q0 -> compare_cont r p q0
       | XH -> Gt)
    | XH -> (match y with
             | XH -> r
             | _ -> Lt)

  (** val compare : positive -> positive -> comparison **)

  let compare =
    compare_cont Eq

  (** val eqb : positive -> positive -> bool **)

  let rec eqb p q0 =
    match p with
    | XI p0 -> (match q0 with
                | XI q1 -> eqb p0 q1
                | _ -> false)
    | XO p0 -> (match q0 with
                | XO q1 -> eqb p0 q1
                | _ -> false)
    | XH -> (match q0 with
             | XH -> true
             | _ -> false)

  (** val leb : positive -> positive -> bool **)

  let leb x y =
    match compare x y with
    | Gt -> false
    | _ -> true

  (** val sqrtrem_step :
      (positive -> positive) -> (positive -> positive) -> (positive * mask)
      -> positive * mask **)

  let sqrtrem_step f g = function
  | (s, y) ->
    (match y with
     | IsPos r ->
       let s' = XI (XO s) in
       let r' = g (f r) in
       if leb s' r' then ((XI s), (sub_mask r' s')) else ((XO s), (IsPos r'))
     | _ -> ((XO s), (sub_mask (g (f XH)) (XO (XO XH)))))

  (** val sqrtrem : positive -> positive * mask **)

  let rec sqrtrem = function
  | XI p0 ->
    (match p0 with
     | XI p1 -> sqrtrem_step (fun x -> XI x) (fun x -> XI x) (sqrtrem p1)
     | XO p1 -> sqrtrem_step (fun x -> XO x) (fun x -> XI x) (sqrtrem p1)
     | XH -> (XH, (IsPos (XO XH))))
  | XO p0 ->
    (match p0 with
     | XI p1 -> sqrtrem_step (fun x -> XI x) (fun x -> XO x) (sqrtrem p1)
     | XO p1 -> sqrtrem_step (fun x -> XO x) (fun x -> XO x) (sqrtrem p1)
     | XH -> (XH, (IsPos XH)))
  | XH -> (XH, IsNul)

  (** val sqrt : positive -> positive **)

  let sqrt p =
    fst (sqrtrem p)

  (** val ggcdn :
      nat -> positive -> positive -> positive * (positive * positive) **)

  let rec ggcdn n0 a b =
    match n0 with
    | O -> (XH, (a, b))
    | S n1 ->
      (match a with
       | XI a' ->
         (match b with
          | XI b' ->
            (match compare a' b' with
             | Eq -> (a, (XH, XH))
             | Lt ->
               let (g, p) = ggcdn n1 (sub b' a') a in
               let (ba, aa) = p in (g, (aa, (add aa (XO ba))))
             | Gt ->
               let (g, p) = ggcdn n1 (sub a' b') b in
               let (ab, bb) = p in (g, ((add bb (XO ab)), bb)))
          | XO b0 ->
            let (g, p) = ggcdn n1 a b0 in
            let (aa, bb) = p in (g, (aa, (XO bb)))
          | XH -> (XH, (a, XH)))
       | XO a0 ->
         (match b with
          | XI _ ->
            let (g, p) = ggcdn n1 a0 b in
            let (aa, bb) = p in (g, ((XO aa), bb))
          | XO b0 -> let (g, p) = ggcdn n1 a0 b0 in ((XO g), p)
          | XH -> (XH, (a, XH)))
       | XH -> (XH, (XH, b)))

  (** val ggcd : positive -> positive -> positive * (positive * positive) **)

  let ggcd a b =
    ggcdn (Coq__1.add (size_nat a) (size_nat b)) a b

  (** val coq_Nsucc_double : n -> n **)

  let coq_Nsucc_double = function
  | N0 -> Npos XH
  | Npos p -> Npos (XI p)

  (** val coq_Ndouble : n -> n **)

  let coq_Ndouble = function
  | N0 -> N0
  | Npos p -> Npos (XO p)

  (** val coq_lor : positive -> positive -> positive **)

  let rec coq_lor p q0 =
    match p with
    | XI p0 ->
      (match q0 with
       | XI q1 -> XI (coq_lor p0 q1)
       | XO q1 -> XI (coq_lor p0 q1)
       | XH -> p)
    | XO p0 ->
      (match q0 with
       | XI q1 -> XI (coq_lor p0 q1)
       | XO q1 -> XO (coq_lor p0 q1)
       | XH -> XI p0)
    | XH -> (match q0 with
             | XO q1 -> XI q1
             | _ -> q0)

  (** val coq_land : positive -> positive -> n **)

  let rec coq_land p q0 =
    match p with
    | XI p0 ->
      (match q0 with
       | XI q1 -> coq_Nsucc_double (coq_land p0 q1)
       | XO q1 -> coq_Ndouble (coq_land p0 q1)
       | XH -> Npos XH)
    | XO p0 ->
      (match q0 with
       | XI q1 -> coq_Ndouble (coq_land p0 q1)
       | XO q1 -> coq_Ndouble (coq_land p0 q1)
       | XH -> N0)
    | XH -> (match q0 with
             | XO _ -> N0
             | _ -> Npos XH)

  (** val ldiff : positive -> positive -> n **)

  let rec ldiff p q0 =
    match p with
    | XI p0 ->
      (match q0 with
       | XI q1 -> coq_Ndouble (ldiff p0 q1)
       | XO q1 -> coq_Nsucc_double (ldiff p0 q1)
       | XH -> Npos (XO p0))
    | XO p0 ->
      (match q0 with
       | XI q1 -> coq_Ndouble (ldiff p0 q1)
       | XO q1 -> coq_Ndouble (ldiff p0 q1)
       | XH -> Npos p)
    | XH -> (match q0 with
             | XO _ -> Npos XH
             | _ -> N0)

  (** val coq_lxor : positive -> positive -> n **)

  let rec coq_lxor p q0 =
    match p with
    | XI p0 ->
      (match q0 with
       | XI q1 -> coq_Ndouble (coq_lxor p0 q1)
       | XO q1 -> coq_Nsucc_double (coq_lxor p0 q1)
       | XH -> Npos (XO p0))
    | XO p0 ->
      (match q0 with
       | XI q1 -> coq_Nsucc_double (coq_lxor p0 q1)
       | XO q1 -> coq_Ndouble (coq_lxor p0 q1)
       | XH -> Npos (XI p0))
    | XH ->
      (match q0 with
       | XI q1 -> Npos (XO q1)
       | XO q1 -> Npos (XI q1)
       | XH -> N0)

  (** val shiftl : positive -> n -> positive **)

  let shiftl p = function
  | N0 -> p
  | Npos n1 -> iter (fun x -> XO x) p n1

  (** val iter_op : ('a1 -> 'a1 -> 'a1) -> positive -> 'a1 -> 'a1 **)

  let rec iter_op op p a =
    match p with
    | XI p0 -> op a (iter_op op p0 (op a a))
    | XO p0 -> iter_op op p0 (op a a)
    | XH -> a

  (** val to_nat : positive -> nat **)

  let to_nat x =
    iter_op Coq__1.add x (S O)

  (** val of_succ_nat : nat -> positive **)

  let rec of_succ_nat = function
  | O -> XH
  | S x -> succ (of_succ_nat x)
 end

module N =
 struct
  (** val succ_double : n -> n **)

  let succ_double = function
  | N0 -> Npos XH
  | Npos p -> Npos (XI p)

  (** val double : n -> n **)

  let double = function
  | N0 -> N0
  | Npos p -> Npos (XO p)

  (** val succ_pos : n -> positive **)

  let succ_pos = function
  | N0 -> XH
  | Npos p -> Coq_Pos.succ p

  (** val add : n -> n -> n **)

  let add n0 m =
    match n0 with
    | N0 -> m
    | Npos p -> (match m with
                 | N0 -> n0
                 | Npos q0 -> Npos (Coq_Pos.add p q0))

  (** val sub : n -> n -> n **)

  let sub n0 m =
    match n0 with
    | N0 -> N0
    | Npos n' ->
      (match m with
       | N0 -> n0
       | Npos m' ->
         (match Coq_Pos.sub_mask n' m' with
          | Coq_Pos.IsPos p -> Npos p
          | _ -> N0))

  (** val mul : n -> n -> n **)

  let mul n0 m =
    match n0 with
    | N0 -> N0
    | Npos p -> (match m with
                 | N0 -> N0
                 | Npos q0 -> Npos (Coq_Pos.mul p q0))

  (** val compare : n -> n -> comparison **)

  let compare n0 m =
    match n0 with
    | N0 -> (match m with
             | N0 -> Eq
             | Npos _ -> Lt)
    | Npos n' -> (match m with
                  | N0 -> Gt
                  | Npos m' -> Coq_Pos.compare n' m')

  (** val eqb : n -> n -> bool **)

  let eqb n0 m =
    match n0 with
    | N0 -> (match m with
             | N0 -> true
             | Npos _ -> false)
    | Npos p -> (match m with
                 | N0 -> false
                 | Npos q0 -> Coq_Pos.eqb p q0)

  (** val leb : n -> n -> bool **)

  let leb x y =
    match compare x y with
    | Gt -> false
    | _ -> true

  (** val ltb : n -> n -> bool **)

  let ltb x y =
    match compare x y with
    | Lt -> true
    | _ -> false

  (** val div2 : n -> n **)

  let div2 = function
  | N0 -> N0
  | Npos p0 -> (match p0 with
                | XI p -> Npos p
                | XO p -> Npos p
                | XH -> N0)

  (** val even : n -> bool **)

  let even = function
  | N0 -> true
  | Npos p -> (match p with
               | XO _ -> true
               | _ -> false)

  (** val odd : n -> bool **)

  let odd n0 =
    negb (even n0)

  (** val pow : n -> n -> n **)

  let pow n0 = function
  | N0 -> Npos XH
  | Npos p0 -> (match n0 with
                | N0 -> N0
                | Npos q0 -> Npos (Coq_Pos.pow q0 p0))

  (** val log2 : n -> n **)

  let log2 = function
  | N0 -> N0
  | Npos p0 ->
    (match p0 with
     | XI p -> Npos (Coq_Pos.size p)
     | XO p -> Npos (Coq_Pos.size p)
     | XH -> N0)

  (** val pos_div_eucl : positive -> n -> n * n **)

  let rec pos_div_eucl a b =
    match a with
    | XI a' ->
      let (q0, r) = pos_div_eucl a' b in
      let r' = succ_double r in
      if leb b r' then ((succ_double q0), (sub r' b)) else ((double q0), r')
    | XO a' ->
      let (q0, r) = pos_div_eucl a' b in
      let r' = double r in
      if leb b r' then ((succ_double q0), (sub r' b)) else ((double q0), r')
    | XH ->
      (match b with
       | N0 -> (N0, (Npos XH))
       | Npos p -> (match p with
                    | XH -> ((Npos XH), N0)
                    | _ -> (N0, (Npos XH))))

  (** val div_eucl : n -> n -> n * n **)

  let div_eucl a b =
    match a with
    | N0 -> (N0, N0)
    | Npos na -> (match b with
                  | N0 -> (N0, a)
                  | Npos _ -> pos_div_eucl na b)

  (** val div : n -> n -> n **)

  let div a b =
    fst (div_eucl a b)

  (** val modulo : n -> n -> n **)

  let modulo a b =
    snd (div_eucl a b)

  (** val sqrt : n -> n **)

  let sqrt = function
  | N0 -> N0
  | Npos p -> Npos (Coq_Pos.sqrt p)

  (** val coq_lor : n -> n -> n **)

  let coq_lor n0 m =
    match n0 with
    | N0 -> m
    | Npos p ->
      (match m with
       | N0 -> n0
       | Npos q0 -> Npos (Coq_Pos.coq_lor p q0))

  (** val coq_land : n -> n -> n **)

  let coq_land n0 m =
    match n0 with
    | N0 -> N0
    | Npos p -> (match m with
                 | N0 -> N0
                 | Npos q0 -> Coq_Pos.coq_land p q0)

  (** val ldiff : n -> n -> n **)

  let ldiff n0 m =
    match n0 with
    | N0 -> N0
    | Npos p -> (match m with
                 | N0 -> n0
                 | Npos q0 -> Coq_Pos.ldiff p q0)

  (** val coq_lxor : n -> n -> n **)

  let coq_lxor n0 m =
    match n0 with
    | N0 -> m
    | Npos p -> (match m with
                 | N0 -> n0
                 | Npos q0 -> Coq_Pos.coq_lxor p q0)

  (** val shiftl : n -> n -> n **)

  let shiftl a n0 =
    match a with
    | N0 -> N0
    | Npos a0 -> Npos (Coq_Pos.shiftl a0 n0)

  (** val shiftr : n -> n -> n **)

  let shiftr a = function
  | N0 -> a
  | Npos p -> Coq_Pos.iter div2 a p

  (** val to_nat : n -> nat **)

  let to_nat = function
  | N0 -> O
  | Npos p -> Coq_Pos.to_nat p

  (** val of_nat : nat -> n **)

  let of_nat = function
  | O -> N0
  | S n' -> Npos (Coq_Pos.of_succ_nat n')
 end

type ascii =
| Ascii of bool * bool * bool * bool * bool * bool * bool * bool

(** val eqb0 : ascii -> ascii -> bool **)

let eqb0 a b =
  let Ascii (a0, a1, a2, a3, a4, a5, a6, a7) = a in
  let Ascii (b0, b1, b2, b3, b4, b5, b6, b7) = b in
  if if if if if if if eqb a0 b0 then eqb a1 b1 else false
                 then eqb a2 b2
                 else false
              then eqb a3 b3
              else false
           then eqb a4 b4
           else false
        then eqb a5 b5
        else false
     then eqb a6 b6
     else false
  then eqb a7 b7
  else false

(** val n_of_digits : bool list -> n **)

let rec n_of_digits = function
| [] -> N0
| b :: l' ->
  N.add (if b then Npos XH else N0) (N.mul (Npos (XO XH)) (n_of_digits l'))

(** val n_of_ascii : ascii -> n **)

let n_of_ascii = function
| Ascii (a0, a1, a2, a3, a4, a5, a6, a7) ->
  n_of_digits
    (a0 :: (a1 :: (a2 :: (a3 :: (a4 :: (a5 :: (a6 :: (a7 :: []))))))))

module Z =
 struct
  (** val double : z -> z **)

  let double = function
  | Z0 -> Z0
  | Zpos p -> Zpos (XO p)
  | Zneg p -> Zneg (XO p)

  (** val succ_double : z -> z **)

  let succ_double = function
  | Z0 -> Zpos XH
  | Zpos p -> Zpos (XI p)
  | Zneg p -> Zneg (Coq_Pos.pred_double p)

  (** val pred_double : z -> z **)

  let pred_double = function
  | Z0 -> Zneg XH
  | Zpos p -> Zpos (Coq_Pos.pred_double p)
  | Zneg p -> Zneg (XI p)

  (** val pos_sub : positive -> positive -> z **)

  let rec pos_sub x y =
    match x with
    | XI p ->
      (match y with
       | XI q0 -> double (pos_sub p q0)
       | XO q0 -> succ_double (pos_sub p q0)
       | XH -> Zpos (XO p))
    | XO p ->
      (match y with
       | XI q0 -> pred_double (pos_sub p q0)
       | XO q0 -> double (pos_sub p q0)
       | XH -> Zpos (Coq_Pos.pred_double p))
    | XH ->
      (match y with
       | XI q0 -> Zneg (XO q0)
       | XO q0 -> Zneg (Coq_Pos.pred_double q0)
       | XH -> Z0)

  (** val add : z -> z -> z **)

  let add x y =
    match x with
    | Z0 -> y
    | Zpos x' ->
      (match y with
       | Z0 -> x
       | Zpos y' -> Zpos (Coq_Pos.add x' y')
       | Zneg y' -> pos_sub x' y')
    | Zneg x' ->
      (match y with
       | Z0 -> x
       | Zpos y' -> pos_sub y' x'
       | Zneg y' -> Zneg (Coq_Pos.add x' y'))

  (** val opp : z -> z **)

  let opp = function
  | Z0 -> Z0
  | Zpos x0 -> Zneg x0
  | Zneg x0 -> Zpos x0

  (** val sub : z -> z -> z **)

  let sub m n0 =
    add m (opp n0)

  (** val mul : z -> z -> z **)

  let mul x y =
    match x with
    | Z0 -> Z0
    | Zpos x' ->
      (match y with
       | Z0 -> Z0
       | Zpos y' -> Zpos (Coq_Pos.mul x' y')
       | Zneg y' -> Zneg (Coq_Pos.mul x' y'))
    | Zneg x' ->
      (match y with
       | Z0 -> Z0
       | Zpos y' -> Zneg (Coq_Pos.mul x' y')
       | Zneg y' -> Zpos (Coq_Pos.mul x' y'))

  (** val pow_pos : z -> positive -> z **)

  let pow_pos z0 =
    Coq_Pos.iter (mul z0) (Zpos XH)

  (** val pow : z -> z -> z **)

  let pow x = function
  | Z0 -> Zpos XH
  | Zpos p -> pow_pos x p
  | Zneg _ -> Z0

  (** val compare : z -> z -> comparison **)

  let compare x y =
    match x with
    | Z0 -> (match y with
             | Z0 -> Eq
             | Zpos _ -> Lt
             | Zneg _ -> Gt)
    | Zpos x' -> (match y with
                  | Zpos y' -> Coq_Pos.compare x' y'
                  | _ -> Gt)
    | Zneg x' ->
      (match y with
       | Zneg y' -> compOpp (Coq_Pos.compare x' y')
       | _ -> Lt)

  (** val sgn : z -> z **)

  let sgn = function
  | Z0 -> Z0
  | Zpos _ -> Zpos XH
  | Zneg _ -> Zneg XH

  (** val leb : z -> z -> bool **)

  let leb x y =
    match compare x y with
    | Gt -> false
    | _ -> true

  (** val ltb : z -> z -> bool **)

  let ltb x y =
    match compare x y with
    | Lt -> true
    | _ -> false

  (** val eqb : z -> z -> bool **)

  let eqb x y =
    match x with
    | Z0 -> (match y with
             | Z0 -> true
             | _ -> false)
    | Zpos p -> (match y with
                 | Zpos q0 -> Coq_Pos.eqb p q0
                 | _ -> false)
    | Zneg p -> (match y with
                 | Zneg q0 -> Coq_Pos.eqb p q0
                 | _ -> false)

  (** val max : z -> z -> z **)

  let max n0 m =
    match compare n0 m with
    | Lt -> m
    | _ -> n0

  (** val abs : z -> z **)

  let abs = function
  | Zneg p -> Zpos p
  | x -> x

  (** val to_N : z -> n **)

  let to_N = function
  | Zpos p -> Npos p
  | _ -> N0

  (** val of_nat : nat -> z **)

  let of_nat = function
  | O -> Z0
  | S n1 -> Zpos (Coq_Pos.of_succ_nat n1)

  (** val of_N : n -> z **)

  let of_N = function
  | N0 -> Z0
  | Npos p -> Zpos p

  (** val to_pos : z -> positive **)

  let to_pos = function
  | Zpos p -> p
  | _ -> XH

  (** val pos_div_eucl : positive -> z -> z * z **)

  let rec pos_div_eucl a b =
    match a with
    | XI a' ->
      let (q0, r) = pos_div_eucl a' b in
      let r' = add (mul (Zpos (XO XH)) r) (Zpos XH) in
      if ltb r' b
      then ((mul (Zpos (XO XH)) q0), r')
      else ((add (mul (Zpos (XO XH)) q0) (Zpos XH)), (sub r' b))
    | XO a' ->
      let (q0, r) = pos_div_eucl a' b in
      let r' = mul (Zpos (XO XH)) r in
      if ltb r' b
      then ((mul (Zpos (XO XH)) q0), r')
      else ((add (mul (Zpos (XO XH)) q0) (Zpos XH)), (sub r' b))
    | XH -> if leb (Zpos (XO XH)) b then (Z0, (Zpos XH)) else ((Zpos XH), Z0)

  (** val div_eucl : z -> z -> z * z **)

  let div_eucl a b =
    match a with
    | Z0 -> (Z0, Z0)
    | Zpos a' ->
      (match b with
       | Z0 -> (Z0, a)
       | Zpos _ -> pos_div_eucl a' b
       | Zneg b' ->
         let (q0, r) = pos_div_eucl a' (Zpos b') in
         (match r with
          | Z0 -> ((opp q0), Z0)
          | _ -> ((opp (add q0 (Zpos XH))), (add b r))))
    | Zneg a' ->
      (match b with
       | Z0 -> (Z0, a)
       | Zpos _ ->
         let (q0, r) = pos_div_eucl a' b in
         (match r with
          | Z0 -> ((opp q0), Z0)
          | _ -> ((opp (add q0 (Zpos XH))), (sub b r)))
       | Zneg b' -> let (q0, r) = pos_div_eucl a' (Zpos b') in (q0, (opp r)))

  (** val div : z -> z -> z **)

  let div a b =
    let (q0, _) = div_eucl a b in q0

  (** val modulo : z -> z -> z **)

  let modulo a b =
    let (_, r) = div_eucl a b in r

  (** val quotrem : z -> z -> z * z **)

  let quotrem a b =
    match a with
    | Z0 -> (Z0, Z0)
    | Zpos a0 ->
      (match b with
       | Z0 -> (Z0, a)
       | Zpos b0 ->
         let (q0, r) = N.pos_div_eucl a0 (Npos b0) in ((of_N q0), (of_N r))
       | Zneg b0 ->
         let (q0, r) = N.pos_div_eucl a0 (Npos b0) in
         ((opp (of_N q0)), (of_N r)))
    | Zneg a0 ->
      (match b with
       | Z0 -> (Z0, a)
       | Zpos b0 ->
         let (q0, r) = N.pos_div_eucl a0 (Npos b0) in
         ((opp (of_N q0)), (opp (of_N r)))
       | Zneg b0 ->
         let (q0, r) = N.pos_div_eucl a0 (Npos b0) in
         ((of_N q0), (opp (of_N r))))

  (** val quot : z -> z -> z **)

  let quot a b =
    fst (quotrem a b)

  (** val rem : z -> z -> z **)

  let rem a b =
    snd (quotrem a b)

  (** val even : z -> bool **)

  let even = function
  | Z0 -> true
  | Zpos p -> (match p with
               | XO _ -> true
               | _ -> false)
  | Zneg p -> (match p with
               | XO _ -> true
               | _ -> false)

  (** val ggcd : z -> z -> z * (z * z) **)

  let ggcd a b =
    match a with
    | Z0 -> ((abs b), (Z0, (sgn b)))
    | Zpos a0 ->
      (match b with
       | Z0 -> ((abs a), ((sgn a), Z0))
       | Zpos b0 ->
         let (g, p) = Coq_Pos.ggcd a0 b0 in
         let (aa, bb) = p in ((Zpos g), ((Zpos aa), (Zpos bb)))
       | Zneg b0 ->
         let (g, p) = Coq_Pos.ggcd a0 b0 in
         let (aa, bb) = p in ((Zpos g), ((Zpos aa), (Zneg bb))))
    | Zneg a0 ->
      (match b with
       | Z0 -> ((abs a), ((sgn a), Z0))
       | Zpos b0 ->
         let (g, p) = Coq_Pos.ggcd a0 b0 in
         let (aa, bb) = p in ((Zpos g), ((Zneg aa), (Zpos bb)))
       | Zneg b0 ->
         let (g, p) = Coq_Pos.ggcd a0 b0 in
         let (aa, bb) = p in ((Zpos g), ((Zneg aa), (Zneg bb))))

  (** val coq_land : z -> z -> z **)

  let coq_land a b =
    match a with
    | Z0 -> Z0
    | Zpos a0 ->
      (match b with
       | Z0 -> Z0
       | Zpos b0 -> of_N (Coq_Pos.coq_land a0 b0)
       | Zneg b0 -> of_N (N.ldiff (Npos a0) (Coq_Pos.pred_N b0)))
    | Zneg a0 ->
      (match b with
       | Z0 -> Z0
       | Zpos b0 -> of_N (N.ldiff (Npos b0) (Coq_Pos.pred_N a0))
       | Zneg b0 ->
         Zneg (N.succ_pos (N.coq_lor (Coq_Pos.pred_N a0) (Coq_Pos.pred_N b0))))
 end

(** val zeq_bool : z -> z -> bool **)

let zeq_bool x y =
  match Z.compare x y with
  | Eq -> true
  | _ -> false

type string =
| EmptyString
| String of ascii * string

(** val eqb1 : string -> string -> bool **)

let rec eqb1 s1 s2 =
  match s1 with
  | EmptyString ->
    (match s2 with
     | EmptyString -> true
     | String (_, _) -> false)
  | String (c1, s1') ->
    (match s2 with
     | EmptyString -> false
     | String (c2, s2') -> if eqb0 c1 c2 then eqb1 s1' s2' else false)

type q = { qnum : z; qden : positive }

(** val qcompare : q -> q -> comparison **)

let qcompare p q0 =
  Z.compare (Z.mul p.qnum (Zpos q0.qden)) (Z.mul q0.qnum (Zpos p.qden))

(** val qeq_bool : q -> q -> bool **)

let qeq_bool x y =
  zeq_bool (Z.mul x.qnum (Zpos y.qden)) (Z.mul y.qnum (Zpos x.qden))

(** val qle_bool : q -> q -> bool **)

let qle_bool x y =
  Z.leb (Z.mul x.qnum (Zpos y.qden)) (Z.mul y.qnum (Zpos x.qden))

(** val qplus : q -> q -> q **)

let qplus x y =
  { qnum = (Z.add (Z.mul x.qnum (Zpos y.qden)) (Z.mul y.qnum (Zpos x.qden)));
    qden = (Coq_Pos.mul x.qden y.qden) }

(** val qmult : q -> q -> q **)

let qmult x y =
  { qnum = (Z.mul x.qnum y.qnum); qden = (Coq_Pos.mul x.qden y.qden) }

(** val qopp : q -> q **)

let qopp x =
  { qnum = (Z.opp x.qnum); qden = x.qden }

(** val qminus : q -> q -> q **)

let qminus x y =
  qplus x (qopp y)

(** val qinv : q -> q **)

let qinv x =
  match x.qnum with
  | Z0 -> { qnum = Z0; qden = XH }
  | Zpos p -> { qnum = (Zpos x.qden); qden = p }
  | Zneg p -> { qnum = (Zneg x.qden); qden = p }

(** val qdiv : q -> q -> q **)

let qdiv x y =
  qmult x (qinv y)

(** val qred : q -> q **)

let qred q0 =
  let { qnum = q1; qden = q2 } = q0 in
  let (r1, r2) = snd (Z.ggcd q1 (Zpos q2)) in
  { qnum = r1; qden = (Z.to_pos r2) }

type 'a res =
| Ok of 'a
| Panic of string

(** val bind : 'a1 res -> ('a1 -> 'a2 res) -> 'a2 res **)

let bind x f =
  match x with
  | Ok a -> f a
  | Panic w -> Panic w

(** val idx : n list -> nat -> n res **)

let idx m i =
  match nth_error m i with
  | Some x -> Ok x
  | None ->
    Panic (String ((Ascii (true, false, false, true, false, true, true,
      false)), (String ((Ascii (false, true, true, true, false, true, true,
      false)), (String ((Ascii (false, false, true, false, false, true, true,
      false)), (String ((Ascii (true, false, true, false, false, true, true,
      false)), (String ((Ascii (false, false, false, true, true, true, true,
      false)), (String ((Ascii (false, false, false, false, false, true,
      false, false)), (String ((Ascii (true, true, true, true, false, true,
      true, false)), (String ((Ascii (true, false, true, false, true, true,
      true, false)), (String ((Ascii (false, false, true, false, true, true,
      true, false)), (String ((Ascii (false, false, false, false, false,
      true, false, false)), (String ((Ascii (true, true, true, true, false,
      true, true, false)), (String ((Ascii (false, true, true, false, false,
      true, true, false)), (String ((Ascii (false, false, false, false,
      false, true, false, false)), (String ((Ascii (false, true, false,
      false, true, true, true, false)), (String ((Ascii (true, false, false,
      false, false, true, true, false)), (String ((Ascii (false, true, true,
      true, false, true, true, false)), (String ((Ascii (true, true, true,
      false, false, true, true, false)), (String ((Ascii (true, false, true,
      false, false, true, true, false)),
      EmptyString))))))))))))))))))))))))))))))))))))

(** val slice : n list -> nat -> nat -> n list res **)

let slice m a b =
  if (&&) (Nat.leb a b) (Nat.leb b (length m))
  then Ok (firstn (sub b a) (skipn a m))
  else Panic (String ((Ascii (true, true, false, false, true, true, true,
         false)), (String ((Ascii (false, false, true, true, false, true,
         true, false)), (String ((Ascii (true, false, false, true, false,
         true, true, false)), (String ((Ascii (true, true, false, false,
         false, true, true, false)), (String ((Ascii (true, false, true,
         false, false, true, true, false)), (String ((Ascii (false, false,
         false, false, false, true, false, false)), (String ((Ascii (true,
         true, true, true, false, true, true, false)), (String ((Ascii (true,
         false, true, false, true, true, true, false)), (String ((Ascii
         (false, false, true, false, true, true, true, false)), (String
         ((Ascii (false, false, false, false, false, true, false, false)),
         (String ((Ascii (true, true, true, true, false, true, true, false)),
         (String ((Ascii (false, true, true, false, false, true, true,
         false)), (String ((Ascii (false, false, false, false, false, true,
         false, false)), (String ((Ascii (false, true, false, false, true,
         true, true, false)), (String ((Ascii (true, false, false, false,
         false, true, true, false)), (String ((Ascii (false, true, true,
         true, false, true, true, false)), (String ((Ascii (true, true, true,
         false, false, true, true, false)), (String ((Ascii (true, false,
         true, false, false, true, true, false)),
         EmptyString))))))))))))))))))))))))))))))))))))

(** val u32_sub : n -> n -> n res **)

let u32_sub a b =
  if N.leb b a
  then Ok (N.sub a b)
  else Panic (String ((Ascii (true, false, false, false, false, true, true,
         false)), (String ((Ascii (false, false, true, false, true, true,
         true, false)), (String ((Ascii (false, false, true, false, true,
         true, true, false)), (String ((Ascii (true, false, true, false,
         false, true, true, false)), (String ((Ascii (true, false, true,
         true, false, true, true, false)), (String ((Ascii (false, false,
         false, false, true, true, true, false)), (String ((Ascii (false,
         false, true, false, true, true, true, false)), (String ((Ascii
         (false, false, false, false, false, true, false, false)), (String
         ((Ascii (false, false, true, false, true, true, true, false)),
         (String ((Ascii (true, true, true, true, false, true, true, false)),
         (String ((Ascii (false, false, false, false, false, true, false,
         false)), (String ((Ascii (true, true, false, false, true, true,
         true, false)), (String ((Ascii (true, false, true, false, true,
         true, true, false)), (String ((Ascii (false, true, false, false,
         false, true, true, false)), (String ((Ascii (false, false, true,
         false, true, true, true, false)), (String ((Ascii (false, true,
         false, false, true, true, true, false)), (String ((Ascii (true,
         false, false, false, false, true, true, false)), (String ((Ascii
         (true, true, false, false, false, true, true, false)), (String
         ((Ascii (false, false, true, false, true, true, true, false)),
         (String ((Ascii (false, false, false, false, false, true, false,
         false)), (String ((Ascii (true, true, true, false, true, true, true,
         false)), (String ((Ascii (true, false, false, true, false, true,
         true, false)), (String ((Ascii (false, false, true, false, true,
         true, true, false)), (String ((Ascii (false, false, false, true,
         false, true, true, false)), (String ((Ascii (false, false, false,
         false, false, true, false, false)), (String ((Ascii (true, true,
         true, true, false, true, true, false)), (String ((Ascii (false,
         true, true, false, true, true, true, false)), (String ((Ascii (true,
         false, true, false, false, true, true, false)), (String ((Ascii
         (false, true, false, false, true, true, true, false)), (String
         ((Ascii (false, true, true, false, false, true, true, false)),
         (String ((Ascii (false, false, true, true, false, true, true,
         false)), (String ((Ascii (true, true, true, true, false, true, true,
         false)), (String ((Ascii (true, true, true, false, true, true, true,
         false)),
         EmptyString))))))))))))))))))))))))))))))))))))))))))))))))))))))))))))))))))

(** val shl32 : n -> n -> n **)

let shl32 a k =
  N.coq_land (N.shiftl a k) (Npos (XI (XI (XI (XI (XI (XI (XI (XI (XI (XI (XI
    (XI (XI (XI (XI (XI (XI (XI (XI (XI (XI (XI (XI (XI (XI (XI (XI (XI (XI
    (XI (XI XH))))))))))))))))))))))))))))))))

(** val ofilter : ('a1 -> bool) -> 'a1 option -> 'a1 option **)

let ofilter p = function
| Some a -> if p a then Some a else None
| None -> None

(** val omap : ('a1 -> 'a2) -> 'a1 option -> 'a2 option **)

let omap f = function
| Some a -> Some (f a)
| None -> None

(** val oor : 'a1 option -> 'a1 option -> 'a1 option **)

let oor a b =
  match a with
  | Some _ -> a
  | None -> b

(** val is_some : 'a1 option -> bool **)

let is_some = function
| Some _ -> true
| None -> false

(** val num_seconds : z -> z -> z **)

let num_seconds a b =
  Z.quot (Z.sub a b) (Zpos (XO (XO (XO (XI (XO (XI (XI (XI (XI XH))))))))))

(** val bit_location : nat -> (nat * nat) res **)

let bit_location = function
| O ->
  Panic (String ((Ascii (true, false, false, false, false, true, true,
    false)), (String ((Ascii (false, false, true, false, true, true, true,
    false)), (String ((Ascii (false, false, true, false, true, true, true,
    false)), (String ((Ascii (true, false, true, false, false, true, true,
    false)), (String ((Ascii (true, false, true, true, false, true, true,
    false)), (String ((Ascii (false, false, false, false, true, true, true,
    false)), (String ((Ascii (false, false, true, false, true, true, true,
    false)), (String ((Ascii (false, false, false, false, false, true, false,
    false)), (String ((Ascii (false, false, true, false, true, true, true,
    false)), (String ((Ascii (true, true, true, true, false, true, true,
    false)), (String ((Ascii (false, false, false, false, false, true, false,
    false)), (String ((Ascii (true, true, false, false, true, true, true,
    false)), (String ((Ascii (true, false, true, false, true, true, true,
    false)), (String ((Ascii (false, true, false, false, false, true, true,
    false)), (String ((Ascii (false, false, true, false, true, true, true,
    false)), (String ((Ascii (false, true, false, false, true, true, true,
    false)), (String ((Ascii (true, false, false, false, false, true, true,
    false)), (String ((Ascii (true, true, false, false, false, true, true,
    false)), (String ((Ascii (false, false, true, false, true, true, true,
    false)), (String ((Ascii (false, false, false, false, false, true, false,
    false)), (String ((Ascii (true, true, true, false, true, true, true,
    false)), (String ((Ascii (true, false, false, true, false, true, true,
    false)), (String ((Ascii (false, false, true, false, true, true, true,
    false)), (String ((Ascii (false, false, false, true, false, true, true,
    false)), (String ((Ascii (false, false, false, false, false, true, false,
    false)), (String ((Ascii (true, true, true, true, false, true, true,
    false)), (String ((Ascii (false, true, true, false, true, true, true,
    false)), (String ((Ascii (true, false, true, false, false, true, true,
    false)), (String ((Ascii (false, true, false, false, true, true, true,
    false)), (String ((Ascii (false, true, true, false, false, true, true,
    false)), (String ((Ascii (false, false, true, true, false, true, true,
    false)), (String ((Ascii (true, true, true, true, false, true, true,
    false)), (String ((Ascii (true, true, true, false, true, true, true,
    false)),
    EmptyString))))))))))))))))))))))))))))))))))))))))))))))))))))))))))))))))))
| S q0 ->
  Ok ((Nat.div q0 (S (S (S (S O))))), (Nat.modulo q0 (S (S (S (S O))))))

(** val range_value : n list -> nat -> nat -> n option res **)

let range_value m sb eb =
  bind (bit_location sb) (fun pat ->
    let (sby, sbi) = pat in
    bind (bit_location eb) (fun pat0 ->
      let (eby, ebi) = pat0 in
      if (||) (Nat.ltb eby sby) ((&&) (Nat.eqb eby sby) (Nat.ltb ebi sbi))
      then Ok None
      else (match sub eby sby with
            | O ->
              bind (idx m sby) (fun x -> Ok (Some
                (N.shiftr
                  (N.coq_land x
                    (N.shiftr (Npos (XI (XI (XI XH)))) (N.of_nat sbi)))
                  (N.of_nat (sub (S (S (S O))) ebi)))))
            | S n0 ->
              (match n0 with
               | O ->
                 bind (idx m sby) (fun x ->
                   bind (idx m eby) (fun y -> Ok (Some
                     (N.coq_lor
                       (shl32
                         (N.coq_land x
                           (N.shiftr (Npos (XI (XI (XI XH)))) (N.of_nat sbi)))
                         (N.of_nat (add ebi (S O))))
                       (N.shiftr y (N.of_nat (sub (S (S (S O))) ebi)))))))
               | S _ ->
                 bind (idx m sby) (fun x ->
                   bind (slice m (add sby (S O)) eby) (fun mid ->
                     bind (idx m eby) (fun y ->
                       let acc =
                         fold_left (fun a z0 ->
                           N.coq_lor (shl32 a (Npos (XO (XO XH))))
                             (N.coq_land z0 (Npos (XI (XI (XI XH)))))) mid
                           (N.coq_land x
                             (N.shiftr (Npos (XI (XI (XI XH))))
                               (N.of_nat sbi)))
                       in
                       Ok (Some
                       (N.coq_lor (shl32 acc (N.of_nat (add ebi (S O))))
                         (N.shiftr y (N.of_nat (sub (S (S (S O))) ebi))))))))))))

(** val flag_value : n list -> nat -> n res **)

let flag_value m flag = match flag with
| O -> Ok N0
| S _ ->
  bind (bit_location flag) (fun pat ->
    let (fby, fbi) = pat in
    bind (idx m fby) (fun x -> Ok
      (N.coq_land (N.shiftr x (N.of_nat (sub (S (S (S O))) fbi))) (Npos XH))))

(** val flag_and_range_value :
    n list -> nat -> nat -> nat -> (n * n) option res **)

let flag_and_range_value m flag sb eb =
  bind (flag_value m flag) (fun f ->
    bind (range_value m sb eb) (fun v -> Ok (omap (fun v0 -> (f, v0)) v)))

(** val status_flag_and_range_value :
    n list -> nat -> nat -> nat -> nat -> ((n * n) * n) option res **)

let status_flag_and_range_value m status flag sb eb =
  bind (flag_value m status) (fun s ->
    bind (flag_and_range_value m flag sb eb) (fun fv -> Ok
      (omap (fun pat -> let (f, v) = pat in ((s, f), v)) fv)))

(** val hexval : n -> n option **)

let hexval b =
  if (&&) (N.leb (Npos (XO (XO (XO (XO (XI XH)))))) b)
       (N.leb b (Npos (XI (XO (XO (XI (XI XH)))))))
  then Some (N.sub b (Npos (XO (XO (XO (XO (XI XH)))))))
  else if (&&) (N.leb (Npos (XI (XO (XO (XO (XO (XO XH))))))) b)
            (N.leb b (Npos (XO (XI (XI (XO (XO (XO XH))))))))
       then Some (N.sub b (Npos (XI (XI (XI (XO (XI XH)))))))
       else if (&&) (N.leb (Npos (XI (XO (XO (XO (XO (XI XH))))))) b)
                 (N.leb b (Npos (XO (XI (XI (XO (XO (XI XH))))))))
            then Some (N.sub b (Npos (XI (XI (XI (XO (XI (XO XH))))))))
            else None

(** val filter_map : ('a1 -> 'a2 option) -> 'a1 list -> 'a2 list **)

let rec filter_map f = function
| [] -> []
| a :: t ->
  (match f a with
   | Some b -> b :: (filter_map f t)
   | None -> filter_map f t)

(** val digits : n list -> n list **)

let digits line =
  filter_map hexval line

(** val clean_squitter : n list -> n list option **)

let clean_squitter line =
  let d = digits line in
  (match length d with
   | O -> None
   | S n0 ->
     (match n0 with
      | O -> None
      | S n1 ->
        (match n1 with
         | O -> None
         | S n2 ->
           (match n2 with
            | O -> None
            | S n3 ->
              (match n3 with
               | O -> None
               | S n4 ->
                 (match n4 with
                  | O -> None
                  | S n5 ->
                    (match n5 with
                     | O -> None
                     | S n6 ->
                       (match n6 with
                        | O -> None
                        | S n7 ->
                          (match n7 with
                           | O -> None
                           | S n8 ->
                             (match n8 with
                              | O -> None
                              | S n9 ->
                                (match n9 with
                                 | O -> None
                                 | S n10 ->
                                   (match n10 with
                                    | O -> None
                                    | S n11 ->
                                      (match n11 with
                                       | O -> None
                                       | S n12 ->
                                         (match n12 with
                                          | O -> None
                                          | S n13 ->
                                            (match n13 with
                                             | O -> Some d
                                             | S n14 ->
                                               (match n14 with
                                                | O -> None
                                                | S n15 ->
                                                  (match n15 with
                                                   | O -> None
                                                   | S n16 ->
                                                     (match n16 with
                                                      | O -> None
                                                      | S n17 ->
                                                        (match n17 with
                                                         | O -> None
                                                         | S n18 ->
                                                           (match n18 with
                                                            | O -> None
                                                            | S n19 ->
                                                              (match n19 with
                                                               | O -> None
                                                               | S n20 ->
                                                                 (match n20 with
                                                                  | O -> None
                                                                  | S n21 ->
                                                                    (match n21 with
                                                                    | O ->
                                                                    None
                                                                    | S n22 ->
                                                                    (match n22 with
                                                                    | O ->
                                                                    None
                                                                    | S n23 ->
                                                                    (match n23 with
                                                                    | O ->
                                                                    None
                                                                    | S n24 ->
                                                                    (match n24 with
                                                                    | O ->
                                                                    None
                                                                    | S n25 ->
                                                                    (match n25 with
                                                                    | O ->
                                                                    Some
                                                                    (skipn (S
                                                                    (S (S (S
                                                                    (S (S (S
                                                                    (S (S (S
                                                                    (S (S
                                                                    O))))))))))))
                                                                    d)
                                                                    | S n26 ->
                                                                    (match n26 with
                                                                    | O ->
                                                                    None
                                                                    | S n27 ->
                                                                    (match n27 with
                                                                    | O ->
                                                                    Some d
                                                                    | S n28 ->
                                                                    (match n28 with
                                                                    | O ->
                                                                    None
                                                                    | S n29 ->
                                                                    (match n29 with
                                                                    | O ->
                                                                    None
                                                                    | S n30 ->
                                                                    (match n30 with
                                                                    | O ->
                                                                    None
                                                                    | S n31 ->
                                                                    (match n31 with
                                                                    | O ->
                                                                    None
                                                                    | S n32 ->
                                                                    (match n32 with
                                                                    | O ->
                                                                    None
                                                                    | S n33 ->
                                                                    (match n33 with
                                                                    | O ->
                                                                    None
                                                                    | S n34 ->
                                                                    (match n34 with
                                                                    | O ->
                                                                    None
                                                                    | S n35 ->
                                                                    (match n35 with
                                                                    | O ->
                                                                    None
                                                                    | S n36 ->
                                                                    (match n36 with
                                                                    | O ->
                                                                    None
                                                                    | S n37 ->
                                                                    (match n37 with
                                                                    | O ->
                                                                    None
                                                                    | S n38 ->
                                                                    (match n38 with
                                                                    | O ->
                                                                    None
                                                                    | S n39 ->
                                                                    (match n39 with
                                                                    | O ->
                                                                    Some
                                                                    (skipn (S
                                                                    (S (S (S
                                                                    (S (S (S
                                                                    (S (S (S
                                                                    (S (S
                                                                    O))))))))))))
                                                                    d)
                                                                    | S _ ->
                                                                    None)))))))))))))))))))))))))))))))))))))))))

(** val poly : n **)

let poly =
  Npos (XO (XO (XO (XO (XO (XO (XO (XI (XO (XO (XI (XO (XO (XO (XO (XO (XO
    (XI (XO (XI (XI (XI (XI (XI (XI (XI (XI (XI (XI (XI (XI
    XH)))))))))))))))))))))))))))))))

(** val msb32 : n -> bool **)

let msb32 d =
  negb
    (N.eqb
      (N.coq_land d (Npos (XO (XO (XO (XO (XO (XO (XO (XO (XO (XO (XO (XO (XO
        (XO (XO (XO (XO (XO (XO (XO (XO (XO (XO (XO (XO (XO (XO (XO (XO (XO
        (XO XH))))))))))))))))))))))))))))))))) N0)

(** val crc56_step : n -> n **)

let crc56_step d =
  shl32 (if msb32 d then N.coq_lxor d poly else d) (Npos XH)

(** val iter0 : nat -> ('a1 -> 'a1) -> 'a1 -> 'a1 **)

let rec iter0 n0 f a =
  match n0 with
  | O -> a
  | S k -> iter0 k f (f a)

(** val expect : 'a1 option -> string -> 'a1 res **)

let expect o why =
  match o with
  | Some a -> Ok a
  | None -> Panic why

(** val crc56 : n list -> n res **)

let crc56 m =
  bind
    (range_value m (S O) (S (S (S (S (S (S (S (S (S (S (S (S (S (S (S (S (S
      (S (S (S (S (S (S (S (S (S (S (S (S (S (S (S
      O))))))))))))))))))))))))))))))))) (fun d ->
    bind
      (expect d (String ((Ascii (true, true, false, false, false, false,
        true, false)), (String ((Ascii (true, false, false, false, false,
        true, true, false)), (String ((Ascii (false, true, true, true, false,
        true, true, false)), (String ((Ascii (false, true, true, true, false,
        true, true, false)), (String ((Ascii (true, true, true, true, false,
        true, true, false)), (String ((Ascii (false, false, true, false,
        true, true, true, false)), (String ((Ascii (false, false, false,
        false, false, true, false, false)), (String ((Ascii (true, true,
        false, false, true, true, true, false)), (String ((Ascii (true,
        false, true, false, false, true, true, false)), (String ((Ascii
        (false, false, true, false, true, true, true, false)), (String
        ((Ascii (false, false, false, false, false, true, false, false)),
        (String ((Ascii (false, false, true, false, false, true, true,
        false)), (String ((Ascii (true, false, false, false, false, true,
        true, false)), (String ((Ascii (false, false, true, false, true,
        true, true, false)), (String ((Ascii (true, false, false, false,
        false, true, true, false)), (String ((Ascii (false, false, false,
        false, false, true, false, false)), (String ((Ascii (true, false,
        false, true, false, true, true, false)), (String ((Ascii (false,
        true, true, true, false, true, true, false)), (String ((Ascii (false,
        false, false, false, false, true, false, false)), (String ((Ascii
        (true, true, false, false, false, true, true, false)), (String
        ((Ascii (false, true, false, false, true, true, true, false)),
        (String ((Ascii (true, true, false, false, false, true, true,
        false)), (String ((Ascii (true, false, true, false, true, true,
        false, false)), (String ((Ascii (false, true, true, false, true,
        true, false, false)), (String ((Ascii (false, true, true, true,
        false, true, false, false)),
        EmptyString)))))))))))))))))))))))))))))))))))))))))))))))))))
      (fun d0 -> Ok
      (N.shiftr
        (iter0 (S (S (S (S (S (S (S (S (S (S (S (S (S (S (S (S (S (S (S (S (S
          (S (S (S (S (S (S (S (S (S (S (S O))))))))))))))))))))))))))))))))
          crc56_step d0) (Npos (XO (XO (XO XH)))))))

(** val crc112_step : ((n * n) * n) -> (n * n) * n **)

let crc112_step = function
| (p, d2) ->
  let (d, d1) = p in
  let d0 = if msb32 d then N.coq_lxor d poly else d in
  let d3 = shl32 d0 (Npos XH) in
  let d4 = if msb32 d1 then N.coq_lor d3 (Npos XH) else d3 in
  let d5 = shl32 d1 (Npos XH) in
  let d6 = if msb32 d2 then N.coq_lor d5 (Npos XH) else d5 in
  let d7 = shl32 d2 (Npos XH) in ((d4, d6), d7)

(** val crc112 : n list -> n res **)

let crc112 m =
  bind
    (range_value m (S O) (S (S (S (S (S (S (S (S (S (S (S (S (S (S (S (S (S
      (S (S (S (S (S (S (S (S (S (S (S (S (S (S (S
      O))))))))))))))))))))))))))))))))) (fun d ->
    bind
      (expect d (String ((Ascii (true, true, false, false, false, false,
        true, false)), (String ((Ascii (true, false, false, false, false,
        true, true, false)), (String ((Ascii (false, true, true, true, false,
        true, true, false)), (String ((Ascii (false, true, true, true, false,
        true, true, false)), (String ((Ascii (true, true, true, true, false,
        true, true, false)), (String ((Ascii (false, false, true, false,
        true, true, true, false)), (String ((Ascii (false, false, false,
        false, false, true, false, false)), (String ((Ascii (true, true,
        false, false, true, true, true, false)), (String ((Ascii (true,
        false, true, false, false, true, true, false)), (String ((Ascii
        (false, false, true, false, true, true, true, false)), (String
        ((Ascii (false, false, false, false, false, true, false, false)),
        (String ((Ascii (false, false, true, false, false, true, true,
        false)), (String ((Ascii (true, false, false, false, false, true,
        true, false)), (String ((Ascii (false, false, true, false, true,
        true, true, false)), (String ((Ascii (true, false, false, false,
        false, true, true, false)), (String ((Ascii (false, false, false,
        false, false, true, false, false)), (String ((Ascii (true, false,
        false, true, false, true, true, false)), (String ((Ascii (false,
        true, true, true, false, true, true, false)), (String ((Ascii (false,
        false, false, false, false, true, false, false)), (String ((Ascii
        (true, true, false, false, false, true, true, false)), (String
        ((Ascii (false, true, false, false, true, true, true, false)),
        (String ((Ascii (true, true, false, false, false, true, true,
        false)), (String ((Ascii (true, false, false, false, true, true,
        false, false)), (String ((Ascii (true, false, false, false, true,
        true, false, false)), (String ((Ascii (false, true, false, false,
        true, true, false, false)), (String ((Ascii (false, true, true, true,
        false, true, false, false)),
        EmptyString)))))))))))))))))))))))))))))))))))))))))))))))))))))
      (fun d0 ->
      bind
        (range_value m (S (S (S (S (S (S (S (S (S (S (S (S (S (S (S (S (S (S
          (S (S (S (S (S (S (S (S (S (S (S (S (S (S (S
          O))))))))))))))))))))))))))))))))) (S (S (S (S (S (S (S (S (S (S (S
          (S (S (S (S (S (S (S (S (S (S (S (S (S (S (S (S (S (S (S (S (S (S
          (S (S (S (S (S (S (S (S (S (S (S (S (S (S (S (S (S (S (S (S (S (S
          (S (S (S (S (S (S (S (S (S
          O)))))))))))))))))))))))))))))))))))))))))))))))))))))))))))))))))
        (fun d1 ->
        bind
          (expect d1 (String ((Ascii (true, true, false, false, false, false,
            true, false)), (String ((Ascii (true, false, false, false, false,
            true, true, false)), (String ((Ascii (false, true, true, true,
            false, true, true, false)), (String ((Ascii (false, true, true,
            true, false, true, true, false)), (String ((Ascii (true, true,
            true, true, false, true, true, false)), (String ((Ascii (false,
            false, true, false, true, true, true, false)), (String ((Ascii
            (false, false, false, false, false, true, false, false)), (String
            ((Ascii (true, true, false, false, true, true, true, false)),
            (String ((Ascii (true, false, true, false, false, true, true,
            false)), (String ((Ascii (false, false, true, false, true, true,
            true, false)), (String ((Ascii (false, false, false, false,
            false, true, false, false)), (String ((Ascii (false, false, true,
            false, false, true, true, false)), (String ((Ascii (true, false,
            false, false, false, true, true, false)), (String ((Ascii (false,
            false, true, false, true, true, true, false)), (String ((Ascii
            (true, false, false, false, false, true, true, false)), (String
            ((Ascii (true, false, false, false, true, true, false, false)),
            (String ((Ascii (false, false, false, false, false, true, false,
            false)), (String ((Ascii (true, false, false, true, false, true,
            true, false)), (String ((Ascii (false, true, true, true, false,
            true, true, false)), (String ((Ascii (false, false, false, false,
            false, true, false, false)), (String ((Ascii (true, true, false,
            false, false, true, true, false)), (String ((Ascii (false, true,
            false, false, true, true, true, false)), (String ((Ascii (true,
            true, false, false, false, true, true, false)), (String ((Ascii
            (true, false, false, false, true, true, false, false)), (String
            ((Ascii (true, false, false, false, true, true, false, false)),
            (String ((Ascii (false, true, false, false, true, true, false,
            false)), (String ((Ascii (false, true, true, true, false, true,
            false, false)),
            EmptyString)))))))))))))))))))))))))))))))))))))))))))))))))))))))
          (fun d2 ->
          bind
            (range_value m (S (S (S (S (S (S (S (S (S (S (S (S (S (S (S (S (S
              (S (S (S (S (S (S (S (S (S (S (S (S (S (S (S (S (S (S (S (S (S
              (S (S (S (S (S (S (S (S (S (S (S (S (S (S (S (S (S (S (S (S (S
              (S (S (S (S (S (S
              O)))))))))))))))))))))))))))))))))))))))))))))))))))))))))))))))))
              (S (S (S (S (S (S (S (S (S (S (S (S (S (S (S (S (S (S (S (S (S
              (S (S (S (S (S (S (S (S (S (S (S (S (S (S (S (S (S (S (S (S (S
              (S (S (S (S (S (S (S (S (S (S (S (S (S (S (S (S (S (S (S (S (S
              (S (S (S (S (S (S (S (S (S (S (S (S (S (S (S (S (S (S (S (S (S
              (S (S (S (S
              O)))))))))))))))))))))))))))))))))))))))))))))))))))))))))))))))))))))))))))))))))))))))))
            (fun d3 ->
            bind
              (expect (omap (fun x -> shl32 x (Npos (XO (XO (XO XH))))) d3)
                (String ((Ascii (true, true, false, false, false, false,
                true, false)), (String ((Ascii (true, false, false, false,
                false, true, true, false)), (String ((Ascii (false, true,
                true, true, false, true, true, false)), (String ((Ascii
                (false, true, true, true, false, true, true, false)), (String
                ((Ascii (true, true, true, true, false, true, true, false)),
                (String ((Ascii (false, false, true, false, true, true, true,
                false)), (String ((Ascii (false, false, false, false, false,
                true, false, false)), (String ((Ascii (true, true, false,
                false, true, true, true, false)), (String ((Ascii (true,
                false, true, false, false, true, true, false)), (String
                ((Ascii (false, false, true, false, true, true, true,
                false)), (String ((Ascii (false, false, false, false, false,
                true, false, false)), (String ((Ascii (false, false, true,
                false, false, true, true, false)), (String ((Ascii (true,
                false, false, false, false, true, true, false)), (String
                ((Ascii (false, false, true, false, true, true, true,
                false)), (String ((Ascii (true, false, false, false, false,
                true, true, false)), (String ((Ascii (false, true, false,
                false, true, true, false, false)), (String ((Ascii (false,
                false, false, false, false, true, false, false)), (String
                ((Ascii (true, false, false, true, false, true, true,
                false)), (String ((Ascii (false, true, true, true, false,
                true, true, false)), (String ((Ascii (false, false, false,
                false, false, true, false, false)), (String ((Ascii (true,
                true, false, false, false, true, true, false)), (String
                ((Ascii (false, true, false, false, true, true, true,
                false)), (String ((Ascii (true, true, false, false, false,
                true, true, false)), (String ((Ascii (true, false, false,
                false, true, true, false, false)), (String ((Ascii (true,
                false, false, false, true, true, false, false)), (String
                ((Ascii (false, true, false, false, true, true, false,
                false)), (String ((Ascii (false, true, true, true, false,
                true, false, false)),
                EmptyString)))))))))))))))))))))))))))))))))))))))))))))))))))))))
              (fun d4 ->
              let (p, _) =
                iter0 (S (S (S (S (S (S (S (S (S (S (S (S (S (S (S (S (S (S
                  (S (S (S (S (S (S (S (S (S (S (S (S (S (S (S (S (S (S (S (S
                  (S (S (S (S (S (S (S (S (S (S (S (S (S (S (S (S (S (S (S (S
                  (S (S (S (S (S (S (S (S (S (S (S (S (S (S (S (S (S (S (S (S
                  (S (S (S (S (S (S (S (S (S (S
                  O))))))))))))))))))))))))))))))))))))))))))))))))))))))))))))))))))))))))))))))))))))))))
                  crc112_step ((d0, d2), d4)
              in
              let (d5, _) = p in Ok (N.shiftr d5 (Npos (XO (XO (XO XH)))))))))))

(** val get_crc : n list -> n -> n res **)

let get_crc m df =
  if N.leb df (Npos (XI (XI (XI XH)))) then crc56 m else crc112 m

(** val reminder : n list -> n res **)

let reminder m =
  match length m with
  | O ->
    Ok (Npos (XI (XI (XI (XI (XI (XI (XI (XI (XI (XI (XI (XI (XI (XI (XI (XI
      (XI (XI (XI (XI (XI (XI (XI XH))))))))))))))))))))))))
  | S n0 ->
    (match n0 with
     | O ->
       Ok (Npos (XI (XI (XI (XI (XI (XI (XI (XI (XI (XI (XI (XI (XI (XI (XI
         (XI (XI (XI (XI (XI (XI (XI (XI XH))))))))))))))))))))))))
     | S n1 ->
       (match n1 with
        | O ->
          Ok (Npos (XI (XI (XI (XI (XI (XI (XI (XI (XI (XI (XI (XI (XI (XI
            (XI (XI (XI (XI (XI (XI (XI (XI (XI XH))))))))))))))))))))))))
        | S n2 ->
          (match n2 with
           | O ->
             Ok (Npos (XI (XI (XI (XI (XI (XI (XI (XI (XI (XI (XI (XI (XI (XI
               (XI (XI (XI (XI (XI (XI (XI (XI (XI XH))))))))))))))))))))))))
           | S n3 ->
             (match n3 with
              | O ->
                Ok (Npos (XI (XI (XI (XI (XI (XI (XI (XI (XI (XI (XI (XI (XI
                  (XI (XI (XI (XI (XI (XI (XI (XI (XI (XI
                  XH))))))))))))))))))))))))
              | S n4 ->
                (match n4 with
                 | O ->
                   Ok (Npos (XI (XI (XI (XI (XI (XI (XI (XI (XI (XI (XI (XI
                     (XI (XI (XI (XI (XI (XI (XI (XI (XI (XI (XI
                     XH))))))))))))))))))))))))
                 | S n5 ->
                   (match n5 with
                    | O ->
                      Ok (Npos (XI (XI (XI (XI (XI (XI (XI (XI (XI (XI (XI
                        (XI (XI (XI (XI (XI (XI (XI (XI (XI (XI (XI (XI
                        XH))))))))))))))))))))))))
                    | S n6 ->
                      (match n6 with
                       | O ->
                         Ok (Npos (XI (XI (XI (XI (XI (XI (XI (XI (XI (XI (XI
                           (XI (XI (XI (XI (XI (XI (XI (XI (XI (XI (XI (XI
                           XH))))))))))))))))))))))))
                       | S n7 ->
                         (match n7 with
                          | O ->
                            Ok (Npos (XI (XI (XI (XI (XI (XI (XI (XI (XI (XI
                              (XI (XI (XI (XI (XI (XI (XI (XI (XI (XI (XI (XI
                              (XI XH))))))))))))))))))))))))
                          | S n8 ->
                            (match n8 with
                             | O ->
                               Ok (Npos (XI (XI (XI (XI (XI (XI (XI (XI (XI
                                 (XI (XI (XI (XI (XI (XI (XI (XI (XI (XI (XI
                                 (XI (XI (XI XH))))))))))))))))))))))))
                             | S n9 ->
                               (match n9 with
                                | O ->
                                  Ok (Npos (XI (XI (XI (XI (XI (XI (XI (XI
                                    (XI (XI (XI (XI (XI (XI (XI (XI (XI (XI
                                    (XI (XI (XI (XI (XI
                                    XH))))))))))))))))))))))))
                                | S n10 ->
                                  (match n10 with
                                   | O ->
                                     Ok (Npos (XI (XI (XI (XI (XI (XI (XI (XI
                                       (XI (XI (XI (XI (XI (XI (XI (XI (XI
                                       (XI (XI (XI (XI (XI (XI
                                       XH))))))))))))))))))))))))
                                   | S n11 ->
                                     (match n11 with
                                      | O ->
                                        Ok (Npos (XI (XI (XI (XI (XI (XI (XI
                                          (XI (XI (XI (XI (XI (XI (XI (XI (XI
                                          (XI (XI (XI (XI (XI (XI (XI
                                          XH))))))))))))))))))))))))
                                      | S n12 ->
                                        (match n12 with
                                         | O ->
                                           Ok (Npos (XI (XI (XI (XI (XI (XI
                                             (XI (XI (XI (XI (XI (XI (XI (XI
                                             (XI (XI (XI (XI (XI (XI (XI (XI
                                             (XI XH))))))))))))))))))))))))
                                         | S n13 ->
                                           (match n13 with
                                            | O ->
                                              bind (crc56 m) (fun crc ->
                                                bind
                                                  (range_value m
                                                    (sub (S (S (S (S (S (S (S
                                                      (S (S (S (S (S (S (S (S
                                                      (S (S (S (S (S (S (S (S
                                                      (S (S (S (S (S (S (S (S
                                                      (S (S (S (S (S (S (S (S
                                                      (S (S (S (S (S (S (S (S
                                                      (S (S (S (S (S (S (S (S
                                                      (S
                                                      O))))))))))))))))))))))))))))))))))))))))))))))))))))))))
                                                      (S (S (S (S (S (S (S (S
                                                      (S (S (S (S (S (S (S (S
                                                      (S (S (S (S (S (S (S
                                                      O))))))))))))))))))))))))
                                                    (S (S (S (S (S (S (S (S
                                                    (S (S (S (S (S (S (S (S
                                                    (S (S (S (S (S (S (S (S
                                                    (S (S (S (S (S (S (S (S
                                                    (S (S (S (S (S (S (S (S
                                                    (S (S (S (S (S (S (S (S
                                                    (S (S (S (S (S (S (S (S
                                                    O)))))))))))))))))))))))))))))))))))))))))))))))))))))))))
                                                  (fun p ->
                                                  bind
                                                    (expect p (String ((Ascii
                                                      (true, true, false,
                                                      false, false, false,
                                                      true, false)), (String
                                                      ((Ascii (true, false,
                                                      false, false, false,
                                                      true, true, false)),
                                                      (String ((Ascii (false,
                                                      true, true, true,
                                                      false, true, true,
                                                      false)), (String
                                                      ((Ascii (false, true,
                                                      true, true, false,
                                                      true, true, false)),
                                                      (String ((Ascii (true,
                                                      true, true, true,
                                                      false, true, true,
                                                      false)), (String
                                                      ((Ascii (false, false,
                                                      true, false, true,
                                                      true, true, false)),
                                                      (String ((Ascii (false,
                                                      false, false, false,
                                                      false, true, false,
                                                      false)), (String
                                                      ((Ascii (true, true,
                                                      false, false, true,
                                                      true, true, false)),
                                                      (String ((Ascii (true,
                                                      false, true, false,
                                                      false, true, true,
                                                      false)), (String
                                                      ((Ascii (false, false,
                                                      true, false, true,
                                                      true, true, false)),
                                                      (String ((Ascii (false,
                                                      false, false, false,
                                                      false, true, false,
                                                      false)), (String
                                                      ((Ascii (false, false,
                                                      false, false, true,
                                                      true, true, false)),
                                                      (String ((Ascii (true,
                                                      false, false, false,
                                                      false, true, true,
                                                      false)), (String
                                                      ((Ascii (false, true,
                                                      false, false, true,
                                                      true, true, false)),
                                                      (String ((Ascii (true,
                                                      false, false, true,
                                                      false, true, true,
                                                      false)), (String
                                                      ((Ascii (false, false,
                                                      true, false, true,
                                                      true, true, false)),
                                                      (String ((Ascii (true,
                                                      false, false, true,
                                                      true, true, true,
                                                      false)), (String
                                                      ((Ascii (false, false,
                                                      false, false, false,
                                                      true, false, false)),
                                                      (String ((Ascii (true,
                                                      false, false, true,
                                                      false, true, true,
                                                      false)), (String
                                                      ((Ascii (false, true,
                                                      true, true, false,
                                                      true, true, false)),
                                                      (String ((Ascii (false,
                                                      false, false, false,
                                                      false, true, false,
                                                      false)), (String
                                                      ((Ascii (false, true,
                                                      false, false, true,
                                                      true, true, false)),
                                                      (String ((Ascii (true,
                                                      false, true, false,
                                                      false, true, true,
                                                      false)), (String
                                                      ((Ascii (true, false,
                                                      true, true, false,
                                                      true, true, false)),
                                                      (String ((Ascii (true,
                                                      false, false, true,
                                                      false, true, true,
                                                      false)), (String
                                                      ((Ascii (false, true,
                                                      true, true, false,
                                                      true, true, false)),
                                                      (String ((Ascii (false,
                                                      false, true, false,
                                                      false, true, true,
                                                      false)), (String
                                                      ((Ascii (true, false,
                                                      true, false, false,
                                                      true, true, false)),
                                                      (String ((Ascii (false,
                                                      true, false, false,
                                                      true, true, true,
                                                      false)), (String
                                                      ((Ascii (false, true,
                                                      true, true, false,
                                                      true, false, false)),
                                                      EmptyString)))))))))))))))))))))))))))))))))))))))))))))))))))))))))))))
                                                    (fun p0 ->
                                                    bind
                                                      (range_value m (S O) (S
                                                        (S (S (S (S O))))))
                                                      (fun df ->
                                                      let r =
                                                        N.coq_lxor crc p0
                                                      in
                                                      Ok
                                                      (match df with
                                                       | Some n14 ->
                                                         (match n14 with
                                                          | N0 -> N0
                                                          | Npos p1 ->
                                                            (match p1 with
                                                             | XI p2 ->
                                                               (match p2 with
                                                                | XI p3 ->
                                                                  (match p3 with
                                                                   | XO p4 ->
                                                                    (match p4 with
                                                                    | XH ->
                                                                    N.coq_land
                                                                    r (Npos
                                                                    (XO (XO
                                                                    (XO (XO
                                                                    (XO (XO
                                                                    (XO (XI
                                                                    (XI (XI
                                                                    (XI (XI
                                                                    (XI (XI
                                                                    (XI (XI
                                                                    (XI (XI
                                                                    (XI (XI
                                                                    (XI (XI
                                                                    (XI
                                                                    XH))))))))))))))))))))))))
                                                                    | _ -> N0)
                                                                   | _ -> N0)
                                                                | XO p3 ->
                                                                  (match p3 with
                                                                   | XO p4 ->
                                                                    (match p4 with
                                                                    | XO p5 ->
                                                                    (match p5 with
                                                                    | XH -> r
                                                                    | _ -> N0)
                                                                    | _ -> N0)
                                                                   | _ -> N0)
                                                                | XH -> N0)
                                                             | XO p2 ->
                                                               (match p2 with
                                                                | XI p3 ->
                                                                  (match p3 with
                                                                   | XO p4 ->
                                                                    (match p4 with
                                                                    | XO p5 ->
                                                                    (match p5 with
                                                                    | XH -> r
                                                                    | _ -> N0)
                                                                    | _ -> N0)
                                                                   | _ -> N0)
                                                                | _ -> N0)
                                                             | XH -> N0))
                                                       | None -> N0)))))
                                            | S n14 ->
                                              (match n14 with
                                               | O ->
                                                 Ok (Npos (XI (XI (XI (XI (XI
                                                   (XI (XI (XI (XI (XI (XI
                                                   (XI (XI (XI (XI (XI (XI
                                                   (XI (XI (XI (XI (XI (XI
                                                   XH))))))))))))))))))))))))
                                               | S n15 ->
                                                 (match n15 with
                                                  | O ->
                                                    Ok (Npos (XI (XI (XI (XI
                                                      (XI (XI (XI (XI (XI (XI
                                                      (XI (XI (XI (XI (XI (XI
                                                      (XI (XI (XI (XI (XI (XI
                                                      (XI
                                                      XH))))))))))))))))))))))))
                                                  | S n16 ->
                                                    (match n16 with
                                                     | O ->
                                                       Ok (Npos (XI (XI (XI
                                                         (XI (XI (XI (XI (XI
                                                         (XI (XI (XI (XI (XI
                                                         (XI (XI (XI (XI (XI
                                                         (XI (XI (XI (XI (XI
                                                         XH))))))))))))))))))))))))
                                                     | S n17 ->
                                                       (match n17 with
                                                        | O ->
                                                          Ok (Npos (XI (XI
                                                            (XI (XI (XI (XI
                                                            (XI (XI (XI (XI
                                                            (XI (XI (XI (XI
                                                            (XI (XI (XI (XI
                                                            (XI (XI (XI (XI
                                                            (XI
                                                            XH))))))))))))))))))))))))
                                                        | S n18 ->
                                                          (match n18 with
                                                           | O ->
                                                             Ok (Npos (XI (XI
                                                               (XI (XI (XI
                                                               (XI (XI (XI
                                                               (XI (XI (XI
                                                               (XI (XI (XI
                                                               (XI (XI (XI
                                                               (XI (XI (XI
                                                               (XI (XI (XI
                                                               XH))))))))))))))))))))))))
                                                           | S n19 ->
                                                             (match n19 with
                                                              | O ->
                                                                Ok (Npos (XI
                                                                  (XI (XI (XI
                                                                  (XI (XI (XI
                                                                  (XI (XI (XI
                                                                  (XI (XI (XI
                                                                  (XI (XI (XI
                                                                  (XI (XI (XI
                                                                  (XI (XI (XI
                                                                  (XI
                                                                  XH))))))))))))))))))))))))
                                                              | S n20 ->
                                                                (match n20 with
                                                                 | O ->
                                                                   Ok (Npos
                                                                    (XI (XI
                                                                    (XI (XI
                                                                    (XI (XI
                                                                    (XI (XI
                                                                    (XI (XI
                                                                    (XI (XI
                                                                    (XI (XI
                                                                    (XI (XI
                                                                    (XI (XI
                                                                    (XI (XI
                                                                    (XI (XI
                                                                    (XI
                                                                    XH))))))))))))))))))))))))
                                                                 | S n21 ->
                                                                   (match n21 with
                                                                    | O ->
                                                                    Ok (Npos
                                                                    (XI (XI
                                                                    (XI (XI
                                                                    (XI (XI
                                                                    (XI (XI
                                                                    (XI (XI
                                                                    (XI (XI
                                                                    (XI (XI
                                                                    (XI (XI
                                                                    (XI (XI
                                                                    (XI (XI
                                                                    (XI (XI
                                                                    (XI
                                                                    XH))))))))))))))))))))))))
                                                                    | S n22 ->
                                                                    (match n22 with
                                                                    | O ->
                                                                    Ok (Npos
                                                                    (XI (XI
                                                                    (XI (XI
                                                                    (XI (XI
                                                                    (XI (XI
                                                                    (XI (XI
                                                                    (XI (XI
                                                                    (XI (XI
                                                                    (XI (XI
                                                                    (XI (XI
                                                                    (XI (XI
                                                                    (XI (XI
                                                                    (XI
                                                                    XH))))))))))))))))))))))))
                                                                    | S n23 ->
                                                                    (match n23 with
                                                                    | O ->
                                                                    Ok (Npos
                                                                    (XI (XI
                                                                    (XI (XI
                                                                    (XI (XI
                                                                    (XI (XI
                                                                    (XI (XI
                                                                    (XI (XI
                                                                    (XI (XI
                                                                    (XI (XI
                                                                    (XI (XI
                                                                    (XI (XI
                                                                    (XI (XI
                                                                    (XI
                                                                    XH))))))))))))))))))))))))
                                                                    | S n24 ->
                                                                    (match n24 with
                                                                    | O ->
                                                                    Ok (Npos
                                                                    (XI (XI
                                                                    (XI (XI
                                                                    (XI (XI
                                                                    (XI (XI
                                                                    (XI (XI
                                                                    (XI (XI
                                                                    (XI (XI
                                                                    (XI (XI
                                                                    (XI (XI
                                                                    (XI (XI
                                                                    (XI (XI
                                                                    (XI
                                                                    XH))))))))))))))))))))))))
                                                                    | S n25 ->
                                                                    (match n25 with
                                                                    | O ->
                                                                    Ok (Npos
                                                                    (XI (XI
                                                                    (XI (XI
                                                                    (XI (XI
                                                                    (XI (XI
                                                                    (XI (XI
                                                                    (XI (XI
                                                                    (XI (XI
                                                                    (XI (XI
                                                                    (XI (XI
                                                                    (XI (XI
                                                                    (XI (XI
                                                                    (XI
                                                                    XH))))))))))))))))))))))))
                                                                    | S n26 ->
                                                                    (match n26 with
                                                                    | O ->
                                                                    Ok (Npos
                                                                    (XI (XI
                                                                    (XI (XI
                                                                    (XI (XI
                                                                    (XI (XI
                                                                    (XI (XI
                                                                    (XI (XI
                                                                    (XI (XI
                                                                    (XI (XI
                                                                    (XI (XI
                                                                    (XI (XI
                                                                    (XI (XI
                                                                    (XI
                                                                    XH))))))))))))))))))))))))
                                                                    | S n27 ->
                                                                    (match n27 with
                                                                    | O ->
                                                                    bind
                                                                    (crc112 m)
                                                                    (fun crc ->
                                                                    bind
                                                                    (range_value
                                                                    m
                                                                    (sub (S
                                                                    (S (S (S
                                                                    (S (S (S
                                                                    (S (S (S
                                                                    (S (S (S
                                                                    (S (S (S
                                                                    (S (S (S
                                                                    (S (S (S
                                                                    (S (S (S
                                                                    (S (S (S
                                                                    (S (S (S
                                                                    (S (S (S
                                                                    (S (S (S
                                                                    (S (S (S
                                                                    (S (S (S
                                                                    (S (S (S
                                                                    (S (S (S
                                                                    (S (S (S
                                                                    (S (S (S
                                                                    (S (S (S
                                                                    (S (S (S
                                                                    (S (S (S
                                                                    (S (S (S
                                                                    (S (S (S
                                                                    (S (S (S
                                                                    (S (S (S
                                                                    (S (S (S
                                                                    (S (S (S
                                                                    (S (S (S
                                                                    (S (S (S
                                                                    (S (S (S
                                                                    (S (S (S
                                                                    (S (S (S
                                                                    (S (S (S
                                                                    (S (S (S
                                                                    (S (S (S
                                                                    (S (S (S
                                                                    (S (S (S
                                                                    O))))))))))))))))))))))))))))))))))))))))))))))))))))))))))))))))))))))))))))))))))))))))))))))))))))))))))))))))
                                                                    (S (S (S
                                                                    (S (S (S
                                                                    (S (S (S
                                                                    (S (S (S
                                                                    (S (S (S
                                                                    (S (S (S
                                                                    (S (S (S
                                                                    (S (S
                                                                    O))))))))))))))))))))))))
                                                                    (S (S (S
                                                                    (S (S (S
                                                                    (S (S (S
                                                                    (S (S (S
                                                                    (S (S (S
                                                                    (S (S (S
                                                                    (S (S (S
                                                                    (S (S (S
                                                                    (S (S (S
                                                                    (S (S (S
                                                                    (S (S (S
                                                                    (S (S (S
                                                                    (S (S (S
                                                                    (S (S (S
                                                                    (S (S (S
                                                                    (S (S (S
                                                                    (S (S (S
                                                                    (S (S (S
                                                                    (S (S (S
                                                                    (S (S (S
                                                                    (S (S (S
                                                                    (S (S (S
                                                                    (S (S (S
                                                                    (S (S (S
                                                                    (S (S (S
                                                                    (S (S (S
                                                                    (S (S (S
                                                                    (S (S (S
                                                                    (S (S (S
                                                                    (S (S (S
                                                                    (S (S (S
                                                                    (S (S (S
                                                                    (S (S (S
                                                                    (S (S (S
                                                                    (S (S (S
                                                                    (S (S (S
                                                                    (S (S (S
                                                                    (S
                                                                    O)))))))))))))))))))))))))))))))))))))))))))))))))))))))))))))))))))))))))))))))))))))))))))))))))))))))))))))))))
                                                                    (fun p ->
                                                                    bind
                                                                    (expect p
                                                                    (String
                                                                    ((Ascii
                                                                    (true,
                                                                    true,
                                                                    false,
                                                                    false,
                                                                    false,
                                                                    false,
                                                                    true,
                                                                    false)),
                                                                    (String
                                                                    ((Ascii
                                                                    (true,
                                                                    false,
                                                                    false,
                                                                    false,
                                                                    false,
                                                                    true,
                                                                    true,
                                                                    false)),
                                                                    (String
                                                                    ((Ascii
                                                                    (false,
                                                                    true,
                                                                    true,
                                                                    true,
                                                                    false,
                                                                    true,
                                                                    true,
                                                                    false)),
                                                                    (String
                                                                    ((Ascii
                                                                    (false,
                                                                    true,
                                                                    true,
                                                                    true,
                                                                    false,
                                                                    true,
                                                                    true,
                                                                    false)),
                                                                    (String
                                                                    ((Ascii
                                                                    (true,
                                                                    true,
                                                                    true,
                                                                    true,
                                                                    false,
                                                                    true,
                                                                    true,
                                                                    false)),
                                                                    (String
                                                                    ((Ascii
                                                                    (false,
                                                                    false,
                                                                    true,
                                                                    false,
                                                                    true,
                                                                    true,
                                                                    true,
                                                                    false)),
                                                                    (String
                                                                    ((Ascii
                                                                    (false,
                                                                    false,
                                                                    false,
                                                                    false,
                                                                    false,
                                                                    true,
                                                                    false,
                                                                    false)),
                                                                    (String
                                                                    ((Ascii
                                                                    (true,
                                                                    true,
                                                                    false,
                                                                    false,
                                                                    true,
                                                                    true,
                                                                    true,
                                                                    false)),
                                                                    (String
                                                                    ((Ascii
                                                                    (true,
                                                                    false,
                                                                    true,
                                                                    false,
                                                                    false,
                                                                    true,
                                                                    true,
                                                                    false)),
                                                                    (String
                                                                    ((Ascii
                                                                    (false,
                                                                    false,
                                                                    true,
                                                                    false,
                                                                    true,
                                                                    true,
                                                                    true,
                                                                    false)),
                                                                    (String
                                                                    ((Ascii
                                                                    (false,
                                                                    false,
                                                                    false,
                                                                    false,
                                                                    false,
                                                                    true,
                                                                    false,
                                                                    false)),
                                                                    (String
                                                                    ((Ascii
                                                                    (false,
                                                                    false,
                                                                    false,
                                                                    false,
                                                                    true,
                                                                    true,
                                                                    true,
                                                                    false)),
                                                                    (String
                                                                    ((Ascii
                                                                    (true,
                                                                    false,
                                                                    false,
                                                                    false,
                                                                    false,
                                                                    true,
                                                                    true,
                                                                    false)),
                                                                    (String
                                                                    ((Ascii
                                                                    (false,
                                                                    true,
                                                                    false,
                                                                    false,
                                                                    true,
                                                                    true,
                                                                    true,
                                                                    false)),
                                                                    (String
                                                                    ((Ascii
                                                                    (true,
                                                                    false,
                                                                    false,
                                                                    true,
                                                                    false,
                                                                    true,
                                                                    true,
                                                                    false)),
                                                                    (String
                                                                    ((Ascii
                                                                    (false,
                                                                    false,
                                                                    true,
                                                                    false,
                                                                    true,
                                                                    true,
                                                                    true,
                                                                    false)),
                                                                    (String
                                                                    ((Ascii
                                                                    (true,
                                                                    false,
                                                                    false,
                                                                    true,
                                                                    true,
                                                                    true,
                                                                    true,
                                                                    false)),
                                                                    (String
                                                                    ((Ascii
                                                                    (false,
                                                                    false,
                                                                    false,
                                                                    false,
                                                                    false,
                                                                    true,
                                                                    false,
                                                                    false)),
                                                                    (String
                                                                    ((Ascii
                                                                    (true,
                                                                    false,
                                                                    false,
                                                                    true,
                                                                    false,
                                                                    true,
                                                                    true,
                                                                    false)),
                                                                    (String
                                                                    ((Ascii
                                                                    (false,
                                                                    true,
                                                                    true,
                                                                    true,
                                                                    false,
                                                                    true,
                                                                    true,
                                                                    false)),
                                                                    (String
                                                                    ((Ascii
                                                                    (false,
                                                                    false,
                                                                    false,
                                                                    false,
                                                                    false,
                                                                    true,
                                                                    false,
                                                                    false)),
                                                                    (String
                                                                    ((Ascii
                                                                    (false,
                                                                    true,
                                                                    false,
                                                                    false,
                                                                    true,
                                                                    true,
                                                                    true,
                                                                    false)),
                                                                    (String
                                                                    ((Ascii
                                                                    (true,
                                                                    false,
                                                                    true,
                                                                    false,
                                                                    false,
                                                                    true,
                                                                    true,
                                                                    false)),
                                                                    (String
                                                                    ((Ascii
                                                                    (true,
                                                                    false,
                                                                    true,
                                                                    true,
                                                                    false,
                                                                    true,
                                                                    true,
                                                                    false)),
                                                                    (String
                                                                    ((Ascii
                                                                    (true,
                                                                    false,
                                                                    false,
                                                                    true,
                                                                    false,
                                                                    true,
                                                                    true,
                                                                    false)),
                                                                    (String
                                                                    ((Ascii
                                                                    (false,
                                                                    true,
                                                                    true,
                                                                    true,
                                                                    false,
                                                                    true,
                                                                    true,
                                                                    false)),
                                                                    (String
                                                                    ((Ascii
                                                                    (false,
                                                                    false,
                                                                    true,
                                                                    false,
                                                                    false,
                                                                    true,
                                                                    true,
                                                                    false)),
                                                                    (String
                                                                    ((Ascii
                                                                    (true,
                                                                    false,
                                                                    true,
                                                                    false,
                                                                    false,
                                                                    true,
                                                                    true,
                                                                    false)),
                                                                    (String
                                                                    ((Ascii
                                                                    (false,
                                                                    true,
                                                                    false,
                                                                    false,
                                                                    true,
                                                                    true,
                                                                    true,
                                                                    false)),
                                                                    (String
                                                                    ((Ascii
                                                                    (false,
                                                                    true,
                                                                    true,
                                                                    true,
                                                                    false,
                                                                    true,
                                                                    false,
                                                                    false)),
                                                                    EmptyString)))))))))))))))))))))))))))))))))))))))))))))))))))))))))))))
                                                                    (fun p0 ->
                                                                    bind
                                                                    (range_value
                                                                    m (S O)
                                                                    (S (S (S
                                                                    (S (S
                                                                    O))))))
                                                                    (fun df ->
                                                                    let r =
                                                                    N.coq_lxor
                                                                    crc p0
                                                                    in
                                                                    Ok
                                                                    (
                                                                    match df with
                                                                    | Some n28 ->
                                                                    (match n28 with
                                                                    | N0 -> N0
                                                                    | Npos p1 ->
                                                                    (match p1 with
                                                                    | XI p2 ->
                                                                    (match p2 with
                                                                    | XI p3 ->
                                                                    (match p3 with
                                                                    | XO p4 ->
                                                                    (match p4 with
                                                                    | XH ->
                                                                    N.coq_land
                                                                    r (Npos
                                                                    (XO (XO
                                                                    (XO (XO
                                                                    (XO (XO
                                                                    (XO (XI
                                                                    (XI (XI
                                                                    (XI (XI
                                                                    (XI (XI
                                                                    (XI (XI
                                                                    (XI (XI
                                                                    (XI (XI
                                                                    (XI (XI
                                                                    (XI
                                                                    XH))))))))))))))))))))))))
                                                                    | _ -> N0)
                                                                    | _ -> N0)
                                                                    | XO p3 ->
                                                                    (match p3 with
                                                                    | XO p4 ->
                                                                    (match p4 with
                                                                    | XO p5 ->
                                                                    (match p5 with
                                                                    | XH -> r
                                                                    | _ -> N0)
                                                                    | _ -> N0)
                                                                    | _ -> N0)
                                                                    | XH -> N0)
                                                                    | XO p2 ->
                                                                    (match p2 with
                                                                    | XI p3 ->
                                                                    (match p3 with
                                                                    | XO p4 ->
                                                                    (match p4 with
                                                                    | XO p5 ->
                                                                    (match p5 with
                                                                    | XH -> r
                                                                    | _ -> N0)
                                                                    | _ -> N0)
                                                                    | _ -> N0)
                                                                    | _ -> N0)
                                                                    | XH -> N0))
                                                                    | None ->
                                                                    N0)))))
                                                                    | S _ ->
                                                                    Ok (Npos
                                                                    (XI (XI
                                                                    (XI (XI
                                                                    (XI (XI
                                                                    (XI (XI
                                                                    (XI (XI
                                                                    (XI (XI
                                                                    (XI (XI
                                                                    (XI (XI
                                                                    (XI (XI
                                                                    (XI (XI
                                                                    (XI (XI
                                                                    (XI
                                                                    XH))))))))))))))))))))))))))))))))))))))))))))))))))))

(** val get_message : n list -> n list option res **)

let get_message line =
  match clean_squitter line with
  | Some m ->
    if negb
         ((||)
           (Nat.eqb (length m) (S (S (S (S (S (S (S (S (S (S (S (S (S (S
             O)))))))))))))))
           (Nat.eqb (length m) (S (S (S (S (S (S (S (S (S (S (S (S (S (S (S
             (S (S (S (S (S (S (S (S (S (S (S (S (S
             O))))))))))))))))))))))))))))))
    then Ok None
    else bind (idx m O) (fun m0 ->
           if negb
                (eqb (N.ltb m0 (Npos (XO (XO (XO XH)))))
                  (Nat.eqb (length m) (S (S (S (S (S (S (S (S (S (S (S (S (S
                    (S O))))))))))))))))
           then Ok None
           else bind (reminder m) (fun r ->
                  if N.eqb r N0 then Ok (Some m) else Ok None))
  | None -> Ok None

(** val get_downlink_format : n list -> n option res **)

let get_downlink_format m =
  range_value m (S O) (S (S (S (S (S O)))))

(** val nonzero : n option -> n option **)

let nonzero o =
  ofilter (fun x -> negb (N.eqb x N0)) o

(** val ap_format : n -> bool **)

let ap_format df =
  (||)
    ((||)
      ((||)
        ((||) ((||) (N.eqb df N0) (N.eqb df (Npos (XO (XO XH)))))
          (N.eqb df (Npos (XI (XO XH)))))
        (N.eqb df (Npos (XO (XO (XO (XO XH)))))))
      (N.eqb df (Npos (XO (XO (XI (XO XH)))))))
    (N.eqb df (Npos (XI (XO (XI (XO XH))))))

(** val get_icao : n list -> n -> n option res **)

let get_icao m df =
  if ap_format df
  then let len = mul (length m) (S (S (S (S O)))) in
       if Nat.ltb len (S (S (S (S (S (S (S (S (S (S (S (S (S (S (S (S (S (S
            (S (S (S (S (S O)))))))))))))))))))))))
       then Panic (String ((Ascii (true, false, false, false, false, true,
              true, false)), (String ((Ascii (false, false, true, false,
              true, true, true, false)), (String ((Ascii (false, false, true,
              false, true, true, true, false)), (String ((Ascii (true, false,
              true, false, false, true, true, false)), (String ((Ascii (true,
              false, true, true, false, true, true, false)), (String ((Ascii
              (false, false, false, false, true, true, true, false)), (String
              ((Ascii (false, false, true, false, true, true, true, false)),
              (String ((Ascii (false, false, false, false, false, true,
              false, false)), (String ((Ascii (false, false, true, false,
              true, true, true, false)), (String ((Ascii (true, true, true,
              true, false, true, true, false)), (String ((Ascii (false,
              false, false, false, false, true, false, false)), (String
              ((Ascii (true, true, false, false, true, true, true, false)),
              (String ((Ascii (true, false, true, false, true, true, true,
              false)), (String ((Ascii (false, true, false, false, false,
              true, true, false)), (String ((Ascii (false, false, true,
              false, true, true, true, false)), (String ((Ascii (false, true,
              false, false, true, true, true, false)), (String ((Ascii (true,
              false, false, false, false, true, true, false)), (String
              ((Ascii (true, true, false, false, false, true, true, false)),
              (String ((Ascii (false, false, true, false, true, true, true,
              false)), (String ((Ascii (false, false, false, false, false,
              true, false, false)), (String ((Ascii (true, true, true, false,
              true, true, true, false)), (String ((Ascii (true, false, false,
              true, false, true, true, false)), (String ((Ascii (false,
              false, true, false, true, true, true, false)), (String ((Ascii
              (false, false, false, true, false, true, true, false)), (String
              ((Ascii (false, false, false, false, false, true, false,
              false)), (String ((Ascii (true, true, true, true, false, true,
              true, false)), (String ((Ascii (false, true, true, false, true,
              true, true, false)), (String ((Ascii (true, false, true, false,
              false, true, true, false)), (String ((Ascii (false, true,
              false, false, true, true, true, false)), (String ((Ascii
              (false, true, true, false, false, true, true, false)), (String
              ((Ascii (false, false, true, true, false, true, true, false)),
              (String ((Ascii (true, true, true, true, false, true, true,
              false)), (String ((Ascii (true, true, true, false, true, true,
              true, false)),
              EmptyString))))))))))))))))))))))))))))))))))))))))))))))))))))))))))))))))))
       else bind
              (range_value m
                (sub len (S (S (S (S (S (S (S (S (S (S (S (S (S (S (S (S (S
                  (S (S (S (S (S (S O)))))))))))))))))))))))) len) (fun r ->
              match r with
              | Some r0 ->
                bind (get_crc m df) (fun c -> Ok
                  (nonzero (Some (N.coq_lxor r0 c))))
              | None -> Ok None)
  else bind
         (range_value m (S (S (S (S (S (S (S (S (S O))))))))) (S (S (S (S (S
           (S (S (S (S (S (S (S (S (S (S (S (S (S (S (S (S (S (S (S (S (S (S
           (S (S (S (S (S O))))))))))))))))))))))))))))))))) (fun r -> Ok
         (nonzero r))

(** val get_message_type : n list -> (n * n) res **)

let get_message_type m =
  bind (idx m (S (S (S (S (S (S (S (S O))))))))) (fun a ->
    bind (idx m (S (S (S (S (S (S (S (S (S O)))))))))) (fun b -> Ok
      ((N.coq_lor (N.shiftl a (Npos XH)) (N.shiftr b (Npos (XI XH)))),
      (N.coq_land b (Npos (XI (XI XH)))))))

(** val get_capability : n list -> n res **)

let get_capability m =
  bind (idx m (S O)) (fun a -> Ok (N.coq_land a (Npos (XI (XI XH)))))

(** val ma_bits : (nat * n) list **)

let ma_bits =
  ((S (S (S (S O)))), N0) :: (((S (S (S (S (S O))))), (Npos (XI XH))) :: (((S
    (S (S (S (S O))))), (Npos (XO XH))) :: (((S (S (S (S (S O))))), (Npos
    XH)) :: (((S (S (S (S (S O))))), N0) :: (((S (S (S (S (S (S O)))))),
    (Npos (XI XH))) :: (((S (S (S (S (S (S O)))))), (Npos XH)) :: (((S (S (S
    (S (S (S O)))))), N0) :: (((S (S (S (S (S (S (S O))))))), (Npos (XI
    XH))) :: (((S (S (S (S (S (S (S O))))))), (Npos (XO XH))) :: (((S (S (S
    (S (S (S (S O))))))), (Npos XH)) :: (((S (S (S (S (S (S (S O))))))),
    N0) :: (((S (S (S (S (S (S O)))))), (Npos (XO XH))) :: (((S (S (S (S (S
    (S O)))))), N0) :: [])))))))))))))

(** val ma_top : n **)

let ma_top =
  Npos (XI (XO (XI XH)))

(** val nl_table : (q * z) list **)

let nl_table =
  ({ qnum = (Zpos (XO (XI (XO (XI (XI (XO (XI (XI (XI (XI (XO (XI (XO (XI (XO
    (XI (XO (XO (XO (XI (XO (XI (XI (XO (XO (XI (XI (XI (XI
    XH)))))))))))))))))))))))))))))); qden = (XO (XO (XO (XO (XO (XO (XO (XO
    (XI (XO (XO (XO (XO (XI (XI (XI (XI (XO (XI (XO (XI (XI (XI (XI (XI (XO
    XH)))))))))))))))))))))))))) }, (Zpos (XI (XI (XO (XI (XI
    XH))))))) :: (({ qnum = (Zpos (XI (XO (XI (XI (XI (XO (XO (XI (XI (XI (XI
    (XI (XI (XI (XI (XI (XI (XO (XO (XO (XO (XI (XI (XO (XO (XO (XO (XI (XI
    (XO XH))))))))))))))))))))))))))))))); qden = (XO (XO (XO (XO (XO (XO (XO
    (XO (XI (XO (XO (XO (XO (XI (XI (XI (XI (XO (XI (XO (XI (XI (XI (XI (XI
    (XO XH)))))))))))))))))))))))))) }, (Zpos (XO (XI (XO (XI (XI
    XH))))))) :: (({ qnum = (Zpos (XI (XO (XI (XO (XI (XI (XO (XO (XI (XO (XO
    (XI (XO (XO (XO (XO (XO (XI (XI (XO (XO (XI (XI (XO (XO (XO (XI (XI (XO
    (XI XH))))))))))))))))))))))))))))))); qden = (XO (XO (XO (XO (XO (XO (XO
    (XO (XI (XO (XO (XO (XO (XI (XI (XI (XI (XO (XI (XO (XI (XI (XI (XI (XI
    (XO XH)))))))))))))))))))))))))) }, (Zpos (XI (XO (XO (XI (XI
    XH))))))) :: (({ qnum = (Zpos (XI (XO (XI (XO (XO (XI (XI (XO (XI (XI (XI
    (XI (XO (XO (XI (XO (XO (XO (XO (XI (XI (XO (XI (XO (XI (XO (XI (XI (XI
    (XI XH))))))))))))))))))))))))))))))); qden = (XO (XO (XO (XO (XO (XO (XO
    (XO (XI (XO (XO (XO (XO (XI (XI (XI (XI (XO (XI (XO (XI (XI (XI (XI (XI
    (XO XH)))))))))))))))))))))))))) }, (Zpos (XO (XO (XO (XI (XI
    XH))))))) :: (({ qnum = (Zpos (XI (XI (XI (XO (XO (XI (XO (XO (XI (XI (XO
    (XO (XO (XI (XI (XI (XO (XI (XI (XO (XI (XO (XI (XO (XO (XO (XI (XI (XO
    (XO (XO XH)))))))))))))))))))))))))))))))); qden = (XO (XO (XO (XO (XO
    (XO (XO (XO (XI (XO (XO (XO (XO (XI (XI (XI (XI (XO (XI (XO (XI (XI (XI
    (XI (XI (XO XH)))))))))))))))))))))))))) }, (Zpos (XI (XI (XI (XO (XI
    XH))))))) :: (({ qnum = (Zpos (XI (XI (XO (XO (XO (XI (XO (XI (XI (XO (XI
    (XI (XO (XO (XI (XO (XO (XO (XI (XO (XI (XI (XI (XI (XI (XO (XO (XI (XI
    (XO (XO XH)))))))))))))))))))))))))))))))); qden = (XO (XO (XO (XO (XO
    (XO (XO (XO (XI (XO (XO (XO (XO (XI (XI (XI (XI (XO (XI (XO (XI (XI (XI
    (XI (XI (XO XH)))))))))))))))))))))))))) }, (Zpos (XO (XI (XI (XO (XI
    XH))))))) :: (({ qnum = (Zpos (XO (XI (XI (XO (XI (XO (XI (XI (XO (XI (XO
    (XO (XO (XO (XO (XI (XI (XI (XI (XO (XO (XO (XO (XI (XO (XI (XI (XO (XO
    (XI (XO XH)))))))))))))))))))))))))))))))); qden = (XO (XO (XO (XO (XO
    (XO (XO (XO (XI (XO (XO (XO (XO (XI (XI (XI (XI (XO (XI (XO (XI (XI (XI
    (XI (XI (XO XH)))))))))))))))))))))))))) }, (Zpos (XI (XO (XI (XO (XI
    XH))))))) :: (({ qnum = (Zpos (XO (XI (XI (XO (XO (XO (XI (XI (XI (XI (XO
    (XI (XI (XO (XO (XO (XI (XO (XO (XI (XO (XO (XI (XO (XO (XI (XO (XO (XI
    (XI (XO XH)))))))))))))))))))))))))))))))); qden = (XO (XO (XO (XO (XO
    (XO (XO (XO (XI (XO (XO (XO (XO (XI (XI (XI (XI (XO (XI (XO (XI (XI (XI
    (XI (XI (XO XH)))))))))))))))))))))))))) }, (Zpos (XO (XO (XI (XO (XI
    XH))))))) :: (({ qnum = (Zpos (XO (XO (XI (XI (XO (XI (XI (XO (XI (XI (XI
    (XI (XI (XO (XI (XO (XO (XO (XO (XO (XO (XI (XI (XO (XI (XO (XI (XI (XI
    (XI (XO XH)))))))))))))))))))))))))))))))); qden = (XO (XO (XO (XO (XO
    (XO (XO (XO (XI (XO (XO (XO (XO (XI (XI (XI (XI (XO (XI (XO (XI (XI (XI
    (XI (XI (XO XH)))))))))))))))))))))))))) }, (Zpos (XI (XI (XO (XO (XI
    XH))))))) :: (({ qnum = (Zpos (XO (XO (XI (XI (XI (XO (XI (XI (XO (XO (XO
    (XO (XO (XI (XI (XI (XI (XO (XO (XI (XO (XI (XI (XI (XI (XI (XI (XO (XO
    (XO (XI XH)))))))))))))))))))))))))))))))); qden = (XO (XO (XO (XO (XO
    (XO (XO (XO (XI (XO (XO (XO (XO (XI (XI (XI (XI (XO (XI (XO (XI (XI (XI
    (XI (XI (XO XH)))))))))))))))))))))))))) }, (Zpos (XO (XI (XO (XO (XI
    XH))))))) :: (({ qnum = (Zpos (XO (XI (XI (XI (XO (XO (XO (XI (XO (XI (XI
    (XI (XO (XI (XO (XO (XI (XI (XO (XI (XI (XI (XI (XI (XI (XO (XO (XO (XI
    (XO (XI XH)))))))))))))))))))))))))))))))); qden = (XO (XO (XO (XO (XO
    (XO (XO (XO (XI (XO (XO (XO (XO (XI (XI (XI (XI (XO (XI (XO (XI (XI (XI
    (XI (XI (XO XH)))))))))))))))))))))))))) }, (Zpos (XI (XO (XO (XO (XI
    XH))))))) :: (({ qnum = (Zpos (XO (XO (XI (XO (XI (XO (XI (XO (XI (XO (XI
    (XO (XO (XO (XO (XO (XI (XO (XI (XO (XO (XI (XO (XI (XI (XI (XO (XI (XI
    (XO (XI XH)))))))))))))))))))))))))))))))); qden = (XO (XO (XO (XO (XO
    (XO (XO (XO (XI (XO (XO (XO (XO (XI (XI (XI (XI (XO (XI (XO (XI (XI (XI
    (XI (XI (XO XH)))))))))))))))))))))))))) }, (Zpos (XO (XO (XO (XO (XI
    XH))))))) :: (({ qnum = (Zpos (XO (XO (XI (XO (XO (XI (XO (XO (XI (XI (XO
    (XO (XI (XI (XO (XI (XO (XO (XI (XO (XI (XI (XI (XI (XO (XO (XI (XO (XO
    (XI (XI XH)))))))))))))))))))))))))))))))); qden = (XO (XO (XO (XO (XO
    (XO (XO (XO (XI (XO (XO (XO (XO (XI (XI (XI (XI (XO (XI (XO (XI (XI (XI
    (XI (XI (XO XH)))))))))))))))))))))))))) }, (Zpos (XI (XI (XI (XI (XO
    XH))))))) :: (({ qnum = (Zpos (XO (XO (XI (XI (XO (XI (XO (XI (XO (XO (XO
    (XO (XO (XO (XO (XO (XI (XO (XI (XO (XI (XI (XI (XI (XI (XO (XI (XI (XO
    (XI (XI XH)))))))))))))))))))))))))))))))); qden = (XO (XO (XO (XO (XO
    (XO (XO (XO (XI (XO (XO (XO (XO (XI (XI (XI (XI (XO (XI (XO (XI (XI (XI
    (XI (XI (XO XH)))))))))))))))))))))))))) }, (Zpos (XO (XI (XI (XI (XO
    XH))))))) :: (({ qnum = (Zpos (XO (XO (XO (XI (XI (XI (XO (XI (XO (XO (XO
    (XO (XI (XO (XI (XI (XO (XI (XI (XI (XO (XI (XO (XI (XO (XI (XI (XO (XI
    (XI (XI XH)))))))))))))))))))))))))))))))); qden = (XO (XO (XO (XO (XO
    (XO (XO (XO (XI (XO (XO (XO (XO (XI (XI (XI (XI (XO (XI (XO (XI (XI (XI
    (XI (XI (XO XH)))))))))))))))))))))))))) }, (Zpos (XI (XO (XI (XI (XO
    XH))))))) :: (({ qnum = (Zpos (XO (XO (XI (XI (XI (XO (XI (XO (XO (XO (XO
    (XO (XI (XO (XO (XI (XI (XO (XO (XI (XO (XI (XO (XO (XI (XI (XI (XI (XI
    (XI (XI XH)))))))))))))))))))))))))))))))); qden = (XO (XO (XO (XO (XO
    (XO (XO (XO (XI (XO (XO (XO (XO (XI (XI (XI (XI (XO (XI (XO (XI (XI (XI
    (XI (XI (XO XH)))))))))))))))))))))))))) }, (Zpos (XO (XO (XI (XI (XO
    XH))))))) :: (({ qnum = (Zpos (XI (XI (XI (XO (XO (XI (XI (XI (XI (XI (XI
    (XO (XO (XO (XO (XI (XI (XI (XO (XI (XO (XI (XI (XO (XI (XI (XI (XO (XO
    (XO (XO (XO XH))))))))))))))))))))))))))))))))); qden = (XO (XO (XO (XO
    (XO (XO (XO (XO (XI (XO (XO (XO (XO (XI (XI (XI (XI (XO (XI (XO (XI (XI
    (XI (XI (XI (XO XH)))))))))))))))))))))))))) }, (Zpos (XI (XI (XO (XI (XO
    XH))))))) :: (({ qnum = (Zpos (XI (XI (XO (XO (XO (XI (XO (XI (XO (XI (XI
    (XO (XI (XO (XO (XO (XO (XI (XO (XI (XI (XI (XI (XO (XI (XI (XI (XI (XO
    (XO (XO (XO XH))))))))))))))))))))))))))))))))); qden = (XO (XO (XO (XO
    (XO (XO (XO (XO (XI (XO (XO (XO (XO (XI (XI (XI (XI (XO (XI (XO (XI (XI
    (XI (XI (XI (XO XH)))))))))))))))))))))))))) }, (Zpos (XO (XI (XO (XI (XO
    XH))))))) :: (({ qnum = (Zpos (XO (XO (XI (XO (XO (XO (XI (XI (XI (XI (XI
    (XI (XI (XO (XI (XI (XI (XO (XO (XI (XI (XO (XI (XO (XI (XI (XI (XO (XI
    (XO (XO (XO XH))))))))))))))))))))))))))))))))); qden = (XO (XO (XO (XO
    (XO (XO (XO (XO (XI (XO (XO (XO (XO (XI (XI (XI (XI (XO (XI (XO (XI (XI
    (XI (XI (XI (XO XH)))))))))))))))))))))))))) }, (Zpos (XI (XO (XO (XI (XO
    XH))))))) :: (({ qnum = (Zpos (XO (XO (XO (XI (XI (XO (XI (XI (XO (XO (XI
    (XI (XO (XI (XI (XI (XO (XI (XI (XI (XO (XO (XO (XO (XI (XI (XI (XI (XI
    (XO (XO (XO XH))))))))))))))))))))))))))))))))); qden = (XO (XO (XO (XO
    (XO (XO (XO (XO (XI (XO (XO (XO (XO (XI (XI (XI (XI (XO (XI (XO (XI (XI
    (XI (XI (XI (XO XH)))))))))))))))))))))))))) }, (Zpos (XO (XO (XO (XI (XO
    XH))))))) :: (({ qnum = (Zpos (XI (XI (XI (XO (XI (XI (XI (XO (XO (XO (XO
    (XI (XO (XO (XI (XI (XO (XO (XI (XI (XI (XO (XO (XI (XO (XI (XI (XO (XO
    (XI (XO (XO XH))))))))))))))))))))))))))))))))); qden = (XO (XO (XO (XO
    (XO (XO (XO (XO (XI (XO (XO (XO (XO (XI (XI (XI (XI (XO (XI (XO (XI (XI
    (XI (XI (XI (XO XH)))))))))))))))))))))))))) }, (Zpos (XI (XI (XI (XO (XO
    XH))))))) :: (({ qnum = (Zpos (XO (XI (XI (XO (XI (XO (XI (XO (XI (XI (XO
    (XO (XI (XO (XO (XI (XO (XI (XI (XO (XO (XO (XO (XO (XO (XI (XI (XI (XO
    (XI (XO (XO XH))))))))))))))))))))))))))))))))); qden = (XO (XO (XO (XO
    (XO (XO (XO (XO (XI (XO (XO (XO (XO (XI (XI (XI (XI (XO (XI (XO (XI (XI
    (XI (XI (XI (XO XH)))))))))))))))))))))))))) }, (Zpos (XO (XI (XI (XO (XO
    XH))))))) :: (({ qnum = (Zpos (XI (XO (XI (XO (XO (XO (XO (XO (XI (XO (XI
    (XO (XI (XO (XO (XO (XI (XI (XI (XI (XO (XO (XI (XO (XI (XO (XI (XO (XI
    (XI (XO (XO XH))))))))))))))))))))))))))))))))); qden = (XO (XO (XO (XO
    (XO (XO (XO (XO (XI (XO (XO (XO (XO (XI (XI (XI (XI (XO (XI (XO (XI (XI
    (XI (XI (XI (XO XH)))))))))))))))))))))))))) }, (Zpos (XI (XO (XI (XO (XO
    XH))))))) :: (({ qnum = (Zpos (XI (XO (XO (XI (XI (XI (XI (XO (XI (XO (XO
    (XI (XO (XO (XI (XI (XO (XO (XO (XI (XI (XI (XI (XO (XO (XO (XI (XI (XI
    (XI (XO (XO XH))))))))))))))))))))))))))))))))); qden = (XO (XO (XO (XO
    (XO (XO (XO (XO (XI (XO (XO (XO (XO (XI (XI (XI (XI (XO (XI (XO (XI (XI
    (XI (XI (XI (XO XH)))))))))))))))))))))))))) }, (Zpos (XO (XO (XI (XO (XO
    XH))))))) :: (({ qnum = (Zpos (XO (XO (XO (XO (XO (XO (XO (XO (XO (XO (XI
    (XI (XO (XI (XI (XI (XI (XO (XI (XO (XO (XO (XO (XI (XI (XI (XO (XO (XO
    (XO (XI (XO XH))))))))))))))))))))))))))))))))); qden = (XO (XO (XO (XO
    (XO (XO (XO (XO (XI (XO (XO (XO (XO (XI (XI (XI (XI (XO (XI (XO (XI (XI
    (XI (XI (XI (XO XH)))))))))))))))))))))))))) }, (Zpos (XI (XI (XO (XO (XO
    XH))))))) :: (({ qnum = (Zpos (XO (XO (XI (XI (XO (XO (XI (XO (XO (XO (XO
    (XO (XO (XO (XO (XI (XO (XO (XO (XI (XI (XI (XI (XO (XO (XI (XO (XI (XO
    (XO (XI (XO XH))))))))))))))))))))))))))))))))); qden = (XO (XO (XO (XO
    (XO (XO (XO (XO (XI (XO (XO (XO (XO (XI (XI (XI (XI (XO (XI (XO (XI (XI
    (XI (XI (XI (XO XH)))))))))))))))))))))))))) }, (Zpos (XO (XI (XO (XO (XO
    XH))))))) :: (({ qnum = (Zpos (XO (XO (XI (XO (XO (XI (XI (XI (XI (XO (XO
    (XI (XI (XO (XI (XO (XO (XI (XO (XO (XI (XO (XI (XO (XI (XO (XO (XO (XI
    (XO (XI (XO XH))))))))))))))))))))))))))))))))); qden = (XO (XO (XO (XO
    (XO (XO (XO (XO (XI (XO (XO (XO (XO (XI (XI (XI (XI (XO (XI (XO (XI (XI
    (XI (XI (XI (XO XH)))))))))))))))))))))))))) }, (Zpos (XI (XO (XO (XO (XO
    XH))))))) :: (({ qnum = (Zpos (XO (XI (XO (XI (XI (XO (XI (XO (XO (XI (XO
    (XO (XO (XI (XO (XO (XI (XO (XI (XO (XI (XO (XO (XO (XO (XO (XO (XI (XI
    (XO (XI (XO XH))))))))))))))))))))))))))))))))); qden = (XO (XO (XO (XO
    (XO (XO (XO (XO (XI (XO (XO (XO (XO (XI (XI (XI (XI (XO (XI (XO (XI (XI
    (XI (XI (XI (XO XH)))))))))))))))))))))))))) }, (Zpos (XO (XO (XO (XO (XO
    XH))))))) :: (({ qnum = (Zpos (XO (XO (XO (XO (XO (XO (XO (XI (XO (XI (XI
    (XI (XI (XO (XI (XO (XO (XI (XO (XO (XO (XO (XI (XI (XO (XI (XI (XI (XI
    (XO (XI (XO XH))))))))))))))))))))))))))))))))); qden = (XO (XO (XO (XO
    (XO (XO (XO (XO (XI (XO (XO (XO (XO (XI (XI (XI (XI (XO (XI (XO (XI (XI
    (XI (XI (XI (XO XH)))))))))))))))))))))))))) }, (Zpos (XI (XI (XI (XI
    XH)))))) :: (({ qnum = (Zpos (XI (XO (XI (XI (XO (XO (XI (XI (XO (XI (XO
    (XO (XI (XI (XI (XO (XI (XI (XO (XI (XI (XO (XI (XO (XI (XO (XI (XO (XO
    (XI (XI (XO XH))))))))))))))))))))))))))))))))); qden = (XO (XO (XO (XO
    (XO (XO (XO (XO (XI (XO (XO (XO (XO (XI (XI (XI (XI (XO (XI (XO (XI (XI
    (XI (XI (XI (XO XH)))))))))))))))))))))))))) }, (Zpos (XO (XI (XI (XI
    XH)))))) :: (({ qnum = (Zpos (XO (XI (XI (XI (XO (XO (XO (XO (XI (XI (XI
    (XO (XO (XI (XO (XI (XI (XO (XO (XO (XO (XI (XI (XI (XI (XI (XO (XI (XO
    (XI (XI (XO XH))))))))))))))))))))))))))))))))); qden = (XO (XO (XO (XO
    (XO (XO (XO (XO (XI (XO (XO (XO (XO (XI (XI (XI (XI (XO (XI (XO (XI (XI
    (XI (XI (XI (XO XH)))))))))))))))))))))))))) }, (Zpos (XI (XO (XI (XI
    XH)))))) :: (({ qnum = (Zpos (XI (XI (XO (XO (XI (XO (XO (XI (XI (XO (XO
    (XI (XO (XI (XO (XO (XO (XI (XI (XO (XI (XO (XI (XO (XO (XI (XO (XO (XI
    (XI (XI (XO XH))))))))))))))))))))))))))))))))); qden = (XO (XO (XO (XO
    (XO (XO (XO (XO (XI (XO (XO (XO (XO (XI (XI (XI (XI (XO (XI (XO (XI (XI
    (XI (XI (XI (XO XH)))))))))))))))))))))))))) }, (Zpos (XO (XO (XI (XI
    XH)))))) :: (({ qnum = (Zpos (XI (XI (XI (XO (XI (XO (XI (XI (XI (XO (XO
    (XO (XI (XO (XO (XO (XO (XI (XO (XI (XI (XI (XO (XI (XO (XO (XO (XI (XI
    (XI (XI (XO XH))))))))))))))))))))))))))))))))); qden = (XO (XO (XO (XO
    (XO (XO (XO (XO (XI (XO (XO (XO (XO (XI (XI (XI (XI (XO (XI (XO (XI (XI
    (XI (XI (XI (XO XH)))))))))))))))))))))))))) }, (Zpos (XI (XI (XO (XI
    XH)))))) :: (({ qnum = (Zpos (XI (XI (XO (XI (XO (XO (XI (XI (XO (XI (XO
    (XO (XO (XI (XI (XO (XO (XI (XI (XI (XO (XO (XO (XO (XI (XI (XI (XI (XI
    (XI (XI (XO XH))))))))))))))))))))))))))))))))); qden = (XO (XO (XO (XO
    (XO (XO (XO (XO (XI (XO (XO (XO (XO (XI (XI (XI (XI (XO (XI (XO (XI (XI
    (XI (XI (XI (XO XH)))))))))))))))))))))))))) }, (Zpos (XO (XI (XO (XI
    XH)))))) :: (({ qnum = (Zpos (XO (XI (XI (XI (XI (XI (XO (XI (XO (XO (XI
    (XI (XO (XO (XO (XO (XO (XO (XI (XO (XI (XO (XI (XO (XI (XO (XI (XO (XO
    (XO (XO (XI XH))))))))))))))))))))))))))))))))); qden = (XO (XO (XO (XO
    (XO (XO (XO (XO (XI (XO (XO (XO (XO (XI (XI (XI (XI (XO (XI (XO (XI (XI
    (XI (XI (XI (XO XH)))))))))))))))))))))))))) }, (Zpos (XI (XO (XO (XI
    XH)))))) :: (({ qnum = (Zpos (XO (XO (XO (XO (XO (XO (XO (XO (XI (XI (XI
    (XI (XO (XI (XI (XI (XI (XI (XO (XI (XO (XO (XO (XI (XI (XI (XO (XI (XO
    (XO (XO (XI XH))))))))))))))))))))))))))))))))); qden = (XO (XO (XO (XO
    (XO (XO (XO (XO (XI (XO (XO (XO (XO (XI (XI (XI (XI (XO (XI (XO (XI (XI
    (XI (XI (XI (XO XH)))))))))))))))))))))))))) }, (Zpos (XO (XO (XO (XI
    XH)))))) :: (({ qnum = (Zpos (XO (XI (XI (XO (XI (XI (XO (XO (XI (XO (XO
    (XI (XI (XO (XI (XI (XO (XI (XI (XO (XI (XI (XO (XI (XI (XO (XO (XO (XI
    (XO (XO (XI XH))))))))))))))))))))))))))))))))); qden = (XO (XO (XO (XO
    (XO (XO (XO (XO (XI (XO (XO (XO (XO (XI (XI (XI (XI (XO (XI (XO (XI (XI
    (XI (XI (XI (XO XH)))))))))))))))))))))))))) }, (Zpos (XI (XI (XI (XO
    XH)))))) :: (({ qnum = (Zpos (XO (XI (XI (XO (XO (XI (XI (XO (XO (XO (XI
    (XI (XO (XO (XO (XI (XI (XO (XI (XO (XI (XO (XI (XI (XI (XI (XI (XO (XI
    (XO (XO (XI XH))))))))))))))))))))))))))))))))); qden = (XO (XO (XO (XO
    (XO (XO (XO (XO (XI (XO (XO (XO (XO (XI (XI (XI (XI (XO (XI (XO (XI (XI
    (XI (XI (XI (XO XH)))))))))))))))))))))))))) }, (Zpos (XO (XI (XI (XO
    XH)))))) :: (({ qnum = (Zpos (XI (XI (XI (XO (XO (XO (XI (XI (XI (XI (XO
    (XI (XI (XI (XO (XI (XO (XO (XO (XI (XO (XI (XI (XI (XI (XO (XI (XI (XI
    (XO (XO (XI XH))))))))))))))))))))))))))))))))); qden = (XO (XO (XO (XO
    (XO (XO (XO (XO (XI (XO (XO (XO (XO (XI (XI (XI (XI (XO (XI (XO (XI (XI
    (XI (XI (XI (XO XH)))))))))))))))))))))))))) }, (Zpos (XI (XO (XI (XO
    XH)))))) :: (({ qnum = (Zpos (XI (XI (XO (XO (XO (XO (XI (XO (XI (XO (XI
    (XI (XO (XO (XO (XO (XI (XO (XO (XO (XI (XI (XI (XI (XI (XI (XO (XO (XO
    (XI (XO (XI XH))))))))))))))))))))))))))))))))); qden = (XO (XO (XO (XO
    (XO (XO (XO (XO (XI (XO (XO (XO (XO (XI (XI (XI (XI (XO (XI (XO (XI (XI
    (XI (XI (XI (XO XH)))))))))))))))))))))))))) }, (Zpos (XO (XO (XI (XO
    XH)))))) :: (({ qnum = (Zpos (XI (XO (XO (XI (XO (XI (XO (XI (XI (XO (XO
    (XI (XI (XO (XO (XO (XI (XI (XI (XI (XO (XI (XI (XI (XI (XO (XO (XI (XO
    (XI (XO (XI XH))))))))))))))))))))))))))))))))); qden = (XO (XO (XO (XO
    (XO (XO (XO (XO (XI (XO (XO (XO (XO (XI (XI (XI (XI (XO (XI (XO (XI (XI
    (XI (XI (XI (XO XH)))))))))))))))))))))))))) }, (Zpos (XI (XI (XO (XO
    XH)))))) :: (({ qnum = (Zpos (XI (XO (XO (XO (XO (XO (XO (XI (XO (XO (XI
    (XI (XO (XI (XI (XO (XI (XI (XO (XO (XO (XI (XI (XI (XI (XI (XI (XI (XO
    (XI (XO (XI XH))))))))))))))))))))))))))))))))); qden = (XO (XO (XO (XO
    (XO (XO (XO (XO (XI (XO (XO (XO (XO (XI (XI (XI (XI (XO (XI (XO (XI (XI
    (XI (XI (XI (XO XH)))))))))))))))))))))))))) }, (Zpos (XO (XI (XO (XO
    XH)))))) :: (({ qnum = (Zpos (XO (XI (XO (XO (XO (XI (XI (XO (XI (XI (XO
    (XO (XO (XO (XO (XI (XO (XI (XI (XI (XO (XO (XI (XI (XI (XO (XI (XO (XI
    (XI (XO (XI XH))))))))))))))))))))))))))))))))); qden = (XO (XO (XO (XO
    (XO (XO (XO (XO (XI (XO (XO (XO (XO (XI (XI (XI (XI (XO (XI (XO (XI (XI
    (XI (XI (XI (XO XH)))))))))))))))))))))))))) }, (Zpos (XI (XO (XO (XO
    XH)))))) :: (({ qnum = (Zpos (XO (XO (XO (XI (XO (XI (XO (XI (XO (XO (XI
    (XI (XO (XO (XI (XI (XO (XO (XO (XO (XI (XI (XO (XI (XI (XI (XO (XI (XI
    (XI (XO (XI XH))))))))))))))))))))))))))))))))); qden = (XO (XO (XO (XO
    (XO (XO (XO (XO (XI (XO (XO (XO (XO (XI (XI (XI (XI (XO (XI (XO (XI (XI
    (XI (XI (XI (XO XH)))))))))))))))))))))))))) }, (Zpos (XO (XO (XO (XO
    XH)))))) :: (({ qnum = (Zpos (XI (XO (XO (XO (XO (XO (XI (XO (XI (XO (XI
    (XO (XO (XI (XO (XI (XO (XI (XO (XI (XO (XO (XO (XI (XI (XO (XO (XO (XO
    (XO (XI (XI XH))))))))))))))))))))))))))))))))); qden = (XO (XO (XO (XO
    (XO (XO (XO (XO (XI (XO (XO (XO (XO (XI (XI (XI (XI (XO (XI (XO (XI (XI
    (XI (XI (XI (XO XH)))))))))))))))))))))))))) }, (Zpos (XI (XI (XI
    XH))))) :: (({ qnum = (Zpos (XI (XI (XI (XO (XO (XI (XO (XO (XI (XO (XI
    (XO (XI (XO (XI (XO (XO (XO (XI (XI (XI (XO (XI (XO (XI (XI (XI (XO (XO
    (XO (XI (XI XH))))))))))))))))))))))))))))))))); qden = (XO (XO (XO (XO
    (XO (XO (XO (XO (XI (XO (XO (XO (XO (XI (XI (XI (XI (XO (XI (XO (XI (XI
    (XI (XI (XI (XO XH)))))))))))))))))))))))))) }, (Zpos (XO (XI (XI
    XH))))) :: (({ qnum = (Zpos (XI (XO (XI (XO (XI (XO (XI (XI (XI (XO (XO
    (XI (XO (XO (XO (XO (XO (XI (XI (XO (XO (XI (XO (XO (XI (XO (XI (XI (XO
    (XO (XI (XI XH))))))))))))))))))))))))))))))))); qden = (XO (XO (XO (XO
    (XO (XO (XO (XO (XI (XO (XO (XO (XO (XI (XI (XI (XI (XO (XI (XO (XI (XI
    (XI (XI (XI (XO XH)))))))))))))))))))))))))) }, (Zpos (XI (XO (XI
    XH))))) :: (({ qnum = (Zpos (XI (XI (XO (XO (XO (XO (XO (XI (XI (XO (XI
    (XI (XO (XO (XI (XI (XI (XI (XI (XO (XO (XI (XI (XI (XO (XI (XO (XO (XI
    (XO (XI (XI XH))))))))))))))))))))))))))))))))); qden = (XO (XO (XO (XO
    (XO (XO (XO (XO (XI (XO (XO (XO (XO (XI (XI (XI (XI (XO (XI (XO (XI (XI
    (XI (XI (XI (XO XH)))))))))))))))))))))))))) }, (Zpos (XO (XO (XI
    XH))))) :: (({ qnum = (Zpos (XI (XO (XO (XO (XO (XO (XO (XO (XI (XO (XO
    (XI (XI (XI (XI (XO (XI (XO (XO (XO (XO (XI (XO (XI (XO (XO (XO (XI (XI
    (XO (XI (XI XH))))))))))))))))))))))))))))))))); qden = (XO (XO (XO (XO
    (XO (XO (XO (XO (XI (XO (XO (XO (XO (XI (XI (XI (XI (XO (XI (XO (XI (XI
    (XI (XI (XI (XO XH)))))))))))))))))))))))))) }, (Zpos (XI (XI (XO
    XH))))) :: (({ qnum = (Zpos (XI (XO (XI (XI (XO (XO (XI (XO (XO (XO (XI
    (XI (XI (XO (XO (XI (XO (XI (XO (XO (XI (XO (XI (XO (XO (XI (XI (XI (XI
    (XO (XI (XI XH))))))))))))))))))))))))))))))))); qden = (XO (XO (XO (XO
    (XO (XO (XO (XO (XI (XO (XO (XO (XO (XI (XI (XI (XI (XO (XI (XO (XI (XI
    (XI (XI (XI (XO XH)))))))))))))))))))))))))) }, (Zpos (XO (XI (XO
    XH))))) :: (({ qnum = (Zpos (XI (XO (XI (XO (XO (XO (XO (XO (XO (XI (XI
    (XO (XI (XO (XI (XO (XO (XI (XO (XI (XI (XI (XI (XI (XI (XI (XO (XO (XO
    (XI (XI (XI XH))))))))))))))))))))))))))))))))); qden = (XO (XO (XO (XO
    (XO (XO (XO (XO (XI (XO (XO (XO (XO (XI (XI (XI (XI (XO (XI (XO (XI (XI
    (XI (XI (XI (XO XH)))))))))))))))))))))))))) }, (Zpos (XI (XO (XO
    XH))))) :: (({ qnum = (Zpos (XI (XO (XI (XO (XI (XI (XI (XO (XI (XO (XO
    (XI (XO (XO (XO (XO (XI (XI (XI (XO (XI (XO (XO (XI (XI (XO (XO (XI (XO
    (XI (XI (XI XH))))))))))))))))))))))))))))))))); qden = (XO (XO (XO (XO
    (XO (XO (XO (XO (XI (XO (XO (XO (XO (XI (XI (XI (XI (XO (XI (XO (XI (XI
    (XI (XI (XI (XO XH)))))))))))))))))))))))))) }, (Zpos (XO (XO (XO
    XH))))) :: (({ qnum = (Zpos (XI (XO (XI (XO (XI (XO (XI (XI (XI (XO (XI
    (XI (XO (XO (XI (XI (XI (XO (XI (XO (XO (XI (XO (XO (XI (XI (XI (XI (XO
    (XI (XI (XI XH))))))))))))))))))))))))))))))))); qden = (XO (XO (XO (XO
    (XO (XO (XO (XO (XI (XO (XO (XO (XO (XI (XI (XI (XI (XO (XI (XO (XI (XI
    (XI (XI (XI (XO XH)))))))))))))))))))))))))) }, (Zpos (XI (XI
    XH)))) :: (({ qnum = (Zpos (XI (XI (XO (XI (XI (XI (XO (XI (XI (XI (XI
    (XO (XI (XI (XO (XO (XI (XO (XO (XO (XO (XI (XO (XI (XO (XO (XI (XO (XI
    (XI (XI (XI XH))))))))))))))))))))))))))))))))); qden = (XO (XO (XO (XO
    (XO (XO (XO (XO (XI (XO (XO (XO (XO (XI (XI (XI (XI (XO (XI (XO (XI (XI
    (XI (XI (XI (XO XH)))))))))))))))))))))))))) }, (Zpos (XO (XI
    XH)))) :: (({ qnum = (Zpos (XI (XI (XI (XI (XO (XI (XI (XO (XI (XO (XI
    (XO (XO (XI (XI (XO (XO (XI (XI (XI (XI (XI (XI (XI (XI (XO (XO (XI (XI
    (XI (XI (XI XH))))))))))))))))))))))))))))))))); qden = (XO (XO (XO (XO
    (XO (XO (XO (XO (XI (XO (XO (XO (XO (XI (XI (XI (XI (XO (XI (XO (XI (XI
    (XI (XI (XI (XO XH)))))))))))))))))))))))))) }, (Zpos (XI (XO
    XH)))) :: (({ qnum = (Zpos (XI (XO (XI (XO (XI (XI (XI (XO (XI (XO (XO
    (XO (XO (XI (XI (XO (XO (XO (XI (XO (XO (XI (XO (XO (XI (XI (XI (XI (XI
    (XI (XI (XI XH))))))))))))))))))))))))))))))))); qden = (XO (XO (XO (XO
    (XO (XO (XO (XO (XI (XO (XO (XO (XO (XI (XI (XI (XI (XO (XI (XO (XI (XI
    (XI (XI (XI (XO XH)))))))))))))))))))))))))) }, (Zpos (XO (XO
    XH)))) :: (({ qnum = (Zpos (XO (XI (XI (XO (XO (XI (XI (XI (XO (XI (XI
    (XI (XI (XI (XI (XO (XO (XI (XO (XI (XO (XO (XI (XI (XI (XI (XO (XO (XO
    (XO (XO (XO (XO XH)))))))))))))))))))))))))))))))))); qden = (XO (XO (XO
    (XO (XO (XO (XO (XO (XI (XO (XO (XO (XO (XI (XI (XI (XI (XO (XI (XO (XI
    (XI (XI (XI (XI (XO XH)))))))))))))))))))))))))) }, (Zpos (XI
    XH))) :: (({ qnum = (Zpos (XO (XO (XO (XO (XO (XO (XO (XO (XI (XI (XI (XO
    (XI (XI (XI (XO (XI (XI (XI (XI (XO (XO (XO (XI (XO (XI (XI (XO (XO (XO
    (XO (XO (XO XH)))))))))))))))))))))))))))))))))); qden = (XO (XO (XO (XO
    (XO (XO (XO (XO (XI (XO (XO (XO (XO (XI (XI (XI (XI (XO (XI (XO (XI (XI
    (XI (XI (XI (XO XH)))))))))))))))))))))))))) }, (Zpos (XO
    XH))) :: [])))))))))))))))))))))))))))))))))))))))))))))))))))))))))

(** val nl_default : z **)

let nl_default =
  Zpos XH

(** val country_arms : ((n * n) * string) list **)

let country_arms =
  (((Npos (XO (XO (XI (XO XH))))), (Npos XH)), (String ((Ascii (false, true,
    false, false, true, false, true, false)), (String ((Ascii (true, false,
    true, false, true, false, true, false)), EmptyString))))) :: ((((Npos (XO
    (XO (XI (XO XH))))), (Npos (XO (XI (XO XH))))), (String ((Ascii (true,
    false, true, false, true, false, true, false)), (String ((Ascii (true,
    true, false, false, true, false, true, false)),
    EmptyString))))) :: ((((Npos (XO (XI (XO (XO XH))))), (Npos (XO (XO (XO
    (XI (XI XH))))))), (String ((Ascii (true, false, false, false, false,
    false, true, false)), (String ((Ascii (false, true, false, false, true,
    false, true, false)), EmptyString))))) :: ((((Npos (XO (XI (XO (XO
    XH))))), (Npos (XI (XI (XI (XI XH)))))), (String ((Ascii (true, false,
    false, false, false, false, true, false)), (String ((Ascii (true, false,
    true, false, true, false, true, false)), EmptyString))))) :: ((((Npos (XO
    (XI (XO (XO XH))))), (Npos (XI (XO (XO (XI (XI XH))))))), (String ((Ascii
    (false, true, false, false, false, false, true, false)), (String ((Ascii
    (false, true, false, false, true, false, true, false)),
    EmptyString))))) :: ((((Npos (XO (XI (XO (XO XH))))), (Npos (XO (XO (XO
    (XO (XI XH))))))), (String ((Ascii (true, true, false, false, false,
    false, true, false)), (String ((Ascii (true, false, false, false, false,
    false, true, false)), EmptyString))))) :: ((((Npos (XO (XI (XO (XO
    XH))))), (Npos (XO (XI (XI (XI XH)))))), (String ((Ascii (true, true,
    false, false, false, false, true, false)), (String ((Ascii (false, true,
    true, true, false, false, true, false)), EmptyString))))) :: ((((Npos (XO
    (XI (XO (XO XH))))), (Npos (XO (XI (XI XH))))), (String ((Ascii (false,
    true, true, false, false, false, true, false)), (String ((Ascii (false,
    true, false, false, true, false, true, false)),
    EmptyString))))) :: ((((Npos (XO (XI (XO (XO XH))))), (Npos (XI (XI (XI
    XH))))), (String ((Ascii (false, false, true, false, false, false, true,
    false)), (String ((Ascii (true, false, true, false, false, false, true,
    false)), EmptyString))))) :: ((((Npos (XO (XI (XO (XO XH))))), (Npos (XO
    (XO (XO (XO (XO XH))))))), (String ((Ascii (true, false, false, true,
    false, false, true, false)), (String ((Ascii (false, true, true, true,
    false, false, true, false)), EmptyString))))) :: ((((Npos (XO (XI (XO (XO
    XH))))), (Npos (XO (XO (XI XH))))), (String ((Ascii (true, false, false,
    true, false, false, true, false)), (String ((Ascii (false, false, true,
    false, true, false, true, false)), EmptyString))))) :: ((((Npos (XO (XI
    (XO (XO XH))))), (Npos (XI (XO (XO (XO (XO XH))))))), (String ((Ascii
    (false, true, false, true, false, false, true, false)), (String ((Ascii
    (false, false, false, false, true, false, true, false)),
    EmptyString))))) :: ((((Npos (XO (XI (XO (XO XH))))), (Npos (XI (XO (XI
    XH))))), (String ((Ascii (true, false, true, false, false, false, true,
    false)), (String ((Ascii (true, true, false, false, true, false, true,
    false)), EmptyString))))) :: ((((Npos (XO (XI (XO (XO XH))))), (Npos (XO
    (XO (XO (XO XH)))))), (String ((Ascii (true, true, true, false, false,
    false, true, false)), (String ((Ascii (false, true, false, false, false,
    false, true, false)), EmptyString))))) :: ((((Npos (XI (XI (XI XH)))),
    (Npos (XO (XO (XI (XO XH)))))), (String ((Ascii (false, false, true,
    false, false, false, true, false)), (String ((Ascii (false, true, false,
    true, true, false, true, false)), EmptyString))))) :: ((((Npos (XI (XI
    (XI XH)))), (Npos (XO (XO (XO (XI (XO (XO (XO XH))))))))), (String
    ((Ascii (true, false, false, false, false, false, true, false)), (String
    ((Ascii (false, false, true, false, true, false, true, false)),
    EmptyString))))) :: ((((Npos (XI (XI (XI XH)))), (Npos (XI (XO (XO (XI
    (XO (XO (XO XH))))))))), (String ((Ascii (false, true, false, false,
    false, false, true, false)), (String ((Ascii (true, false, true, false,
    false, false, true, false)), EmptyString))))) :: ((((Npos (XI (XI (XI
    XH)))), (Npos (XO (XI (XO (XI (XO (XO (XO XH))))))))), (String ((Ascii
    (false, true, false, false, false, false, true, false)), (String ((Ascii
    (true, true, true, false, false, false, true, false)),
    EmptyString))))) :: ((((Npos (XI (XI (XI XH)))), (Npos (XI (XI (XO (XO
    (XI (XO (XO XH))))))))), (String ((Ascii (true, true, false, false,
    false, false, true, false)), (String ((Ascii (false, true, false, true,
    true, false, true, false)), EmptyString))))) :: ((((Npos (XI (XI (XI
    XH)))), (Npos (XO (XO (XI (XO (XO (XI (XI XH))))))))), (String ((Ascii
    (true, true, false, true, false, false, true, false)), (String ((Ascii
    (false, false, false, false, true, false, true, false)),
    EmptyString))))) :: ((((Npos (XI (XI (XI XH)))), (Npos (XI (XI (XO (XI
    (XO (XO (XO XH))))))))), (String ((Ascii (false, false, true, false,
    false, false, true, false)), (String ((Ascii (true, true, false, true,
    false, false, true, false)), EmptyString))))) :: ((((Npos (XI (XI (XI
    XH)))), (Npos (XO XH))), (String ((Ascii (true, false, true, false,
    false, false, true, false)), (String ((Ascii (true, true, true, false,
    false, false, true, false)), EmptyString))))) :: ((((Npos (XI (XI (XI
    XH)))), (Npos (XO (XO (XI (XI (XO (XO (XO XH))))))))), (String ((Ascii
    (false, true, true, false, false, false, true, false)), (String ((Ascii
    (true, false, false, true, false, false, true, false)),
    EmptyString))))) :: ((((Npos (XI (XI (XI XH)))), (Npos (XI (XO (XI (XI
    (XO (XO (XO XH))))))))), (String ((Ascii (true, true, true, false, false,
    false, true, false)), (String ((Ascii (false, true, false, false, true,
    false, true, false)), EmptyString))))) :: ((((Npos (XI (XI (XI XH)))),
    (Npos (XO (XI (XI (XI (XO (XO (XO XH))))))))), (String ((Ascii (false,
    false, false, true, false, false, true, false)), (String ((Ascii (true,
    false, true, false, true, false, true, false)),
    EmptyString))))) :: ((((Npos (XI (XI (XI XH)))), (Npos (XO (XO (XI (XO
    (XI (XO (XO (XO XH)))))))))), (String ((Ascii (true, false, false, true,
    false, false, true, false)), (String ((Ascii (false, false, true, false,
    false, false, true, false)), EmptyString))))) :: ((((Npos (XI (XI (XI
    XH)))), (Npos (XO (XI (XI (XO (XO (XI (XI XH))))))))), (String ((Ascii
    (true, false, false, true, false, false, true, false)), (String ((Ascii
    (false, true, false, false, true, false, true, false)),
    EmptyString))))) :: ((((Npos (XI (XI (XI XH)))), (Npos (XI (XO (XI (XO
    (XO (XI (XI XH))))))))), (String ((Ascii (true, false, false, true,
    false, false, true, false)), (String ((Ascii (true, false, false, false,
    true, false, true, false)), EmptyString))))) :: ((((Npos (XI (XI (XI
    XH)))), (Npos (XI (XI (XI (XO (XO (XI (XI XH))))))))), (String ((Ascii
    (true, false, false, true, false, false, true, false)), (String ((Ascii
    (false, false, true, true, false, false, true, false)),
    EmptyString))))) :: ((((Npos (XI (XI (XI XH)))), (Npos (XO (XO (XO (XI
    (XO (XI (XI XH))))))))), (String ((Ascii (false, true, false, true,
    false, false, true, false)), (String ((Ascii (true, true, true, true,
    false, false, true, false)), EmptyString))))) :: ((((Npos (XI (XI (XI
    XH)))), (Npos (XI (XO (XO (XI (XO (XI (XI XH))))))))), (String ((Ascii
    (false, false, true, true, false, false, true, false)), (String ((Ascii
    (false, true, false, false, false, false, true, false)),
    EmptyString))))) :: ((((Npos (XI (XI (XI XH)))), (Npos (XI XH))), (String
    ((Ascii (false, false, true, true, false, false, true, false)), (String
    ((Ascii (true, false, false, true, true, false, true, false)),
    EmptyString))))) :: ((((Npos (XI (XI (XI XH)))), (Npos (XO (XI (XO (XI
    (XO (XI (XI XH))))))))), (String ((Ascii (true, false, true, true, false,
    false, true, false)), (String ((Ascii (true, false, false, true, true,
    false, true, false)), EmptyString))))) :: ((((Npos (XI (XI (XI XH)))),
    (Npos (XO (XI (XO (XI XH)))))), (String ((Ascii (true, false, true, true,
    false, false, true, false)), (String ((Ascii (false, false, false, true,
    true, false, true, false)), EmptyString))))) :: ((((Npos (XI (XI (XI
    XH)))), (Npos (XO (XO XH)))), (String ((Ascii (true, false, true, true,
    false, false, true, false)), (String ((Ascii (true, false, false, false,
    false, false, true, false)), EmptyString))))) :: ((((Npos (XI (XI (XI
    XH)))), (Npos (XO (XO (XO (XO (XI (XO (XO XH))))))))), (String ((Ascii
    (false, true, true, true, false, false, true, false)), (String ((Ascii
    (false, false, true, true, false, false, true, false)),
    EmptyString))))) :: ((((Npos (XI (XI (XI XH)))), (Npos (XO (XO (XO (XO
    (XI (XO (XO (XI XH)))))))))), (String ((Ascii (false, true, true, true,
    false, false, true, false)), (String ((Ascii (false, true, false, true,
    true, false, true, false)), EmptyString))))) :: ((((Npos (XI (XI (XI
    XH)))), (Npos (XI (XI (XI (XI (XO (XO (XO XH))))))))), (String ((Ascii
    (false, true, true, true, false, false, true, false)), (String ((Ascii
    (true, true, true, true, false, false, true, false)),
    EmptyString))))) :: ((((Npos (XI (XI (XI XH)))), (Npos (XO (XO (XI (XI
    (XO (XI (XI XH))))))))), (String ((Ascii (false, false, false, false,
    true, false, true, false)), (String ((Ascii (true, true, false, true,
    false, false, true, false)), EmptyString))))) :: ((((Npos (XI (XI (XI
    XH)))), (Npos (XI (XI (XO (XI (XO (XI (XI XH))))))))), (String ((Ascii
    (false, false, false, false, true, false, true, false)), (String ((Ascii
    (false, false, false, true, false, false, true, false)),
    EmptyString))))) :: ((((Npos (XI (XI (XI XH)))), (Npos (XI (XO (XO (XO
    (XI (XO (XO XH))))))))), (String ((Ascii (false, false, false, false,
    true, false, true, false)), (String ((Ascii (false, false, true, true,
    false, false, true, false)), EmptyString))))) :: ((((Npos (XI (XI (XI
    XH)))), (Npos (XO (XI (XO (XO (XI (XO (XO XH))))))))), (String ((Ascii
    (false, false, false, false, true, false, true, false)), (String ((Ascii
    (false, false, true, false, true, false, true, false)),
    EmptyString))))) :: ((((Npos (XI (XI (XI XH)))), (Npos (XI (XI (XO (XO
    (XO (XI (XI XH))))))))), (String ((Ascii (true, true, false, true, false,
    false, true, false)), (String ((Ascii (false, true, false, false, true,
    false, true, false)), EmptyString))))) :: ((((Npos (XI (XI (XI XH)))),
    (Npos (XO (XO (XI (XO (XI (XO (XO XH))))))))), (String ((Ascii (false,
    true, false, false, true, false, true, false)), (String ((Ascii (true,
    true, true, true, false, false, true, false)),
    EmptyString))))) :: ((((Npos (XI (XI (XI XH)))), (Npos (XO (XI (XO (XO
    (XO (XI (XI XH))))))))), (String ((Ascii (true, true, false, false, true,
    false, true, false)), (String ((Ascii (true, false, false, false, false,
    false, true, false)), EmptyString))))) :: ((((Npos (XI (XI (XI XH)))),
    (Npos (XI (XO (XI (XI (XO (XI (XI XH))))))))), (String ((Ascii (true,
    true, false, false, true, false, true, false)), (String ((Ascii (true,
    true, true, false, false, false, true, false)),
    EmptyString))))) :: ((((Npos (XI (XI (XI XH)))), (Npos XH)), (String
    ((Ascii (false, true, false, true, true, false, true, false)), (String
    ((Ascii (true, false, false, false, false, false, true, false)),
    EmptyString))))) :: ((((Npos (XI (XI (XI XH)))), (Npos (XO (XI (XI (XI
    (XO (XI (XI XH))))))))), (String ((Ascii (false, false, true, true,
    false, false, true, false)), (String ((Ascii (true, true, false, true,
    false, false, true, false)), EmptyString))))) :: ((((Npos (XI (XI (XI
    XH)))), (Npos (XI (XO (XI (XO (XI (XO (XO XH))))))))), (String ((Ascii
    (true, true, false, false, true, false, true, false)), (String ((Ascii
    (true, false, true, false, false, false, true, false)),
    EmptyString))))) :: ((((Npos (XI (XI (XI XH)))), (Npos (XO (XI (XI (XO
    (XI (XO (XO XH))))))))), (String ((Ascii (true, true, false, false,
    false, false, true, false)), (String ((Ascii (false, false, false, true,
    false, false, true, false)), EmptyString))))) :: ((((Npos (XI (XI (XI
    XH)))), (Npos (XI (XI (XI (XI (XO (XI (XI XH))))))))), (String ((Ascii
    (true, true, false, false, true, false, true, false)), (String ((Ascii
    (true, false, false, true, true, false, true, false)),
    EmptyString))))) :: ((((Npos (XI (XI (XI XH)))), (Npos (XO (XO (XO (XO
    (XI (XO (XO (XO XH)))))))))), (String ((Ascii (false, false, true, false,
    true, false, true, false)), (String ((Ascii (false, false, false, true,
    false, false, true, false)), EmptyString))))) :: ((((Npos (XI (XI (XI
    XH)))), (Npos (XI (XO XH)))), (String ((Ascii (false, false, true, false,
    true, false, true, false)), (String ((Ascii (false, true, true, true,
    false, false, true, false)), EmptyString))))) :: ((((Npos (XI (XI (XI
    XH)))), (Npos (XI (XI (XI (XO (XI (XO (XO XH))))))))), (String ((Ascii
    (false, false, true, false, true, false, true, false)), (String ((Ascii
    (false, true, false, false, true, false, true, false)),
    EmptyString))))) :: ((((Npos (XI (XI (XI XH)))), (Npos (XI (XO (XO (XO
    (XO (XI (XO XH))))))))), (String ((Ascii (true, false, true, false, true,
    false, true, false)), (String ((Ascii (true, false, false, false, false,
    false, true, false)), EmptyString))))) :: ((((Npos (XI (XI (XI XH)))),
    (Npos (XI (XI (XO (XI XH)))))), (String ((Ascii (false, true, true,
    false, true, false, true, false)), (String ((Ascii (true, false, true,
    false, false, false, true, false)), EmptyString))))) :: ((((Npos (XI (XI
    (XI XH)))), (Npos (XI (XO (XO (XO (XI (XO (XO (XO XH)))))))))), (String
    ((Ascii (false, true, true, false, true, false, true, false)), (String
    ((Ascii (false, true, true, true, false, false, true, false)),
    EmptyString))))) :: ((((Npos (XI (XI (XI XH)))), (Npos (XO (XO (XO (XI
    (XI (XO (XO XH))))))))), (String ((Ascii (true, false, false, true, true,
    false, true, false)), (String ((Ascii (true, false, true, false, true,
    false, true, false)), EmptyString))))) :: ((((Npos (XI (XI (XI XH)))),
    (Npos (XO (XO (XO (XO (XO (XI (XI (XI XH)))))))))), (String ((Ascii
    (true, false, false, true, false, false, true, false)), (String ((Ascii
    (true, true, false, false, false, false, true, false)), (String ((Ascii
    (true, false, false, false, false, false, true, false)), (String ((Ascii
    (true, true, true, true, false, false, true, false)), (String ((Ascii
    (true, false, false, false, true, true, false, false)),
    EmptyString))))))))))) :: ((((Npos (XO (XO (XI XH)))), (Npos (XO (XO (XO
    (XO (XO (XO (XO (XO (XI (XI XH)))))))))))), (String ((Ascii (true, false,
    false, false, false, false, true, false)), (String ((Ascii (false, true,
    true, false, false, false, true, false)), EmptyString))))) :: ((((Npos
    (XO (XO (XI XH)))), (Npos (XO (XO (XO (XO (XI (XO (XO XH))))))))),
    (String ((Ascii (true, false, false, false, false, false, true, false)),
    (String ((Ascii (true, true, true, true, false, false, true, false)),
    EmptyString))))) :: ((((Npos (XO (XO (XI XH)))), (Npos (XO (XO (XO (XI
    (XO (XI (XO XH))))))))), (String ((Ascii (false, true, false, false,
    false, false, true, false)), (String ((Ascii (true, true, false, false,
    true, false, true, false)), EmptyString))))) :: ((((Npos (XO (XO (XI
    XH)))), (Npos (XO (XO (XI (XO (XI (XO (XO (XI (XO (XO (XO
    XH))))))))))))), (String ((Ascii (false, true, false, false, false,
    false, true, false)), (String ((Ascii (false, false, false, true, false,
    false, true, false)), EmptyString))))) :: ((((Npos (XO (XO (XI XH)))),
    (Npos (XO (XI (XO (XO (XO (XO (XO (XO (XI (XI XH)))))))))))), (String
    ((Ascii (false, true, false, false, false, false, true, false)), (String
    ((Ascii (false, false, true, false, false, false, true, false)),
    EmptyString))))) :: ((((Npos (XO (XO (XI XH)))), (Npos (XO (XO (XI (XO
    (XI (XO (XO (XI (XO (XI (XI XH))))))))))))), (String ((Ascii (false,
    true, false, false, false, false, true, false)), (String ((Ascii (true,
    true, true, true, false, false, true, false)),
    EmptyString))))) :: ((((Npos (XO (XO (XI XH)))), (Npos (XO (XO (XI (XI
    (XI (XO (XO XH))))))))), (String ((Ascii (false, true, false, false,
    false, false, true, false)), (String ((Ascii (false, true, true, false,
    false, false, true, false)), EmptyString))))) :: ((((Npos (XO (XO (XI
    XH)))), (Npos (XO (XI (XO (XO (XI XH))))))), (String ((Ascii (false,
    true, false, false, false, false, true, false)), (String ((Ascii (true,
    false, false, true, false, false, true, false)),
    EmptyString))))) :: ((((Npos (XO (XO (XI XH)))), (Npos (XO (XI (XI (XI
    (XO (XO (XO (XO (XI (XI XH)))))))))))), (String ((Ascii (true, true,
    false, true, false, false, true, false)), (String ((Ascii (false, false,
    false, true, false, false, true, false)), EmptyString))))) :: ((((Npos
    (XO (XO (XI XH)))), (Npos (XO (XO (XI (XO (XI XH))))))), (String ((Ascii
    (true, true, false, false, false, false, true, false)), (String ((Ascii
    (true, false, true, true, false, false, true, false)),
    EmptyString))))) :: ((((Npos (XO (XO (XI XH)))), (Npos (XO (XO (XI (XI
    (XO (XI XH)))))))), (String ((Ascii (true, true, false, false, false,
    false, true, false)), (String ((Ascii (false, true, true, false, false,
    false, true, false)), EmptyString))))) :: ((((Npos (XO (XO (XI XH)))),
    (Npos (XO (XO (XI (XO (XO (XO (XO XH))))))))), (String ((Ascii (false,
    false, true, false, true, false, true, false)), (String ((Ascii (false,
    false, true, false, false, false, true, false)),
    EmptyString))))) :: ((((Npos (XO (XO (XI XH)))), (Npos (XO (XO (XO (XO
    (XO (XO (XO (XI (XO (XI (XI XH))))))))))))), (String ((Ascii (true, true,
    false, false, false, false, true, false)), (String ((Ascii (false, false,
    true, true, false, false, true, false)), EmptyString))))) :: ((((Npos (XO
    (XO (XI XH)))), (Npos (XO (XO (XI (XI (XO (XI (XO XH))))))))), (String
    ((Ascii (true, true, false, false, false, false, true, false)), (String
    ((Ascii (true, true, true, true, false, false, true, false)),
    EmptyString))))) :: ((((Npos (XO (XO (XI XH)))), (Npos (XO (XI (XI (XO
    (XI XH))))))), (String ((Ascii (true, true, false, false, false, false,
    true, false)), (String ((Ascii (true, true, true, false, false, false,
    true, false)), EmptyString))))) :: ((((Npos (XO (XO (XI XH)))), (Npos (XO
    (XI (XI (XI (XO (XI (XO XH))))))))), (String ((Ascii (true, true, false,
    false, false, false, true, false)), (String ((Ascii (false, true, false,
    false, true, false, true, false)), EmptyString))))) :: ((((Npos (XO (XO
    (XI XH)))), (Npos (XO (XO (XO (XI (XI XH))))))), (String ((Ascii (true,
    true, false, false, false, false, true, false)), (String ((Ascii (true,
    false, false, true, false, false, true, false)),
    EmptyString))))) :: ((((Npos (XO (XO (XI XH)))), (Npos (XO (XO (XO (XO
    (XI (XI (XO XH))))))))), (String ((Ascii (true, true, false, false,
    false, false, true, false)), (String ((Ascii (true, false, true, false,
    true, false, true, false)), EmptyString))))) :: ((((Npos (XO (XO (XI
    XH)))), (Npos (XO (XO (XI (XI (XO (XO (XO XH))))))))), (String ((Ascii
    (true, true, false, false, false, false, true, false)), (String ((Ascii
    (false, false, true, false, false, false, true, false)),
    EmptyString))))) :: ((((Npos (XO (XO (XI XH)))), (Npos (XO (XO (XI (XO
    (XO (XO (XI XH))))))))), (String ((Ascii (false, false, true, false,
    false, false, true, false)), (String ((Ascii (true, true, true, true,
    false, false, true, false)), EmptyString))))) :: ((((Npos (XO (XO (XI
    XH)))), (Npos (XO (XO (XI (XO (XO (XO (XO (XI (XO (XI (XI
    XH))))))))))))), (String ((Ascii (true, false, true, false, false, false,
    true, false)), (String ((Ascii (true, true, false, false, false, false,
    true, false)), EmptyString))))) :: ((((Npos (XO (XO (XI XH)))), (Npos (XO
    (XI (XO (XO (XI (XI (XO XH))))))))), (String ((Ascii (true, true, false,
    false, true, false, true, false)), (String ((Ascii (false, true, true,
    false, true, false, true, false)), EmptyString))))) :: ((((Npos (XO (XO
    (XI XH)))), (Npos (XO (XI (XO (XO (XO (XO XH)))))))), (String ((Ascii
    (true, true, true, false, false, false, true, false)), (String ((Ascii
    (true, false, false, false, true, false, true, false)),
    EmptyString))))) :: ((((Npos (XO (XO (XI XH)))), (Npos (XO (XO (XO (XO
    (XO (XO XH)))))))), (String ((Ascii (true, false, true, false, false,
    false, true, false)), (String ((Ascii (false, false, true, false, true,
    false, true, false)), EmptyString))))) :: ((((Npos (XO (XO (XI XH)))),
    (Npos (XO (XO (XO (XI (XO (XO (XO (XI (XO (XO (XI XH))))))))))))),
    (String ((Ascii (false, true, true, false, false, false, true, false)),
    (String ((Ascii (false, true, false, true, false, false, true, false)),
    EmptyString))))) :: ((((Npos (XO (XO (XI XH)))), (Npos (XO (XI (XI (XI
    (XI XH))))))), (String ((Ascii (true, true, true, false, false, false,
    true, false)), (String ((Ascii (true, false, false, false, false, false,
    true, false)), EmptyString))))) :: ((((Npos (XO (XO (XI XH)))), (Npos (XO
    (XI (XO (XI (XI (XO (XO XH))))))))), (String ((Ascii (true, true, true,
    false, false, false, true, false)), (String ((Ascii (true, false, true,
    true, false, false, true, false)), EmptyString))))) :: ((((Npos (XO (XO
    (XI XH)))), (Npos (XO (XO (XI (XO (XO (XO XH)))))))), (String ((Ascii
    (true, true, true, false, false, false, true, false)), (String ((Ascii
    (false, false, false, true, false, false, true, false)),
    EmptyString))))) :: ((((Npos (XO (XO (XI XH)))), (Npos (XO (XO (XI (XO
    (XI (XI (XO XH))))))))), (String ((Ascii (true, true, true, false, false,
    false, true, false)), (String ((Ascii (false, false, true, false, true,
    false, true, false)), EmptyString))))) :: ((((Npos (XO (XO (XI XH)))),
    (Npos (XO (XI (XI (XO (XO (XO XH)))))))), (String ((Ascii (true, true,
    true, false, false, false, true, false)), (String ((Ascii (false, true,
    true, true, false, false, true, false)), EmptyString))))) :: ((((Npos (XO
    (XO (XI XH)))), (Npos (XO (XI (XI (XO (XI (XI (XO XH))))))))), (String
    ((Ascii (true, true, true, false, false, false, true, false)), (String
    ((Ascii (true, false, false, true, true, false, true, false)),
    EmptyString))))) :: ((((Npos (XO (XO (XI XH)))), (Npos (XO (XO (XO (XI
    (XI (XI (XO XH))))))))), (String ((Ascii (false, false, false, true,
    false, false, true, false)), (String ((Ascii (false, false, true, false,
    true, false, true, false)), EmptyString))))) :: ((((Npos (XO (XO (XI
    XH)))), (Npos (XO (XI (XO (XI (XI (XI (XO XH))))))))), (String ((Ascii
    (false, false, false, true, false, false, true, false)), (String ((Ascii
    (false, true, true, true, false, false, true, false)),
    EmptyString))))) :: ((((Npos (XO (XO (XI XH)))), (Npos (XO (XO (XI (XI
    (XO (XO (XI (XI (XO (XO XH)))))))))))), (String ((Ascii (true, false,
    false, true, false, false, true, false)), (String ((Ascii (true, true,
    false, false, true, false, true, false)), EmptyString))))) :: ((((Npos
    (XO (XO (XI XH)))), (Npos (XO (XI (XO (XI (XO (XO (XI (XI (XO (XO
    XH)))))))))))), (String ((Ascii (true, false, false, true, false, false,
    true, false)), (String ((Ascii (true, false, true, false, false, false,
    true, false)), EmptyString))))) :: ((((Npos (XO (XO (XI XH)))), (Npos (XO
    (XI (XI (XI (XI (XI (XO XH))))))))), (String ((Ascii (false, true, false,
    true, false, false, true, false)), (String ((Ascii (true, false, true,
    true, false, false, true, false)), EmptyString))))) :: ((((Npos (XO (XO
    (XI XH)))), (Npos (XO (XO (XI (XI (XO (XO XH)))))))), (String ((Ascii
    (true, true, false, true, false, false, true, false)), (String ((Ascii
    (true, false, true, false, false, false, true, false)),
    EmptyString))))) :: ((((Npos (XO (XO (XI XH)))), (Npos (XO (XI (XI (XO
    (XO (XO (XO (XO (XI (XI XH)))))))))))), (String ((Ascii (true, true,
    false, true, false, false, true, false)), (String ((Ascii (true, true,
    true, false, true, false, true, false)), EmptyString))))) :: ((((Npos (XO
    (XO (XI XH)))), (Npos (XO (XO (XO (XI (XO (XO (XO (XO (XI (XI
    XH)))))))))))), (String ((Ascii (false, false, true, true, false, false,
    true, false)), (String ((Ascii (true, false, false, false, false, false,
    true, false)), EmptyString))))) :: ((((Npos (XO (XO (XI XH)))), (Npos (XO
    (XO (XO (XO (XI (XO XH)))))))), (String ((Ascii (false, false, true,
    true, false, false, true, false)), (String ((Ascii (false, true, false,
    false, true, false, true, false)), EmptyString))))) :: ((((Npos (XO (XO
    (XI XH)))), (Npos (XO (XO (XI (XO (XI (XO XH)))))))), (String ((Ascii
    (true, false, true, true, false, false, true, false)), (String ((Ascii
    (true, true, true, false, false, false, true, false)),
    EmptyString))))) :: ((((Npos (XO (XO (XI XH)))), (Npos (XO (XO (XO (XI
    (XI (XO XH)))))))), (String ((Ascii (true, false, true, true, false,
    false, true, false)), (String ((Ascii (true, true, true, false, true,
    false, true, false)), EmptyString))))) :: ((((Npos (XO (XO (XI XH)))),
    (Npos (XO (XO (XI (XI (XI (XO XH)))))))), (String ((Ascii (true, false,
    true, true, false, false, true, false)), (String ((Ascii (false, false,
    true, true, false, false, true, false)), EmptyString))))) :: ((((Npos (XO
    (XO (XI XH)))), (Npos (XO (XI (XO (XO (XI (XO (XI (XI (XO (XO
    XH)))))))))))), (String ((Ascii (true, false, true, true, false, false,
    true, false)), (String ((Ascii (false, false, true, false, true, false,
    true, false)), EmptyString))))) :: ((((Npos (XO (XO (XI XH)))), (Npos (XO
    (XI XH)))), (String ((Ascii (true, false, true, true, false, false, true,
    false)), (String ((Ascii (false, true, false, true, true, false, true,
    false)), EmptyString))))) :: ((((Npos (XO (XO (XI XH)))), (Npos (XO (XO
    (XI (XO (XO (XO (XO (XO (XI (XI XH)))))))))))), (String ((Ascii (true,
    false, true, true, false, false, true, false)), (String ((Ascii (true,
    false, true, true, false, false, true, false)),
    EmptyString))))) :: ((((Npos (XO (XO (XI XH)))), (Npos (XO (XI (XO (XI
    (XO (XO (XO (XO (XI (XI XH)))))))))))), (String ((Ascii (false, true,
    true, true, false, false, true, false)), (String ((Ascii (false, false,
    false, false, true, false, true, false)), EmptyString))))) :: ((((Npos
    (XO (XO (XI XH)))), (Npos (XO (XO (XO (XO (XO (XO (XI XH))))))))),
    (String ((Ascii (false, true, true, true, false, false, true, false)),
    (String ((Ascii (true, false, false, true, false, false, true, false)),
    EmptyString))))) :: ((((Npos (XO (XO (XI XH)))), (Npos (XO (XI (XO (XO
    (XO (XI XH)))))))), (String ((Ascii (false, true, true, true, false,
    false, true, false)), (String ((Ascii (true, false, true, false, false,
    false, true, false)), EmptyString))))) :: ((((Npos (XO (XO (XI XH)))),
    (Npos (XO (XO (XI (XO (XO (XI XH)))))))), (String ((Ascii (false, true,
    true, true, false, false, true, false)), (String ((Ascii (true, true,
    true, false, false, false, true, false)), EmptyString))))) :: ((((Npos
    (XO (XO (XI XH)))), (Npos (XO (XI (XO (XO (XO (XO (XI XH))))))))),
    (String ((Ascii (false, false, false, false, true, false, true, false)),
    (String ((Ascii (true, false, false, false, false, false, true, false)),
    EmptyString))))) :: ((((Npos (XO (XO (XI XH)))), (Npos (XO (XO (XO (XI
    (XI (XO (XO (XI (XO (XO (XO XH))))))))))))), (String ((Ascii (false,
    false, false, false, true, false, true, false)), (String ((Ascii (true,
    true, true, false, false, false, true, false)),
    EmptyString))))) :: ((((Npos (XO (XO (XI XH)))), (Npos (XO (XO (XO (XI
    (XO (XO (XO (XI (XO (XI (XI XH))))))))))))), (String ((Ascii (false,
    false, false, false, true, false, true, false)), (String ((Ascii (true,
    false, false, true, true, false, true, false)),
    EmptyString))))) :: ((((Npos (XO (XO (XI XH)))), (Npos (XO (XO (XI (XI
    (XO (XO (XO (XI (XO (XI (XI XH))))))))))))), (String ((Ascii (false,
    false, false, false, true, false, true, false)), (String ((Ascii (true,
    false, true, false, false, false, true, false)),
    EmptyString))))) :: ((((Npos (XO (XO (XI XH)))), (Npos (XO (XI (XI (XI
    (XO (XI XH)))))))), (String ((Ascii (false, true, false, false, true,
    false, true, false)), (String ((Ascii (true, true, true, false, true,
    false, true, false)), EmptyString))))) :: ((((Npos (XO (XO (XI XH)))),
    (Npos (XO (XO (XO (XO (XI (XI XH)))))))), (String ((Ascii (true, true,
    false, false, true, false, true, false)), (String ((Ascii (false, true,
    true, true, false, false, true, false)), EmptyString))))) :: ((((Npos (XO
    (XO (XI XH)))), (Npos (XO (XO (XO (XI (XI (XI XH)))))))), (String ((Ascii
    (true, true, false, false, true, false, true, false)), (String ((Ascii
    (true, true, true, true, false, false, true, false)),
    EmptyString))))) :: ((((Npos (XO (XO (XI XH)))), (Npos (XO (XO (XI (XI
    (XI (XI XH)))))))), (String ((Ascii (true, true, false, false, true,
    false, true, false)), (String ((Ascii (false, false, true, false, false,
    false, true, false)), EmptyString))))) :: ((((Npos (XO (XO (XI XH)))),
    (Npos (XO (XO (XO (XI (XO (XO (XI XH))))))))), (String ((Ascii (true,
    true, false, false, true, false, true, false)), (String ((Ascii (false,
    true, false, false, true, false, true, false)),
    EmptyString))))) :: ((((Npos (XO (XO (XI XH)))), (Npos (XO (XO (XO (XI
    (XO (XO (XO XH))))))))), (String ((Ascii (false, false, true, false,
    true, false, true, false)), (String ((Ascii (true, true, true, false,
    false, false, true, false)), EmptyString))))) :: ((((Npos (XO (XO (XI
    XH)))), (Npos (XO (XI (XI (XO (XO (XO (XI XH))))))))), (String ((Ascii
    (false, false, true, false, true, false, true, false)), (String ((Ascii
    (false, false, true, false, true, false, true, false)),
    EmptyString))))) :: ((((Npos (XO (XO (XI XH)))), (Npos (XO (XO (XO (XI
    (XO (XI XH)))))))), (String ((Ascii (true, false, true, false, true,
    false, true, false)), (String ((Ascii (true, true, true, false, false,
    false, true, false)), EmptyString))))) :: ((((Npos (XO (XO (XI XH)))),
    (Npos (XO (XI (XI (XO (XI (XO (XO (XI (XO (XO (XO XH))))))))))))),
    (String ((Ascii (true, false, false, false, false, false, true, false)),
    (String ((Ascii (true, false, true, false, false, false, true, false)),
    EmptyString))))) :: ((((Npos (XO (XO (XI XH)))), (Npos (XO (XO (XO (XO
    (XO (XO (XO XH))))))))), (String ((Ascii (false, false, true, false,
    true, false, true, false)), (String ((Ascii (false, true, false, true,
    true, false, true, false)), EmptyString))))) :: ((((Npos (XO (XO (XI
    XH)))), (Npos (XO (XO (XO (XO (XI (XO (XO (XI (XO (XI (XI
    XH))))))))))))), (String ((Ascii (true, false, true, false, true, false,
    true, false)), (String ((Ascii (true, false, false, true, true, false,
    true, false)), EmptyString))))) :: ((((Npos (XO (XO (XI XH)))), (Npos (XO
    (XO (XO (XO (XI (XO (XO (XI (XO (XO (XO XH))))))))))))), (String ((Ascii
    (true, false, false, true, true, false, true, false)), (String ((Ascii
    (true, false, true, false, false, false, true, false)),
    EmptyString))))) :: ((((Npos (XO (XO (XI XH)))), (Npos (XO (XI (XO (XI
    (XO (XO (XO XH))))))))), (String ((Ascii (false, true, false, true, true,
    false, true, false)), (String ((Ascii (true, false, true, true, false,
    false, true, false)), EmptyString))))) :: ((((Npos (XO (XI (XO XH)))),
    (Npos (XO (XO (XI (XO (XO (XO (XO (XO (XO (XO (XI (XO XH)))))))))))))),
    (String ((Ascii (true, false, false, false, false, false, true, false)),
    (String ((Ascii (false, false, true, true, false, false, true, false)),
    EmptyString))))) :: ((((Npos (XO (XI (XO XH)))), (Npos (XO (XO (XO (XI
    (XO (XI (XO (XO (XI XH))))))))))), (String ((Ascii (true, false, false,
    false, false, false, true, false)), (String ((Ascii (true, true, true,
    false, false, false, true, false)), EmptyString))))) :: ((((Npos (XO (XI
    (XO XH)))), (Npos (XO (XO (XO (XO (XO (XO (XO (XO (XO (XO (XO (XI
    XH)))))))))))))), (String ((Ascii (true, false, false, false, false,
    false, true, false)), (String ((Ascii (true, false, true, true, false,
    false, true, false)), EmptyString))))) :: ((((Npos (XO (XI (XO XH)))),
    (Npos (XO (XI (XO (XO (XO (XO (XO (XO (XO (XO (XO (XI XH)))))))))))))),
    (String ((Ascii (true, false, false, false, false, false, true, false)),
    (String ((Ascii (false, true, false, true, true, false, true, false)),
    EmptyString))))) :: ((((Npos (XO (XI (XO XH)))), (Npos (XO (XO (XO (XI
    (XO (XI (XO (XI (XO XH))))))))))), (String ((Ascii (false, true, false,
    false, false, false, true, false)), (String ((Ascii (false, true, false,
    false, false, false, true, false)), EmptyString))))) :: ((((Npos (XO (XI
    (XO XH)))), (Npos (XO (XO (XO (XO (XO (XO (XI (XO (XO (XO (XI (XO
    XH)))))))))))))), (String ((Ascii (false, true, false, false, false,
    false, true, false)), (String ((Ascii (true, false, false, true, true,
    false, true, false)), EmptyString))))) :: ((((Npos (XO (XI (XO XH)))),
    (Npos (XO (XO (XI (XI (XO (XI (XO (XI (XO XH))))))))))), (String ((Ascii
    (false, true, false, false, false, false, true, false)), (String ((Ascii
    (false, true, false, true, true, false, true, false)),
    EmptyString))))) :: ((((Npos (XO (XI (XO XH)))), (Npos (XO (XO (XO (XO
    (XI (XO (XI (XO (XO XH))))))))))), (String ((Ascii (false, true, false,
    false, false, false, true, false)), (String ((Ascii (false, true, false,
    true, false, false, true, false)), EmptyString))))) :: ((((Npos (XO (XI
    (XO XH)))), (Npos (XO (XO (XO (XO (XO (XO (XO (XO (XO (XI (XO (XI
    XH)))))))))))))), (String ((Ascii (false, true, false, false, false,
    false, true, false)), (String ((Ascii (false, false, true, false, true,
    false, true, false)), EmptyString))))) :: ((((Npos (XO (XI (XO XH)))),
    (Npos (XO (XO (XI (XI (XO (XO (XI (XO (XO (XO (XI (XO XH)))))))))))))),
    (String ((Ascii (false, true, false, false, false, false, true, false)),
    (String ((Ascii (true, false, false, false, false, false, true, false)),
    EmptyString))))) :: ((((Npos (XO (XI (XO XH)))), (Npos (XO (XO (XO (XO
    (XO (XO (XI XH))))))))), (String ((Ascii (false, true, false, false,
    false, false, true, false)), (String ((Ascii (true, true, true, false,
    true, false, true, false)), EmptyString))))) :: ((((Npos (XO (XI (XO
    XH)))), (Npos (XO (XO (XI (XO (XI (XO (XI (XO (XO (XI (XO (XO (XO
    XH))))))))))))))), (String ((Ascii (false, true, false, false, false,
    false, true, false)), (String ((Ascii (false, true, true, true, false,
    false, true, false)), EmptyString))))) :: ((((Npos (XO (XI (XO XH)))),
    (Npos (XO (XO (XO (XI (XI (XO (XI (XO (XO XH))))))))))), (String ((Ascii
    (true, true, false, false, false, false, true, false)), (String ((Ascii
    (false, true, true, false, true, false, true, false)),
    EmptyString))))) :: ((((Npos (XO (XI (XO XH)))), (Npos (XO (XO (XI (XO
    (XI (XO (XI XH))))))))), (String ((Ascii (true, true, false, true, false,
    false, true, false)), (String ((Ascii (true, false, true, true, false,
    false, true, false)), EmptyString))))) :: ((((Npos (XO (XI (XO XH)))),
    (Npos (XO (XO (XI (XO (XO (XO (XO (XO (XO (XO (XI (XO (XO
    XH))))))))))))))), (String ((Ascii (true, true, false, false, false,
    false, true, false)), (String ((Ascii (true, true, false, true, false,
    false, true, false)), EmptyString))))) :: ((((Npos (XO (XI (XO XH)))),
    (Npos (XI (XI (XI (XO (XO (XO (XO (XO (XO (XO (XI (XO XH)))))))))))))),
    (String ((Ascii (false, false, false, true, false, false, true, false)),
    (String ((Ascii (false, true, false, false, true, false, true, false)),
    EmptyString))))) :: ((((Npos (XO (XI (XO XH)))), (Npos (XO (XO (XO (XO
    (XO (XI (XO (XO (XI (XI (XO (XO XH)))))))))))))), (String ((Ascii (true,
    true, false, false, false, false, true, false)), (String ((Ascii (true,
    false, false, true, true, false, true, false)),
    EmptyString))))) :: ((((Npos (XO (XI (XO XH)))), (Npos (XO (XO (XO (XO
    (XO (XI (XI (XO (XO XH))))))))))), (String ((Ascii (false, false, true,
    false, false, false, true, false)), (String ((Ascii (false, true, false,
    true, false, false, true, false)), EmptyString))))) :: ((((Npos (XO (XI
    (XO XH)))), (Npos (XO (XO (XO (XI (XO (XO (XO (XO (XO (XO (XO
    XH))))))))))))), (String ((Ascii (true, false, true, false, false, false,
    true, false)), (String ((Ascii (false, true, false, false, true, false,
    true, false)), EmptyString))))) :: ((((Npos (XO (XI (XO XH)))), (Npos (XO
    (XO (XI (XO (XO (XO (XI (XO (XO (XO (XI (XO XH)))))))))))))), (String
    ((Ascii (true, false, true, false, false, false, true, false)), (String
    ((Ascii (true, false, true, false, false, false, true, false)),
    EmptyString))))) :: ((((Npos (XO (XI (XO XH)))), (Npos (XO (XO (XO (XO
    (XI (XO (XI (XO (XO (XO (XI (XO XH)))))))))))))), (String ((Ascii (true,
    true, true, false, false, false, true, false)), (String ((Ascii (true,
    false, true, false, false, false, true, false)),
    EmptyString))))) :: ((((Npos (XO (XI (XO XH)))), (Npos (XO (XO (XO (XO
    (XI (XI (XO (XO (XI XH))))))))))), (String ((Ascii (true, true, true,
    false, false, false, true, false)), (String ((Ascii (false, false, true,
    false, false, false, true, false)), EmptyString))))) :: ((((Npos (XO (XI
    (XO XH)))), (Npos (XO (XO (XO (XO (XO (XI (XO (XO XH)))))))))), (String
    ((Ascii (true, true, true, false, false, false, true, false)), (String
    ((Ascii (true, true, true, false, true, false, true, false)),
    EmptyString))))) :: ((((Npos (XO (XI (XO XH)))), (Npos (XO (XO (XI (XI
    (XO (XO (XO (XO (XO (XI (XO (XI XH)))))))))))))), (String ((Ascii (true,
    true, false, true, false, false, true, false)), (String ((Ascii (false,
    true, false, true, true, false, true, false)),
    EmptyString))))) :: ((((Npos (XO (XI (XO XH)))), (Npos (XO (XO (XO (XI
    (XI (XI (XO (XO (XO (XI (XO (XO (XI XH))))))))))))))), (String ((Ascii
    (true, true, false, true, false, false, true, false)), (String ((Ascii
    (true, false, false, true, false, false, true, false)),
    EmptyString))))) :: ((((Npos (XO (XI (XO XH)))), (Npos (XO (XO (XI (XO
    (XO (XO (XO (XO (XO (XO (XO (XI XH)))))))))))))), (String ((Ascii (true,
    true, false, true, false, false, true, false)), (String ((Ascii (true,
    true, true, false, false, false, true, false)),
    EmptyString))))) :: ((((Npos (XO (XI (XO XH)))), (Npos (XI (XI (XO (XI
    (XO (XO (XO (XO (XO (XO (XI (XO XH)))))))))))))), (String ((Ascii (false,
    false, true, true, false, false, true, false)), (String ((Ascii (false,
    true, true, false, true, false, true, false)),
    EmptyString))))) :: ((((Npos (XO (XI (XO XH)))), (Npos (XO (XO (XO (XI
    (XO (XI (XO (XO XH)))))))))), (String ((Ascii (false, false, true, true,
    false, false, true, false)), (String ((Ascii (true, true, false, false,
    true, false, true, false)), EmptyString))))) :: ((((Npos (XO (XI (XO
    XH)))), (Npos (XI (XI (XI (XI (XO (XO (XO (XO (XO (XO (XI (XO
    XH)))))))))))))), (String ((Ascii (false, false, true, true, false,
    false, true, false)), (String ((Ascii (false, false, true, false, true,
    false, true, false)), EmptyString))))) :: ((((Npos (XO (XI (XO XH)))),
    (Npos (XO (XO (XO (XO (XO (XO (XI (XO (XI (XI (XO (XO XH)))))))))))))),
    (String ((Ascii (false, false, true, true, false, false, true, false)),
    (String ((Ascii (true, false, true, false, true, false, true, false)),
    EmptyString))))) :: ((((Npos (XO (XI (XO XH)))), (Npos (XO (XO (XO (XI
    (XO (XI (XI (XO XH)))))))))), (String ((Ascii (true, false, true, true,
    false, false, true, false)), (String ((Ascii (false, true, true, false,
    true, false, true, false)), EmptyString))))) :: ((((Npos (XO (XI (XO
    XH)))), (Npos (XO (XO (XO (XO (XO (XO (XO (XO (XO (XO (XI (XO (XO
    XH))))))))))))))), (String ((Ascii (true, false, true, true, false,
    false, true, false)), (String ((Ascii (false, false, false, true, false,
    false, true, false)), EmptyString))))) :: ((((Npos (XO (XI (XO XH)))),
    (Npos (XO (XO (XO (XI (XI (XI (XI (XO XH)))))))))), (String ((Ascii
    (true, false, true, true, false, false, true, false)), (String ((Ascii
    (false, true, false, false, true, false, true, false)),
    EmptyString))))) :: ((((Npos (XO (XI (XO XH)))), (Npos (XO (XO (XO (XO
    (XO (XO (XO (XI XH)))))))))), (String ((Ascii (true, false, true, true,
    false, false, true, false)), (String ((Ascii (true, false, true, false,
    true, false, true, false)), EmptyString))))) :: ((((Npos (XO (XI (XO
    XH)))), (Npos (XO (XO (XI (XO (XO (XO (XO (XO (XO (XI (XO (XI
    XH)))))))))))))), (String ((Ascii (false, true, true, false, false,
    false, true, false)), (String ((Ascii (true, false, true, true, false,
    false, true, false)), EmptyString))))) :: ((((Npos (XO (XI (XO XH)))),
    (Npos (XO (XO (XO (XO (XI (XO (XI (XO (XI (XI (XO (XO XH)))))))))))))),
    (String ((Ascii (true, false, true, true, false, false, true, false)),
    (String ((Ascii (true, true, false, false, false, false, true, false)),
    EmptyString))))) :: ((((Npos (XO (XI (XO XH)))), (Npos (XO (XO (XO (XI
    (XO (XO (XO (XO (XO (XI (XO (XI XH)))))))))))))), (String ((Ascii (true,
    false, true, true, false, false, true, false)), (String ((Ascii (false,
    true, true, true, false, false, true, false)),
    EmptyString))))) :: ((((Npos (XO (XI (XO XH)))), (Npos (XO (XO (XI (XO
    (XO (XO (XO (XO (XO (XO (XO XH))))))))))))), (String ((Ascii (false,
    true, true, true, false, false, true, false)), (String ((Ascii (true,
    false, false, false, false, false, true, false)),
    EmptyString))))) :: ((((Npos (XO (XI (XO XH)))), (Npos (XO (XO (XO (XI
    (XO (XI (XO (XO (XO (XI (XO (XO (XI XH))))))))))))))), (String ((Ascii
    (false, true, true, true, false, false, true, false)), (String ((Ascii
    (false, true, false, false, true, false, true, false)),
    EmptyString))))) :: ((((Npos (XO (XI (XO XH)))), (Npos (XO (XO (XO (XO
    (XI (XI (XO (XO (XO (XO (XI (XI XH)))))))))))))), (String ((Ascii (true,
    true, true, true, false, false, true, false)), (String ((Ascii (true,
    false, true, true, false, false, true, false)),
    EmptyString))))) :: ((((Npos (XO (XI (XO XH)))), (Npos (XO (XO (XO (XO
    (XI (XO (XO (XO (XO (XI (XO (XI XH)))))))))))))), (String ((Ascii (false,
    false, false, false, true, false, true, false)), (String ((Ascii (true,
    true, true, false, true, false, true, false)),
    EmptyString))))) :: ((((Npos (XO (XI (XO XH)))), (Npos (XO (XO (XO (XI
    (XO (XI (XO (XI XH)))))))))), (String ((Ascii (true, false, false, false,
    true, false, true, false)), (String ((Ascii (true, false, false, false,
    false, false, true, false)), EmptyString))))) :: ((((Npos (XO (XI (XO
    XH)))), (Npos (XI (XI (XO (XO (XI (XO (XO (XO (XO (XO (XI (XO
    XH)))))))))))))), (String ((Ascii (true, false, true, true, false, false,
    true, false)), (String ((Ascii (false, false, true, false, false, false,
    true, false)), EmptyString))))) :: ((((Npos (XO (XI (XO XH)))), (Npos (XO
    (XO (XO (XO (XI (XI (XO (XO (XO (XI (XO (XO (XI XH))))))))))))))),
    (String ((Ascii (false, false, true, true, false, false, true, false)),
    (String ((Ascii (true, true, false, false, false, false, true, false)),
    EmptyString))))) :: ((((Npos (XO (XI (XO XH)))), (Npos (XO (XO (XO (XO
    (XI (XI (XI (XI (XO XH))))))))))), (String ((Ascii (false, true, true,
    false, true, false, true, false)), (String ((Ascii (true, true, false,
    false, false, false, true, false)), EmptyString))))) :: ((((Npos (XO (XI
    (XO XH)))), (Npos (XO (XO (XO (XI (XO (XO (XO (XO (XO (XO (XI (XO (XO
    XH))))))))))))))), (String ((Ascii (true, true, true, false, true, false,
    true, false)), (String ((Ascii (true, true, false, false, true, false,
    true, false)), EmptyString))))) :: ((((Npos (XO (XI (XO XH)))), (Npos (XO
    (XO (XO (XO (XO (XO (XO (XO (XO (XO (XI (XO XH)))))))))))))), (String
    ((Ascii (true, true, false, false, true, false, true, false)), (String
    ((Ascii (true, false, true, true, false, false, true, false)),
    EmptyString))))) :: ((((Npos (XO (XI (XO XH)))), (Npos (XO (XO (XO (XI
    (XI (XI (XI (XO (XO XH))))))))))), (String ((Ascii (true, true, false,
    false, true, false, true, false)), (String ((Ascii (false, false, true,
    false, true, false, true, false)), EmptyString))))) :: ((((Npos (XO (XI
    (XO XH)))), (Npos (XO (XO (XO (XO (XI (XO (XI (XI XH)))))))))), (String
    ((Ascii (true, true, false, false, true, false, true, false)), (String
    ((Ascii (true, true, false, false, false, false, true, false)),
    EmptyString))))) :: ((((Npos (XO (XI (XO XH)))), (Npos (XO (XO (XO (XI
    (XI (XO (XI (XI XH)))))))))), (String ((Ascii (true, true, false, false,
    true, false, true, false)), (String ((Ascii (false, false, true, true,
    false, false, true, false)), EmptyString))))) :: ((((Npos (XO (XI (XO
    XH)))), (Npos (XI (XI (XI (XO (XI (XO (XO (XO (XO (XO (XI (XO
    XH)))))))))))))), (String ((Ascii (true, true, false, false, true, false,
    true, false)), (String ((Ascii (true, true, false, true, false, false,
    true, false)), EmptyString))))) :: ((((Npos (XO (XI (XO XH)))), (Npos (XI
    (XI (XO (XI (XI (XO (XO (XO (XO (XO (XI (XO XH)))))))))))))), (String
    ((Ascii (true, true, false, false, true, false, true, false)), (String
    ((Ascii (true, false, false, true, false, false, true, false)),
    EmptyString))))) :: ((((Npos (XO (XI (XO XH)))), (Npos (XO (XO (XI (XI
    (XI (XO (XI (XO (XO (XI (XO (XO (XO XH))))))))))))))), (String ((Ascii
    (true, true, false, false, true, false, true, false)), (String ((Ascii
    (false, true, false, false, false, false, true, false)),
    EmptyString))))) :: ((((Npos (XO (XI (XO XH)))), (Npos (XO (XO (XO (XI
    (XO (XI (XI (XI XH)))))))))), (String ((Ascii (true, true, false, false,
    true, false, true, false)), (String ((Ascii (false, true, false, true,
    true, false, true, false)), EmptyString))))) :: ((((Npos (XO (XI (XO
    XH)))), (Npos (XO (XO (XI (XO (XI (XO (XI (XO (XO (XO (XI (XO
    XH)))))))))))))), (String ((Ascii (false, false, true, false, true,
    false, true, false)), (String ((Ascii (false, true, false, true, false,
    false, true, false)), EmptyString))))) :: ((((Npos (XO (XI (XO XH)))),
    (Npos (XO (XO (XO (XI (XO (XO (XI (XO (XO (XO (XI (XO XH)))))))))))))),
    (String ((Ascii (true, false, true, true, false, false, true, false)),
    (String ((Ascii (true, true, false, true, false, false, true, false)),
    EmptyString))))) :: ((((Npos (XO (XI (XO XH)))), (Npos (XO (XO (XI (XO
    (XI (XI (XO (XO (XO (XI (XO (XO (XI XH))))))))))))))), (String ((Ascii
    (false, false, true, false, true, false, true, false)), (String ((Ascii
    (true, true, true, true, false, false, true, false)),
    EmptyString))))) :: ((((Npos (XO (XI (XO XH)))), (Npos (XO (XI (XI (XO
    (XO (XO (XO (XO (XO (XO (XO (XI XH)))))))))))))), (String ((Ascii (false,
    false, true, false, true, false, true, false)), (String ((Ascii (true,
    false, true, true, false, false, true, false)),
    EmptyString))))) :: ((((Npos (XO (XI (XO XH)))), (Npos (XI (XI (XI (XI
    (XI (XO (XO (XO (XO (XO (XI (XO XH)))))))))))))), (String ((Ascii (true,
    false, true, false, true, false, true, false)), (String ((Ascii (false,
    true, false, true, true, false, true, false)),
    EmptyString))))) :: ((((Npos (XO (XI (XO XH)))), (Npos (XO (XO (XO (XO
    (XO (XO (XI (XO (XO (XI (XO (XO (XI XH))))))))))))))), (String ((Ascii
    (false, true, true, false, true, false, true, false)), (String ((Ascii
    (true, false, true, false, true, false, true, false)),
    EmptyString))))) :: ((((Npos (XO (XI (XO XH)))), (Npos (XO (XO (XO (XO
    XH)))))), (String ((Ascii (false, true, false, true, true, false, true,
    false)), (String ((Ascii (true, true, true, false, true, false, true,
    false)), EmptyString))))) :: ((((Npos (XO (XI (XO XH)))), (Npos (XO (XO
    (XI (XO (XO (XI (XI (XO (XO (XI (XO (XO (XO XH))))))))))))))), (String
    ((Ascii (true, false, false, true, false, false, true, false)), (String
    ((Ascii (true, true, false, false, false, false, true, false)), (String
    ((Ascii (true, false, false, false, false, false, true, false)), (String
    ((Ascii (true, true, true, true, false, false, true, false)), (String
    ((Ascii (false, true, false, false, true, true, false, false)),
    EmptyString))))))))))) :: ((((Npos (XO (XI (XO XH)))), (Npos (XO (XO (XI
    (XO (XO (XI (XO (XO (XO (XO (XI (XI (XI XH))))))))))))))), (String
    ((Ascii (true, false, false, true, false, false, true, false)), (String
    ((Ascii (true, true, false, false, false, false, true, false)), (String
    ((Ascii (true, false, false, false, false, false, true, false)), (String
    ((Ascii (true, true, true, true, false, false, true, false)), (String
    ((Ascii (false, true, false, false, true, true, false, false)),
    EmptyString))))))))))) :: []))))))))))))))))))))))))))))))))))))))))))))))))))))))))))))))))))))))))))))))))))))))))))))))))))))))))))))))))))))))))))))))))))))))))))))))))))))))))))))))))))))))))))))))))))))))))))))

(** val country_default : string **)

let country_default =
  String ((Ascii (true, true, true, true, true, true, false, false)), (String
    ((Ascii (true, true, true, true, true, true, false, false)),
    EmptyString)))

(** val header_cols : ((string * string) * nat) list **)

let header_cols =
  ((EmptyString, (String ((Ascii (true, false, false, true, false, false,
    true, false)), (String ((Ascii (true, true, false, false, false, false,
    true, false)), (String ((Ascii (true, false, false, false, false, false,
    true, false)), (String ((Ascii (true, true, true, true, false, false,
    true, false)), EmptyString))))))))), (S (S (S (S (S (S
    O))))))) :: (((EmptyString, (String ((Ascii (false, true, false, false,
    true, false, true, false)), (String ((Ascii (true, true, true, false,
    false, false, true, false)), EmptyString))))), (S (S
    O))) :: (((EmptyString, (String ((Ascii (true, true, false, false, true,
    false, true, false)), (String ((Ascii (true, false, false, false, true,
    false, true, false)), (String ((Ascii (true, true, true, false, true,
    false, true, false)), (String ((Ascii (true, true, false, true, false,
    false, true, false)), EmptyString))))))))), (S (S (S (S
    O))))) :: (((EmptyString, (String ((Ascii (true, true, true, false, true,
    false, true, false)), EmptyString))), (S O)) :: (((EmptyString, (String
    ((Ascii (true, true, false, false, false, false, true, false)), (String
    ((Ascii (true, false, false, false, false, false, true, false)), (String
    ((Ascii (false, false, true, true, false, false, true, false)), (String
    ((Ascii (false, false, true, true, false, false, true, false)), (String
    ((Ascii (true, true, false, false, true, false, true, false)), (String
    ((Ascii (true, false, false, true, false, false, true, false)), (String
    ((Ascii (true, true, true, false, false, false, true, false)), (String
    ((Ascii (false, true, true, true, false, false, true, false)),
    EmptyString))))))))))))))))), (S (S (S (S (S (S (S (S
    O))))))))) :: (((EmptyString, (String ((Ascii (false, false, true, true,
    false, false, true, false)), (String ((Ascii (true, false, false, false,
    false, false, true, false)), (String ((Ascii (false, false, true, false,
    true, false, true, false)), (String ((Ascii (true, false, false, true,
    false, false, true, false)), (String ((Ascii (false, false, true, false,
    true, false, true, false)), (String ((Ascii (true, false, true, false,
    true, false, true, false)), (String ((Ascii (false, false, true, false,
    false, false, true, false)), (String ((Ascii (true, false, true, false,
    false, false, true, false)), EmptyString))))))))))))))))), (S (S (S (S (S
    (S (S (S (S O)))))))))) :: (((EmptyString, (String ((Ascii (false, false,
    true, true, false, false, true, false)), (String ((Ascii (true, true,
    true, true, false, false, true, false)), (String ((Ascii (false, true,
    true, true, false, false, true, false)), (String ((Ascii (true, true,
    true, false, false, false, true, false)), (String ((Ascii (true, false,
    false, true, false, false, true, false)), (String ((Ascii (false, false,
    true, false, true, false, true, false)), (String ((Ascii (true, false,
    true, false, true, false, true, false)), (String ((Ascii (false, false,
    true, false, false, false, true, false)), (String ((Ascii (true, false,
    true, false, false, false, true, false)), EmptyString))))))))))))))))))),
    (S (S (S (S (S (S (S (S (S (S (S O)))))))))))) :: (((EmptyString, (String
    ((Ascii (false, false, true, false, false, false, true, false)), (String
    ((Ascii (true, false, false, true, false, false, true, false)), (String
    ((Ascii (true, true, false, false, true, false, true, false)), (String
    ((Ascii (false, false, true, false, true, false, true, false)),
    EmptyString))))))))), (S (S (S (S (S O)))))) :: (((EmptyString, (String
    ((Ascii (true, false, false, false, false, false, true, false)), (String
    ((Ascii (false, false, true, true, false, false, true, false)), (String
    ((Ascii (false, false, true, false, true, false, true, false)), (String
    ((Ascii (false, false, false, false, false, true, false, false)), (String
    ((Ascii (false, true, false, false, false, false, true, false)),
    EmptyString))))))))))), (S (S (S (S (S O)))))) :: ((((String ((Ascii
    (true, false, false, false, false, true, true, false)), (String ((Ascii
    (false, false, true, true, false, true, true, false)), (String ((Ascii
    (false, false, true, false, true, true, true, false)), (String ((Ascii
    (true, false, false, true, false, true, true, false)), (String ((Ascii
    (false, false, true, false, true, true, true, false)), (String ((Ascii
    (true, false, true, false, true, true, true, false)), (String ((Ascii
    (false, false, true, false, false, true, true, false)), (String ((Ascii
    (true, false, true, false, false, true, true, false)),
    EmptyString)))))))))))))))), (String ((Ascii (true, false, false, false,
    false, false, true, false)), (String ((Ascii (false, false, true, true,
    false, false, true, false)), (String ((Ascii (false, false, true, false,
    true, false, true, false)), (String ((Ascii (false, false, false, false,
    false, true, false, false)), (String ((Ascii (true, true, true, false,
    false, false, true, false)), EmptyString))))))))))), (S (S (S (S (S
    O)))))) :: ((((String ((Ascii (true, false, false, false, false, true,
    true, false)), (String ((Ascii (false, false, true, true, false, true,
    true, false)), (String ((Ascii (false, false, true, false, true, true,
    true, false)), (String ((Ascii (true, false, false, true, false, true,
    true, false)), (String ((Ascii (false, false, true, false, true, true,
    true, false)), (String ((Ascii (true, false, true, false, true, true,
    true, false)), (String ((Ascii (false, false, true, false, false, true,
    true, false)), (String ((Ascii (true, false, true, false, false, true,
    true, false)), EmptyString)))))))))))))))), (String ((Ascii (true, false,
    false, false, false, false, true, false)), (String ((Ascii (false, false,
    true, true, false, false, true, false)), (String ((Ascii (false, false,
    true, false, true, false, true, false)), (String ((Ascii (false, false,
    false, false, false, true, false, false)), (String ((Ascii (true, true,
    false, false, true, false, true, false)), EmptyString))))))))))), (S (S
    (S (S (S O)))))) :: ((((String ((Ascii (true, false, false, false, false,
    true, true, false)), (String ((Ascii (false, false, true, true, false,
    true, true, false)), (String ((Ascii (false, false, true, false, true,
    true, true, false)), (String ((Ascii (true, false, false, true, false,
    true, true, false)), (String ((Ascii (false, false, true, false, true,
    true, true, false)), (String ((Ascii (true, false, true, false, true,
    true, true, false)), (String ((Ascii (false, false, true, false, false,
    true, true, false)), (String ((Ascii (true, false, true, false, false,
    true, true, false)), EmptyString)))))))))))))))), (String ((Ascii (false,
    true, false, false, false, false, true, false)), (String ((Ascii (true,
    false, false, false, false, false, true, false)), (String ((Ascii (false,
    true, false, false, true, false, true, false)), (String ((Ascii (true,
    true, true, true, false, false, true, false)), EmptyString))))))))), (S
    (S (S (S O))))) :: (((EmptyString, (String ((Ascii (false, true, true,
    false, true, false, true, false)), (String ((Ascii (false, true, false,
    false, true, false, true, false)), (String ((Ascii (true, false, false,
    false, false, false, true, false)), (String ((Ascii (false, false, true,
    false, true, false, true, false)), (String ((Ascii (true, false, true,
    false, false, false, true, false)), EmptyString))))))))))), (S (S (S (S
    (S O)))))) :: (((EmptyString, (String ((Ascii (false, false, true, false,
    true, false, true, false)), (String ((Ascii (false, true, false, false,
    true, false, true, false)), (String ((Ascii (true, true, false, true,
    false, false, true, false)), EmptyString))))))), (S (S (S
    O)))) :: (((EmptyString, (String ((Ascii (false, false, false, true,
    false, false, true, false)), (String ((Ascii (false, false, true, false,
    false, false, true, false)), (String ((Ascii (true, true, true, false,
    false, false, true, false)), EmptyString))))))), (S (S (S
    O)))) :: (((EmptyString, (String ((Ascii (true, true, true, false, false,
    false, true, false)), (String ((Ascii (true, true, false, false, true,
    false, true, false)), (String ((Ascii (false, false, false, false, true,
    false, true, false)), EmptyString))))))), (S (S (S O)))) :: ((((String
    ((Ascii (true, true, false, false, true, true, true, false)), (String
    ((Ascii (false, false, false, false, true, true, true, false)), (String
    ((Ascii (true, false, true, false, false, true, true, false)), (String
    ((Ascii (true, false, true, false, false, true, true, false)), (String
    ((Ascii (false, false, true, false, false, true, true, false)),
    EmptyString)))))))))), (String ((Ascii (false, false, true, false, true,
    false, true, false)), (String ((Ascii (true, false, false, false, false,
    false, true, false)), (String ((Ascii (true, true, false, false, true,
    false, true, false)), EmptyString))))))), (S (S (S O)))) :: ((((String
    ((Ascii (true, true, false, false, true, true, true, false)), (String
    ((Ascii (false, false, false, false, true, true, true, false)), (String
    ((Ascii (true, false, true, false, false, true, true, false)), (String
    ((Ascii (true, false, true, false, false, true, true, false)), (String
    ((Ascii (false, false, true, false, false, true, true, false)),
    EmptyString)))))))))), (String ((Ascii (true, false, false, true, false,
    false, true, false)), (String ((Ascii (true, false, false, false, false,
    false, true, false)), (String ((Ascii (true, true, false, false, true,
    false, true, false)), EmptyString))))))), (S (S (S O)))) :: ((((String
    ((Ascii (true, true, false, false, true, true, true, false)), (String
    ((Ascii (false, false, false, false, true, true, true, false)), (String
    ((Ascii (true, false, true, false, false, true, true, false)), (String
    ((Ascii (true, false, true, false, false, true, true, false)), (String
    ((Ascii (false, false, true, false, false, true, true, false)),
    EmptyString)))))))))), (String ((Ascii (true, false, true, true, false,
    false, true, false)), (String ((Ascii (true, false, false, false, false,
    false, true, false)), (String ((Ascii (true, true, false, false, false,
    false, true, false)), (String ((Ascii (false, false, false, true, false,
    false, true, false)), EmptyString))))))))), (S (S (S (S
    O))))) :: ((((String ((Ascii (true, false, false, false, false, true,
    true, false)), (String ((Ascii (false, true, true, true, false, true,
    true, false)), (String ((Ascii (true, true, true, false, false, true,
    true, false)), (String ((Ascii (false, false, true, true, false, true,
    true, false)), (String ((Ascii (true, false, true, false, false, true,
    true, false)), (String ((Ascii (true, true, false, false, true, true,
    true, false)), EmptyString)))))))))))), (String ((Ascii (false, true,
    false, false, true, false, true, false)), (String ((Ascii (false, false,
    true, true, false, false, true, false)), (String ((Ascii (false, false,
    true, true, false, false, true, false)), EmptyString))))))), (S (S (S
    O)))) :: ((((String ((Ascii (true, false, false, false, false, true,
    true, false)), (String ((Ascii (false, true, true, true, false, true,
    true, false)), (String ((Ascii (true, true, true, false, false, true,
    true, false)), (String ((Ascii (false, false, true, true, false, true,
    true, false)), (String ((Ascii (true, false, true, false, false, true,
    true, false)), (String ((Ascii (true, true, false, false, true, true,
    true, false)), EmptyString)))))))))))), (String ((Ascii (false, false,
    true, false, true, false, true, false)), (String ((Ascii (true, false,
    false, false, false, false, true, false)), (String ((Ascii (false, true,
    false, false, true, false, true, false)), EmptyString))))))), (S (S (S
    O)))) :: ((((String ((Ascii (true, true, true, false, true, true, true,
    false)), (String ((Ascii (true, false, true, false, false, true, true,
    false)), (String ((Ascii (true, false, false, false, false, true, true,
    false)), (String ((Ascii (false, false, true, false, true, true, true,
    false)), (String ((Ascii (false, false, false, true, false, true, true,
    false)), (String ((Ascii (true, false, true, false, false, true, true,
    false)), (String ((Ascii (false, true, false, false, true, true, true,
    false)), EmptyString)))))))))))))), (String ((Ascii (false, false, true,
    false, true, false, true, false)), (String ((Ascii (true, false, true,
    false, false, false, true, false)), (String ((Ascii (true, false, true,
    true, false, false, true, false)), (String ((Ascii (false, false, false,
    false, true, false, true, false)), EmptyString))))))))), (S (S (S (S (S
    O)))))) :: ((((String ((Ascii (true, true, true, false, true, true, true,
    false)), (String ((Ascii (true, false, true, false, false, true, true,
    false)), (String ((Ascii (true, false, false, false, false, true, true,
    false)), (String ((Ascii (false, false, true, false, true, true, true,
    false)), (String ((Ascii (false, false, false, true, false, true, true,
    false)), (String ((Ascii (true, false, true, false, false, true, true,
    false)), (String ((Ascii (false, true, false, false, true, true, true,
    false)), EmptyString)))))))))))))), (String ((Ascii (true, true, true,
    false, true, false, true, false)), (String ((Ascii (false, true, true,
    true, false, false, true, false)), (String ((Ascii (false, false, true,
    false, false, false, true, false)), EmptyString))))))), (S (S (S
    O)))) :: ((((String ((Ascii (true, true, true, false, true, true, true,
    false)), (String ((Ascii (true, false, true, false, false, true, true,
    false)), (String ((Ascii (true, false, false, false, false, true, true,
    false)), (String ((Ascii (false, false, true, false, true, true, true,
    false)), (String ((Ascii (false, false, false, true, false, true, true,
    false)), (String ((Ascii (true, false, true, false, false, true, true,
    false)), (String ((Ascii (false, true, false, false, true, true, true,
    false)), EmptyString)))))))))))))), (String ((Ascii (true, true, true,
    false, true, false, true, false)), (String ((Ascii (false, false, true,
    false, false, false, true, false)), (String ((Ascii (false, true, false,
    false, true, false, true, false)), EmptyString))))))), (S (S (S
    O)))) :: ((((String ((Ascii (true, true, true, false, true, true, true,
    false)), (String ((Ascii (true, false, true, false, false, true, true,
    false)), (String ((Ascii (true, false, false, false, false, true, true,
    false)), (String ((Ascii (false, false, true, false, true, true, true,
    false)), (String ((Ascii (false, false, false, true, false, true, true,
    false)), (String ((Ascii (true, false, true, false, false, true, true,
    false)), (String ((Ascii (false, true, false, false, true, true, true,
    false)), EmptyString)))))))))))))), (String ((Ascii (false, false, false,
    true, false, false, true, false)), (String ((Ascii (true, false, true,
    false, true, false, true, false)), (String ((Ascii (true, false, true,
    true, false, false, true, false)), EmptyString))))))), (S (S (S
    O)))) :: ((((String ((Ascii (true, true, true, false, true, true, true,
    false)), (String ((Ascii (true, false, true, false, false, true, true,
    false)), (String ((Ascii (true, false, false, false, false, true, true,
    false)), (String ((Ascii (false, false, true, false, true, true, true,
    false)), (String ((Ascii (false, false, false, true, false, true, true,
    false)), (String ((Ascii (true, false, true, false, false, true, true,
    false)), (String ((Ascii (false, true, false, false, true, true, true,
    false)), EmptyString)))))))))))))), (String ((Ascii (false, false, false,
    false, true, false, true, false)), (String ((Ascii (false, true, false,
    false, true, false, true, false)), (String ((Ascii (true, false, true,
    false, false, false, true, false)), (String ((Ascii (true, true, false,
    false, true, false, true, false)), EmptyString))))))))), (S (S (S (S
    O))))) :: ((((String ((Ascii (true, true, true, false, true, true, true,
    false)), (String ((Ascii (true, false, true, false, false, true, true,
    false)), (String ((Ascii (true, false, false, false, false, true, true,
    false)), (String ((Ascii (false, false, true, false, true, true, true,
    false)), (String ((Ascii (false, false, false, true, false, true, true,
    false)), (String ((Ascii (true, false, true, false, false, true, true,
    false)), (String ((Ascii (false, true, false, false, true, true, true,
    false)), EmptyString)))))))))))))), (String ((Ascii (false, false, true,
    false, true, false, true, false)), (String ((Ascii (false, true, false,
    false, false, false, true, false)), EmptyString))))), (S (S
    O))) :: ((((String ((Ascii (true, false, true, false, false, true, true,
    false)), (String ((Ascii (false, false, false, true, true, true, true,
    false)), (String ((Ascii (false, false, true, false, true, true, true,
    false)), (String ((Ascii (false, true, false, false, true, true, true,
    false)), (String ((Ascii (true, false, false, false, false, true, true,
    false)), EmptyString)))))))))), (String ((Ascii (false, true, true,
    false, true, false, true, false)), (String ((Ascii (false, false, false,
    true, true, false, true, false)), EmptyString))))), (S (S
    O))) :: ((((String ((Ascii (true, false, true, false, false, true, true,
    false)), (String ((Ascii (false, false, false, true, true, true, true,
    false)), (String ((Ascii (false, false, true, false, true, true, true,
    false)), (String ((Ascii (false, true, false, false, true, true, true,
    false)), (String ((Ascii (true, false, false, false, false, true, true,
    false)), EmptyString)))))))))), (String ((Ascii (false, false, true,
    false, false, false, true, false)), (String ((Ascii (false, true, true,
    false, false, false, true, false)), EmptyString))))), (S (S
    O))) :: ((((String ((Ascii (true, false, true, false, false, true, true,
    false)), (String ((Ascii (false, false, false, true, true, true, true,
    false)), (String ((Ascii (false, false, true, false, true, true, true,
    false)), (String ((Ascii (false, true, false, false, true, true, true,
    false)), (String ((Ascii (true, false, false, false, false, true, true,
    false)), EmptyString)))))))))), (String ((Ascii (false, false, true,
    false, true, false, true, false)), (String ((Ascii (true, true, false,
    false, false, false, true, false)), EmptyString))))), (S (S
    O))) :: ((((String ((Ascii (true, false, true, false, false, true, true,
    false)), (String ((Ascii (false, false, false, true, true, true, true,
    false)), (String ((Ascii (false, false, true, false, true, true, true,
    false)), (String ((Ascii (false, true, false, false, true, true, true,
    false)), (String ((Ascii (true, false, false, false, false, true, true,
    false)), EmptyString)))))))))), (String ((Ascii (false, true, true,
    false, true, false, true, false)), EmptyString))), (S O)) :: ((((String
    ((Ascii (true, false, true, false, false, true, true, false)), (String
    ((Ascii (false, false, false, true, true, true, true, false)), (String
    ((Ascii (false, false, true, false, true, true, true, false)), (String
    ((Ascii (false, true, false, false, true, true, true, false)), (String
    ((Ascii (true, false, false, false, false, true, true, false)),
    EmptyString)))))))))), (String ((Ascii (true, true, false, false, true,
    false, true, false)), EmptyString))), (S O)) :: ((((String ((Ascii (true,
    false, true, false, false, true, true, false)), (String ((Ascii (false,
    false, false, true, true, true, true, false)), (String ((Ascii (false,
    false, true, false, true, true, true, false)), (String ((Ascii (false,
    true, false, false, true, true, true, false)), (String ((Ascii (true,
    false, false, false, false, true, true, false)), EmptyString)))))))))),
    (String ((Ascii (false, false, false, false, true, false, true, false)),
    (String ((Ascii (false, false, true, false, true, false, true, false)),
    (String ((Ascii (false, false, false, true, false, false, true, false)),
    EmptyString))))))), (S (S (S O)))) :: []))))))))))))))))))))))))))))))))

(** val header_tail : string **)

let header_tail =
  String ((Ascii (false, false, true, true, false, false, true, false)),
    (String ((Ascii (true, true, false, false, false, false, true, false)),
    EmptyString)))

(** val separator_tail : string **)

let separator_tail =
  String ((Ascii (true, false, true, true, false, true, false, false)),
    (String ((Ascii (true, false, true, true, false, true, false, false)),
    EmptyString)))

(** val wake_table : ((n * n) * n) list **)

let wake_table =
  (((Npos (XO (XO XH))), (Npos XH)), (Npos (XO (XO (XI (XI (XO (XO
    XH)))))))) :: ((((Npos (XO (XO XH))), (Npos (XO XH))), (Npos (XI (XI (XO
    (XO (XI (XO XH)))))))) :: ((((Npos (XO (XO XH))), (Npos (XI XH))), (Npos
    (XI (XO (XI (XI (XO (XO XH)))))))) :: ((((Npos (XO (XO XH))), (Npos (XO
    (XO XH)))), (Npos (XO (XO (XO (XI (XO (XO XH)))))))) :: ((((Npos (XO (XO
    XH))), (Npos (XI (XO XH)))), (Npos (XO (XI (XO (XI (XO (XO
    XH)))))))) :: ((((Npos (XO (XO XH))), (Npos (XI (XI XH)))), (Npos (XO (XI
    (XO (XO (XI (XO XH)))))))) :: [])))))

(** val ma_go : n list -> (nat * n) list -> n -> n -> n res **)

let rec ma_go m bs i acc =
  match bs with
  | [] -> Ok acc
  | p :: t ->
    let (by_, bi) = p in
    bind (idx m by_) (fun x ->
      ma_go m t (N.add i (Npos XH))
        (N.coq_lor acc
          (N.shiftl (N.coq_land (N.shiftr x bi) (Npos XH)) (N.sub ma_top i))))

(** val ma_code : n list -> n option res **)

let ma_code m =
  bind (ma_go m ma_bits N0 N0) (fun c -> Ok (Some c))

(** val me_code : n list -> n option res **)

let me_code m =
  bind
    (flag_and_range_value m (S (S (S (S (S (S (S (S (S (S (S (S (S (S (S (S
      (S (S (S (S (S (S (S (S (S (S (S (S (S (S (S (S (S (S (S (S (S (S (S (S
      (S (S (S (S (S (S (S (S
      O)))))))))))))))))))))))))))))))))))))))))))))))) (S (S (S (S (S (S (S
      (S (S (S (S (S (S (S (S (S (S (S (S (S (S (S (S (S (S (S (S (S (S (S (S
      (S (S (S (S (S (S (S (S (S (S
      O))))))))))))))))))))))))))))))))))))))))) (S (S (S (S (S (S (S (S (S
      (S (S (S (S (S (S (S (S (S (S (S (S (S (S (S (S (S (S (S (S (S (S (S (S
      (S (S (S (S (S (S (S (S (S (S (S (S (S (S (S (S (S (S (S
      O))))))))))))))))))))))))))))))))))))))))))))))))))))) (fun fv -> Ok
    (omap (fun pat ->
      let (f, v) = pat in
      N.modulo (N.coq_lor (N.shiftl v (Npos (XO XH))) f) (Npos (XO (XO (XO
        (XO (XO (XO (XO (XO (XO (XO (XO (XO (XO (XO (XO (XO
        XH)))))))))))))))))) fv))

(** val ebit : n -> n -> n **)

let ebit c k =
  N.coq_land (N.shiftr c k) (Npos XH)

(** val gray_loop : nat -> n -> n -> bool -> n -> n **)

let rec gray_loop k n0 mask0 cp result =
  match k with
  | O -> result
  | S k' ->
    let cp0 = if negb (N.eqb (N.coq_land n0 mask0) N0) then negb cp else cp in
    let result0 = if cp0 then N.coq_lor result mask0 else result in
    gray_loop k' n0 (N.shiftr mask0 (Npos XH)) cp0 result0

(** val graytobin : n list -> (n * n) res **)

let graytobin m =
  bind (ma_code m) (fun c ->
    match c with
    | Some code ->
      let n0 =
        N.coq_lor
          (N.shiftl (ebit code (Npos (XO (XO XH)))) (Npos (XO (XI (XO XH)))))
          (N.coq_lor
            (N.shiftl (ebit code (Npos (XO XH))) (Npos (XI (XO (XO XH)))))
            (N.coq_lor
              (N.shiftl (ebit code (Npos (XO (XO (XI XH))))) (Npos (XO (XO
                (XO XH)))))
              (N.coq_lor
                (N.shiftl (ebit code (Npos (XO (XI (XO XH))))) (Npos (XI (XI
                  XH))))
                (N.coq_lor
                  (N.shiftl (ebit code (Npos (XO (XO (XO XH))))) (Npos (XO
                    (XI XH))))
                  (N.coq_lor
                    (N.shiftl (ebit code (Npos (XI (XI XH)))) (Npos (XI (XO
                      XH))))
                    (N.coq_lor
                      (N.shiftl (ebit code (Npos (XI (XO XH)))) (Npos (XO (XO
                        XH))))
                      (N.coq_lor
                        (N.shiftl (ebit code (Npos (XI XH))) (Npos (XI XH)))
                        (N.coq_lor
                          (N.shiftl (ebit code (Npos (XI (XO (XI XH)))))
                            (Npos (XO XH)))
                          (N.coq_lor
                            (N.shiftl (ebit code (Npos (XI (XI (XO XH)))))
                              (Npos XH)) (ebit code (Npos (XI (XO (XI XH))))))))))))))
      in
      let result =
        gray_loop (S (S (S (S (S (S (S (S (S (S (S (S (S (S (S (S
          O)))))))))))))))) n0 (Npos (XO (XO (XO (XO (XO (XO (XO XH))))))))
          false N0
      in
      let sub0 = N.coq_land n0 (Npos (XI (XI XH))) in
      let high = N.shiftr result (Npos (XI XH)) in
      let low =
        if N.eqb (N.coq_land high (Npos XH)) N0
        then if N.eqb sub0 (Npos (XO (XO XH)))
             then Npos (XO (XO XH))
             else if N.eqb sub0 (Npos (XO (XI XH)))
                  then Npos (XI XH)
                  else if N.eqb sub0 (Npos (XI XH))
                       then Npos XH
                       else if N.eqb sub0 (Npos (XO XH))
                            then Npos (XO XH)
                            else N0
        else if N.eqb sub0 (Npos XH)
             then Npos (XO (XO XH))
             else if N.eqb sub0 (Npos (XI XH))
                  then Npos (XI XH)
                  else if N.eqb sub0 (Npos (XO (XI XH)))
                       then Npos XH
                       else if N.eqb sub0 (Npos (XO XH))
                            then Npos (XO XH)
                            else N0
      in
      Ok (high, low)
    | None -> Ok (N0, N0))

(** val f32_mul031_trunc : n -> n **)

let f32_mul031_trunc x =
  let p =
    N.mul x (Npos (XO (XI (XO (XO (XI (XO (XI (XO (XO (XO (XO (XI (XI (XI (XO
      (XI (XO (XI (XI (XI (XI (XO (XO XH))))))))))))))))))))))))
  in
  if N.eqb p N0
  then N0
  else let e = N.log2 p in
       let r =
         if N.leb e (Npos (XI (XI (XI (XO XH)))))
         then p
         else let sh = N.sub e (Npos (XI (XI (XI (XO XH))))) in
              let q0 = N.shiftr p sh in
              let rem0 = N.modulo p (N.pow (Npos (XO XH)) sh) in
              let half = N.pow (Npos (XO XH)) (N.sub sh (Npos XH)) in
              let q1 =
                if (||) (N.ltb half rem0) ((&&) (N.eqb rem0 half) (N.odd q0))
                then N.add q0 (Npos XH)
                else q0
              in
              N.shiftl q1 sh
       in
       N.shiftr r (Npos (XI (XO (XO (XI XH)))))

(** val altitude_value : n list -> n option -> n option res **)

let altitude_value m = function
| Some code0 ->
  if N.eqb (N.coq_land code0 (Npos (XO XH))) N0
  then if N.eqb (N.coq_land code0 (Npos XH)) N0
       then if N.eqb (N.shiftr code0 (Npos (XO XH))) N0
            then Ok None
            else bind (graytobin m) (fun pat ->
                   let (high, low) = pat in
                   let value =
                     N.add
                       (N.mul high (Npos (XO (XO (XI (XO (XI (XI (XI (XI
                         XH))))))))))
                       (N.mul low (Npos (XO (XO (XI (XO (XO (XI XH))))))))
                   in
                   if N.leb (Npos (XO (XO (XO (XO (XI (XI (XO (XI (XO (XO
                        XH))))))))))) value
                   then Ok (Some
                          (N.sub value (Npos (XO (XO (XO (XO (XI (XI (XO (XI
                            (XO (XO XH)))))))))))))
                   else Ok None)
       else let n0 =
              N.coq_lor
                (N.shiftl (N.shiftr code0 (Npos (XI (XI XH)))) (Npos (XO (XO
                  XH))))
                (N.coq_land (N.shiftr code0 (Npos (XO XH))) (Npos (XI (XI (XI
                  XH)))))
            in
            if N.leb (Npos (XO (XO (XO (XI (XO (XI (XI (XI (XI XH))))))))))
                 (N.mul n0 (Npos (XI (XO (XO (XI XH))))))
            then Ok (Some
                   (N.sub (N.mul n0 (Npos (XI (XO (XO (XI XH)))))) (Npos (XO
                     (XO (XO (XI (XO (XI (XI (XI (XI XH))))))))))))
            else Ok None
  else let n0 =
         N.coq_lor
           (N.coq_land
             (N.shiftl (N.shiftr code0 (Npos (XI (XI XH)))) (Npos (XO (XO
               XH)))) (Npos (XO (XO (XO (XO (XI (XI (XI (XI (XI (XI
             XH))))))))))))
           (N.coq_land (N.shiftr code0 (Npos (XO XH))) (Npos (XI (XI (XI
             XH)))))
       in
       Ok (Some (f32_mul031_trunc n0))
| None -> Ok None

(** val altitude : n list -> n -> n option res **)

let altitude m df =
  bind
    (if N.eqb df (Npos (XI (XO (XO (XO XH))))) then me_code m else ma_code m)
    (fun code ->
    bind (altitude_value m code) (fun a -> Ok
      (ofilter (fun a0 ->
        N.ltb a0 (Npos (XO (XO (XO (XO (XO (XI (XO (XI (XO (XI (XI (XO (XO
          (XO (XO (XI XH)))))))))))))))))) a)))

(** val squawk_of_code : n -> n **)

let squawk_of_code code =
  N.add
    (N.add
      (N.add
        (N.mul
          (N.coq_lor
            (N.shiftl (ebit code (Npos (XO (XO (XO XH))))) (Npos (XO XH)))
            (N.coq_lor
              (N.shiftl (ebit code (Npos (XO (XI (XO XH))))) (Npos XH))
              (ebit code (Npos (XO (XO (XI XH))))))) (Npos (XO (XO (XO (XI
          (XO (XI (XI (XI (XI XH)))))))))))
        (N.mul
          (N.coq_lor (N.shiftl (ebit code (Npos (XI XH))) (Npos (XO XH)))
            (N.coq_lor (N.shiftl (ebit code (Npos (XI (XO XH)))) (Npos XH))
              (ebit code (Npos (XI (XI XH)))))) (Npos (XO (XO (XI (XO (XO (XI
          XH)))))))))
      (N.mul
        (N.coq_lor
          (N.shiftl (ebit code (Npos (XI (XO (XO XH))))) (Npos (XO XH)))
          (N.coq_lor
            (N.shiftl (ebit code (Npos (XI (XI (XO XH))))) (Npos XH))
            (ebit code (Npos (XI (XO (XI XH))))))) (Npos (XO (XI (XO XH))))))
    (N.coq_lor (N.shiftl (ebit code (Npos (XO XH))) (Npos (XO XH)))
      (N.coq_lor (N.shiftl (ebit code (Npos (XO (XO XH)))) (Npos XH))
        (ebit code (Npos (XO (XI XH))))))

(** val squawk : n list -> n option res **)

let squawk m =
  bind (ma_code m) (fun c -> Ok (omap squawk_of_code c))

(** val ia5 : n -> n **)

let ia5 ch =
  if (&&) (N.leb (Npos (XO (XO (XO (XO (XI XH)))))) ch)
       (N.leb ch (Npos (XI (XO (XO (XI (XI XH)))))))
  then ch
  else if (&&) (N.leb (Npos XH) ch) (N.leb ch (Npos (XO (XI (XO (XI XH))))))
       then N.coq_lor ch (Npos (XO (XO (XO (XO (XO (XO XH)))))))
       else Npos (XO (XO (XO (XO (XO XH)))))

(** val ais : n list -> n list option res **)

let ais m =
  bind (idx m (S (S (S (S (S (S (S (S (S (S O))))))))))) (fun m10 ->
    bind (idx m (S (S (S (S (S (S (S (S (S (S (S O)))))))))))) (fun m11 ->
      bind (idx m (S (S (S (S (S (S (S (S (S (S (S (S O)))))))))))))
        (fun m12 ->
        bind (idx m (S (S (S (S (S (S (S (S (S (S (S (S (S O))))))))))))))
          (fun m13 ->
          bind
            (idx m (S (S (S (S (S (S (S (S (S (S (S (S (S (S O)))))))))))))))
            (fun m14 ->
            bind
              (idx m (S (S (S (S (S (S (S (S (S (S (S (S (S (S (S
                O)))))))))))))))) (fun m15 ->
              bind
                (idx m (S (S (S (S (S (S (S (S (S (S (S (S (S (S (S (S
                  O))))))))))))))))) (fun m16 ->
                bind
                  (idx m (S (S (S (S (S (S (S (S (S (S (S (S (S (S (S (S (S
                    O)))))))))))))))))) (fun m17 ->
                  bind
                    (idx m (S (S (S (S (S (S (S (S (S (S (S (S (S (S (S (S (S
                      (S O))))))))))))))))))) (fun m18 ->
                    bind
                      (idx m (S (S (S (S (S (S (S (S (S (S (S (S (S (S (S (S
                        (S (S (S O)))))))))))))))))))) (fun m19 ->
                      bind
                        (idx m (S (S (S (S (S (S (S (S (S (S (S (S (S (S (S
                          (S (S (S (S (S O))))))))))))))))))))) (fun m20 ->
                        bind
                          (idx m (S (S (S (S (S (S (S (S (S (S (S (S (S (S (S
                            (S (S (S (S (S (S O))))))))))))))))))))))
                          (fun m21 ->
                          let cs =
                            (N.coq_lor (N.shiftl m10 (Npos (XO XH)))
                              (N.shiftr m11 (Npos (XO XH)))) :: ((N.coq_lor
                                                                   (N.shiftl
                                                                    (N.coq_land
                                                                    m11 (Npos
                                                                    (XI XH)))
                                                                    (Npos (XO
                                                                    (XO XH))))
                                                                   m12) :: (
                            (N.coq_lor (N.shiftl m13 (Npos (XO XH)))
                              (N.shiftr m14 (Npos (XO XH)))) :: ((N.coq_lor
                                                                   (N.shiftl
                                                                    (N.coq_land
                                                                    m14 (Npos
                                                                    (XI XH)))
                                                                    (Npos (XO
                                                                    (XO XH))))
                                                                   m15) :: (
                            (N.coq_lor (N.shiftl m16 (Npos (XO XH)))
                              (N.shiftr m17 (Npos (XO XH)))) :: ((N.coq_lor
                                                                   (N.shiftl
                                                                    (N.coq_land
                                                                    m17 (Npos
                                                                    (XI XH)))
                                                                    (Npos (XO
                                                                    (XO XH))))
                                                                   m18) :: (
                            (N.coq_lor (N.shiftl m19 (Npos (XO XH)))
                              (N.shiftr m20 (Npos (XO XH)))) :: ((N.coq_lor
                                                                   (N.shiftl
                                                                    (N.coq_land
                                                                    m20 (Npos
                                                                    (XI XH)))
                                                                    (Npos (XO
                                                                    (XO XH))))
                                                                   m21) :: [])))))))
                          in
                          Ok (Some
                          (filter (fun c ->
                            negb (N.eqb c (Npos (XO (XO (XO (XO (XO XH))))))))
                            (map ia5 cs)))))))))))))))

(** val wake_lookup : ((n * n) * n) list -> (n * n) -> n option **)

let rec wake_lookup t vc =
  match t with
  | [] -> None
  | p :: t' ->
    let (p0, c) = p in
    let (a, b) = p0 in
    if (&&) (N.eqb a (fst vc)) (N.eqb b (snd vc))
    then Some c
    else wake_lookup t' vc

(** val get_wake_turbulence_category : (n * n) -> n option **)

let get_wake_turbulence_category vc =
  wake_lookup wake_table vc

(** val threat_encounter : n list -> n option res **)

let threat_encounter m =
  bind (idx m (S (S (S (S (S (S (S (S (S (S (S (S (S (S O)))))))))))))))
    (fun m14 ->
    bind (idx m (S (S (S (S (S (S (S (S (S (S O))))))))))) (fun m10 ->
      if N.eqb (N.coq_land m14 (Npos XH)) (Npos XH)
      then Ok (Some (Npos (XO (XI (XO (XO (XI (XI (XI (XO (XO (XO (XO (XO (XO
             XH)))))))))))))))
      else if N.eqb (N.coq_land (N.shiftr m10 (Npos (XI XH))) (Npos XH))
                (Npos XH)
           then Ok (Some (Npos (XI (XO (XO (XO (XI (XI (XI (XO (XO (XO (XO
                  (XO (XO XH)))))))))))))))
           else Ok None))

(** val surveillance_status : n list -> n res **)

let surveillance_status m =
  bind (idx m (S (S (S (S (S (S (S (S (S O)))))))))) (fun m9 ->
    let v = N.shiftr (N.coq_land m9 (Npos (XI (XI XH)))) (Npos XH) in
    Ok
    (if N.eqb v N0
     then Npos (XO (XI (XI (XI (XO (XO XH))))))
     else if N.eqb v (Npos XH)
          then Npos (XO (XO (XO (XO (XI (XO XH))))))
          else if N.eqb v (Npos (XO XH))
               then Npos (XO (XO (XI (XO (XI (XO XH))))))
               else if N.eqb v (Npos (XI XH))
                    then Npos (XI (XI (XO (XO (XI (XO XH))))))
                    else Npos (XO (XO (XO (XO (XO XH)))))))

(** val version : n list -> n option res **)

let version m =
  range_value m (S (S (S (S (S (S (S (S (S (S (S (S (S (S (S (S (S (S (S (S
    (S (S (S (S (S (S (S (S (S (S (S (S (S (S (S (S (S (S (S (S (S (S (S (S
    (S (S (S (S (S (S (S (S (S (S (S (S (S (S (S (S (S (S (S (S (S (S (S (S
    (S (S (S (S (S
    O)))))))))))))))))))))))))))))))))))))))))))))))))))))))))))))))))))))))))
    (S (S (S (S (S (S (S (S (S (S (S (S (S (S (S (S (S (S (S (S (S (S (S (S
    (S (S (S (S (S (S (S (S (S (S (S (S (S (S (S (S (S (S (S (S (S (S (S (S
    (S (S (S (S (S (S (S (S (S (S (S (S (S (S (S (S (S (S (S (S (S (S (S (S
    (S (S (S
    O)))))))))))))))))))))))))))))))))))))))))))))))))))))))))))))))))))))))))))

(** val vertical_rate : n list -> z option res **)

let vertical_rate m =
  bind
    (flag_and_range_value m (S (S (S (S (S (S (S (S (S (S (S (S (S (S (S (S
      (S (S (S (S (S (S (S (S (S (S (S (S (S (S (S (S (S (S (S (S (S (S (S (S
      (S (S (S (S (S (S (S (S (S (S (S (S (S (S (S (S (S (S (S (S (S (S (S (S
      (S (S (S (S (S
      O)))))))))))))))))))))))))))))))))))))))))))))))))))))))))))))))))))))
      (S (S (S (S (S (S (S (S (S (S (S (S (S (S (S (S (S (S (S (S (S (S (S (S
      (S (S (S (S (S (S (S (S (S (S (S (S (S (S (S (S (S (S (S (S (S (S (S (S
      (S (S (S (S (S (S (S (S (S (S (S (S (S (S (S (S (S (S (S (S (S (S
      O))))))))))))))))))))))))))))))))))))))))))))))))))))))))))))))))))))))
      (S (S (S (S (S (S (S (S (S (S (S (S (S (S (S (S (S (S (S (S (S (S (S (S
      (S (S (S (S (S (S (S (S (S (S (S (S (S (S (S (S (S (S (S (S (S (S (S (S
      (S (S (S (S (S (S (S (S (S (S (S (S (S (S (S (S (S (S (S (S (S (S (S (S
      (S (S (S (S (S (S
      O)))))))))))))))))))))))))))))))))))))))))))))))))))))))))))))))))))))))))))))))
    (fun fv ->
    match ofilter (fun pat -> let (_, v) = pat in negb (N.eqb v N0)) fv with
    | Some p ->
      let (sign, value) = p in
      bind (u32_sub value (Npos XH)) (fun v1 ->
        let v = Z.of_N (N.shiftl v1 (Npos (XO (XI XH)))) in
        Ok (Some (if N.eqb sign (Npos XH) then Z.opp v else v)))
    | None -> Ok None)

(** val altitude_delta : n list -> z option res **)

let altitude_delta m =
  bind
    (flag_and_range_value m (S (S (S (S (S (S (S (S (S (S (S (S (S (S (S (S
      (S (S (S (S (S (S (S (S (S (S (S (S (S (S (S (S (S (S (S (S (S (S (S (S
      (S (S (S (S (S (S (S (S (S (S (S (S (S (S (S (S (S (S (S (S (S (S (S (S
      (S (S (S (S (S (S (S (S (S (S (S (S (S (S (S (S (S
      O)))))))))))))))))))))))))))))))))))))))))))))))))))))))))))))))))))))))))))))))))
      (S (S (S (S (S (S (S (S (S (S (S (S (S (S (S (S (S (S (S (S (S (S (S (S
      (S (S (S (S (S (S (S (S (S (S (S (S (S (S (S (S (S (S (S (S (S (S (S (S
      (S (S (S (S (S (S (S (S (S (S (S (S (S (S (S (S (S (S (S (S (S (S (S (S
      (S (S (S (S (S (S (S (S (S (S
      O))))))))))))))))))))))))))))))))))))))))))))))))))))))))))))))))))))))))))))))))))
      (S (S (S (S (S (S (S (S (S (S (S (S (S (S (S (S (S (S (S (S (S (S (S (S
      (S (S (S (S (S (S (S (S (S (S (S (S (S (S (S (S (S (S (S (S (S (S (S (S
      (S (S (S (S (S (S (S (S (S (S (S (S (S (S (S (S (S (S (S (S (S (S (S (S
      (S (S (S (S (S (S (S (S (S (S (S (S (S (S (S (S
      O)))))))))))))))))))))))))))))))))))))))))))))))))))))))))))))))))))))))))))))))))))))))))
    (fun fv -> Ok
    (omap (fun pat ->
      let (sign, value) = pat in
      if N.eqb sign (Npos XH)
      then Z.mul (Z.opp (Z.of_N value)) (Zpos (XI (XO (XO (XI XH)))))
      else Z.mul (Z.of_N value) (Zpos (XI (XO (XO (XI XH))))))
      (ofilter (fun pat -> let (_, v) = pat in negb (N.eqb v N0)) fv)))

(** val altitude_gnss : n list -> n option res **)

let altitude_gnss m =
  range_value m (S (S (S (S (S (S (S (S (S (S (S (S (S (S (S (S (S (S (S (S
    (S (S (S (S (S (S (S (S (S (S (S (S (S (S (S (S (S (S (S (S (S (S (S (S
    (S (S (S (S (S O))))))))))))))))))))))))))))))))))))))))))))))))) (S (S
    (S (S (S (S (S (S (S (S (S (S (S (S (S (S (S (S (S (S (S (S (S (S (S (S
    (S (S (S (S (S (S (S (S (S (S (S (S (S (S (S (S (S (S (S (S (S (S (S (S
    (S (S (S (S (S (S (S (S (S (S
    O))))))))))))))))))))))))))))))))))))))))))))))))))))))))))))

(** val ground_movement : n list -> q option res **)

let ground_movement m =
  bind
    (range_value m (S (S (S (S (S (S (S (S (S (S (S (S (S (S (S (S (S (S (S
      (S (S (S (S (S (S (S (S (S (S (S (S (S (S (S (S (S (S (S
      O)))))))))))))))))))))))))))))))))))))) (S (S (S (S (S (S (S (S (S (S
      (S (S (S (S (S (S (S (S (S (S (S (S (S (S (S (S (S (S (S (S (S (S (S (S
      (S (S (S (S (S (S (S (S (S (S
      O))))))))))))))))))))))))))))))))))))))))))))) (fun v -> Ok
    (match v with
     | Some v0 ->
       let z0 = Z.of_N v0 in
       if N.eqb v0 (Npos XH)
       then Some { qnum = Z0; qden = XH }
       else if (&&) (N.leb (Npos (XO XH)) v0)
                 (N.leb v0 (Npos (XO (XO (XO XH)))))
            then Some { qnum = z0; qden = (XO (XO (XO XH))) }
            else if (&&) (N.leb (Npos (XI (XO (XO XH)))) v0)
                      (N.leb v0 (Npos (XO (XO (XI XH)))))
                 then Some { qnum = z0; qden = (XO (XO XH)) }
                 else if (&&) (N.leb (Npos (XI (XO (XI XH)))) v0)
                           (N.leb v0 (Npos (XO (XI (XI (XO (XO XH)))))))
                      then Some { qnum = z0; qden = (XO XH) }
                      else if (&&)
                                (N.leb (Npos (XI (XI (XI (XO (XO XH)))))) v0)
                                (N.leb v0 (Npos (XI (XO (XI (XI (XI (XO
                                  XH))))))))
                           then Some { qnum = z0; qden = XH }
                           else if (&&)
                                     (N.leb (Npos (XO (XI (XI (XI (XI (XO
                                       XH))))))) v0)
                                     (N.leb v0 (Npos (XO (XO (XI (XI (XO (XI
                                       XH))))))))
                                then Some { qnum = (Z.mul z0 (Zpos (XO XH)));
                                       qden = XH }
                                else if (&&)
                                          (N.leb (Npos (XI (XO (XI (XI (XO
                                            (XI XH))))))) v0)
                                          (N.leb v0 (Npos (XI (XI (XO (XI (XI
                                            (XI XH))))))))
                                     then Some { qnum =
                                            (Z.mul z0 (Zpos (XI (XO XH))));
                                            qden = XH }
                                     else if N.eqb v0 (Npos (XO (XO (XI (XI
                                               (XI (XI XH)))))))
                                          then Some { qnum = (Zpos (XI (XI
                                                 (XI (XI (XO (XI (XO
                                                 XH)))))))); qden = XH }
                                          else None
     | None -> None))

(** val ground_track : n list -> n option res **)

let ground_track m =
  bind
    (flag_and_range_value m (S (S (S (S (S (S (S (S (S (S (S (S (S (S (S (S
      (S (S (S (S (S (S (S (S (S (S (S (S (S (S (S (S (S (S (S (S (S (S (S (S
      (S (S (S (S (S O))))))))))))))))))))))))))))))))))))))))))))) (S (S (S
      (S (S (S (S (S (S (S (S (S (S (S (S (S (S (S (S (S (S (S (S (S (S (S (S
      (S (S (S (S (S (S (S (S (S (S (S (S (S (S (S (S (S (S (S
      O)))))))))))))))))))))))))))))))))))))))))))))) (S (S (S (S (S (S (S (S
      (S (S (S (S (S (S (S (S (S (S (S (S (S (S (S (S (S (S (S (S (S (S (S (S
      (S (S (S (S (S (S (S (S (S (S (S (S (S (S (S (S (S (S (S (S
      O))))))))))))))))))))))))))))))))))))))))))))))))))))) (fun fv -> Ok
    (omap (fun pat ->
      let (_, v) = pat in
      N.shiftr (N.mul v (Npos (XO (XO (XO (XI (XO (XI (XI (XO XH))))))))))
        (Npos (XI (XI XH))))
      (ofilter (fun pat -> let (f, _) = pat in N.eqb f (Npos XH)) fv)))

(** val heading : n list -> n option res **)

let heading m =
  range_value m (S (S (S (S (S (S (S (S (S (S (S (S (S (S (S (S (S (S (S (S
    (S (S (S (S (S (S (S (S (S (S (S (S (S (S (S (S (S (S (S (S (S (S (S (S
    (S (S (S O))))))))))))))))))))))))))))))))))))))))))))))) (S (S (S (S (S
    (S (S (S (S (S (S (S (S (S (S (S (S (S (S (S (S (S (S (S (S (S (S (S (S
    (S (S (S (S (S (S (S (S (S (S (S (S (S (S (S (S (S (S (S (S (S (S (S (S
    (S (S (S O))))))))))))))))))))))))))))))))))))))))))))))))))))))))

(** val tan_den : z **)

let tan_den =
  Zpos (XO (XO (XO (XO (XO (XO (XO (XO (XO (XO (XO (XO (XO (XO (XO (XI (XO
    (XI (XI (XO (XO (XO (XI (XI (XO (XO (XI (XO (XO (XI (XO (XI (XO (XI (XI
    (XI (XI (XI (XI (XO (XI (XO (XI (XI (XO (XO (XO (XI (XI
    XH)))))))))))))))))))))))))))))))))))))))))))))))))

(** val tan_table : (z * z) list **)

let tan_table =
  ((Zpos (XI (XO (XO (XI (XI (XO (XI (XI (XI (XI (XI (XI (XO (XO (XI (XI (XI
    (XO (XO (XO (XI (XI (XI (XI (XO (XI (XO (XO (XI (XO (XO (XO (XO (XO (XO
    (XO (XO (XI (XI (XI (XI (XI (XI
    XH)))))))))))))))))))))))))))))))))))))))))))), (Zpos (XO (XI (XO (XI (XI
    (XO (XI (XI (XI (XI (XI (XI (XO (XO (XI (XI (XI (XO (XO (XO (XI (XI (XI
    (XI (XO (XI (XO (XO (XI (XO (XO (XO (XO (XO (XO (XO (XO (XI (XI (XI (XI
    (XI (XI XH))))))))))))))))))))))))))))))))))))))))))))) :: (((Zpos (XI
    (XI (XO (XO (XO (XI (XO (XO (XI (XI (XO (XO (XI (XO (XO (XI (XI (XI (XI
    (XI (XO (XO (XO (XO (XO (XO (XO (XO (XO (XI (XO (XI (XO (XI (XO (XO (XO
    (XO (XI (XI (XI (XI (XI (XI
    XH))))))))))))))))))))))))))))))))))))))))))))), (Zpos (XO (XO (XI (XO
    (XO (XI (XO (XO (XI (XI (XO (XO (XI (XO (XO (XI (XI (XI (XI (XI (XO (XO
    (XO (XO (XO (XO (XO (XO (XO (XI (XO (XI (XO (XI (XO (XO (XO (XO (XI (XI
    (XI (XI (XI (XI
    XH)))))))))))))))))))))))))))))))))))))))))))))) :: (((Zpos (XI (XO (XO
    (XO (XO (XI (XI (XO (XO (XO (XO (XO (XI (XO (XI (XO (XI (XO (XO (XO (XI
    (XO (XO (XO (XI (XI (XO (XO (XO (XI (XO (XO (XO (XI (XO (XI (XO (XI (XO
    (XI (XI (XI (XI (XI (XO XH)))))))))))))))))))))))))))))))))))))))))))))),
    (Zpos (XO (XI (XO (XO (XO (XI (XI (XO (XO (XO (XO (XO (XI (XO (XI (XO (XI
    (XO (XO (XO (XI (XO (XO (XO (XI (XI (XO (XO (XO (XI (XO (XO (XO (XI (XO
    (XI (XO (XI (XO (XI (XI (XI (XI (XI (XO
    XH))))))))))))))))))))))))))))))))))))))))))))))) :: (((Zpos (XO (XI (XI
    (XO (XI (XO (XI (XO (XO (XI (XO (XO (XO (XO (XI (XO (XI (XO (XO (XI (XO
    (XO (XI (XI (XO (XI (XO (XI (XI (XO (XO (XO (XI (XO (XO (XI (XI (XO (XO
    (XI (XI (XI (XI (XI (XI XH)))))))))))))))))))))))))))))))))))))))))))))),
    (Zpos (XI (XI (XI (XO (XI (XO (XI (XO (XO (XI (XO (XO (XO (XO (XI (XO (XI
    (XO (XO (XI (XO (XO (XI (XI (XO (XI (XO (XI (XI (XO (XO (XO (XI (XO (XO
    (XI (XI (XO (XO (XI (XI (XI (XI (XI (XI
    XH))))))))))))))))))))))))))))))))))))))))))))))) :: (((Zpos (XO (XO (XI
    (XO (XO (XI (XO (XO (XO (XI (XO (XI (XI (XO (XO (XO (XO (XI (XI (XO (XI
    (XI (XO (XI (XO (XI (XO (XI (XO (XO (XO (XO (XO (XI (XO (XO (XI (XO (XO
    (XI (XI (XI (XI (XI (XO (XO
    XH))))))))))))))))))))))))))))))))))))))))))))))), (Zpos (XI (XO (XI (XO
    (XO (XI (XO (XO (XO (XI (XO (XI (XI (XO (XO (XO (XO (XI (XI (XO (XI (XI
    (XO (XI (XO (XI (XO (XI (XO (XO (XO (XO (XO (XI (XO (XO (XI (XO (XO (XI
    (XI (XI (XI (XI (XO (XO
    XH)))))))))))))))))))))))))))))))))))))))))))))))) :: (((Zpos (XO (XO (XI
    (XI (XO (XO (XO (XI (XO (XI (XI (XI (XI (XI (XI (XO (XI (XI (XO (XI (XI
    (XO (XO (XI (XO (XO (XI (XI (XI (XI (XI (XO (XI (XI (XI (XO (XI (XO (XO
    (XI (XI (XI (XI (XI (XI (XO
    XH))))))))))))))))))))))))))))))))))))))))))))))), (Zpos (XI (XO (XI (XI
    (XO (XO (XO (XI (XO (XI (XI (XI (XI (XI (XI (XO (XI (XI (XO (XI (XI (XO
    (XO (XI (XO (XO (XI (XI (XI (XI (XI (XO (XI (XI (XI (XO (XI (XO (XO (XI
    (XI (XI (XI (XI (XI (XO
    XH)))))))))))))))))))))))))))))))))))))))))))))))) :: (((Zpos (XO (XO (XO
    (XI (XI (XI (XI (XI (XO (XI (XO (XO (XI (XI (XI (XI (XO (XI (XO (XO (XO
    (XI (XO (XO (XO (XI (XO (XO (XO (XO (XO (XO (XO (XO (XI (XI (XO (XI (XO
    (XI (XI (XI (XI (XI (XO (XI
    XH))))))))))))))))))))))))))))))))))))))))))))))), (Zpos (XI (XO (XO (XI
    (XI (XI (XI (XI (XO (XI (XO (XO (XI (XI (XI (XI (XO (XI (XO (XO (XO (XI
    (XO (XO (XO (XI (XO (XO (XO (XO (XO (XO (XO (XO (XI (XI (XO (XI (XO (XI
    (XI (XI (XI (XI (XO (XI
    XH)))))))))))))))))))))))))))))))))))))))))))))))) :: (((Zpos (XI (XI (XI
    (XO (XI (XI (XO (XO (XO (XO (XI (XO (XO (XI (XI (XO (XI (XI (XI (XO (XO
    (XO (XO (XI (XO (XI (XI (XO (XI (XI (XO (XO (XO (XI (XO (XO (XI (XO (XI
    (XI (XI (XI (XI (XI (XI (XI
    XH))))))))))))))))))))))))))))))))))))))))))))))), (Zpos (XO (XO (XO (XI
    (XI (XI (XO (XO (XO (XO (XI (XO (XO (XI (XI (XO (XI (XI (XI (XO (XO (XO
    (XO (XI (XO (XI (XI (XO (XI (XI (XO (XO (XO (XI (XO (XO (XI (XO (XI (XI
    (XI (XI (XI (XI (XI (XI
    XH)))))))))))))))))))))))))))))))))))))))))))))))) :: (((Zpos (XO (XO (XO
    (XI (XI (XI (XO (XI (XI (XO (XO (XO (XI (XI (XO (XI (XI (XO (XI (XI (XO
    (XO (XI (XO (XO (XO (XO (XO (XO (XO (XI (XI (XO (XO (XI (XI (XO (XO (XO
    (XO (XO (XO (XO (XO (XI (XO (XO
    XH)))))))))))))))))))))))))))))))))))))))))))))))), (Zpos (XI (XO (XO (XI
    (XI (XI (XO (XI (XI (XO (XO (XO (XI (XI (XO (XI (XI (XO (XI (XI (XO (XO
    (XI (XO (XO (XO (XO (XO (XO (XO (XI (XI (XO (XO (XI (XI (XO (XO (XO (XO
    (XO (XO (XO (XO (XI (XO (XO
    XH))))))))))))))))))))))))))))))))))))))))))))))))) :: (((Zpos (XO (XO
    (XO (XO (XI (XI (XI (XO (XO (XO (XO (XI (XO (XI (XO (XI (XO (XO (XI (XI
    (XO (XO (XO (XO (XI (XI (XO (XO (XI (XO (XI (XO (XO (XI (XI (XI (XI (XO
    (XI (XO (XO (XO (XO (XO (XO (XI (XO
    XH)))))))))))))))))))))))))))))))))))))))))))))))), (Zpos (XI (XO (XO (XO
    (XI (XI (XI (XO (XO (XO (XO (XI (XO (XI (XO (XI (XO (XO (XI (XI (XO (XO
    (XO (XO (XI (XI (XO (XO (XI (XO (XI (XO (XO (XI (XI (XI (XI (XO (XI (XO
    (XO (XO (XO (XO (XO (XI (XO
    XH))))))))))))))))))))))))))))))))))))))))))))))))) :: (((Zpos (XO (XI
    (XI (XO (XI (XI (XO (XO (XI (XO (XO (XI (XO (XO (XO (XO (XI (XI (XI (XO
    (XO (XO (XI (XO (XI (XO (XO (XO (XI (XI (XO (XI (XI (XO (XO (XI (XO (XO
    (XI (XI (XO (XO (XO (XO (XI (XI (XO
    XH)))))))))))))))))))))))))))))))))))))))))))))))), (Zpos (XI (XI (XI (XO
    (XI (XI (XO (XO (XI (XO (XO (XI (XO (XO (XO (XO (XI (XI (XI (XO (XO (XO
    (XI (XO (XI (XO (XO (XO (XI (XI (XO (XI (XI (XO (XO (XI (XO (XO (XI (XI
    (XO (XO (XO (XO (XI (XI (XO
    XH))))))))))))))))))))))))))))))))))))))))))))))))) :: (((Zpos (XO (XI
    (XI (XO (XO (XO (XO (XI (XI (XI (XI (XI (XI (XO (XI (XO (XO (XI (XO (XI
    (XI (XO (XI (XO (XO (XI (XI (XI (XO (XI (XO (XI (XI (XO (XO (XO (XI (XO
    (XI (XO (XI (XO (XO (XO (XO (XO (XI
    XH)))))))))))))))))))))))))))))))))))))))))))))))), (Zpos (XI (XI (XI (XO
    (XO (XO (XO (XI (XI (XI (XI (XI (XI (XO (XI (XO (XO (XI (XO (XI (XI (XO
    (XI (XO (XO (XI (XI (XI (XO (XI (XO (XI (XI (XO (XO (XO (XI (XO (XI (XO
    (XI (XO (XO (XO (XO (XO (XI
    XH))))))))))))))))))))))))))))))))))))))))))))))))) :: (((Zpos (XI (XI
    (XO (XI (XI (XI (XO (XO (XO (XO (XO (XO (XO (XI (XO (XI (XI (XO (XI (XO
    (XO (XO (XO (XI (XO (XO (XO (XO (XI (XI (XO (XO (XI (XO (XO (XI (XI (XI
    (XI (XI (XI (XO (XO (XO (XI (XO (XI
    XH)))))))))))))))))))))))))))))))))))))))))))))))), (Zpos (XO (XO (XI (XI
    (XI (XI (XO (XO (XO (XO (XO (XO (XO (XI (XO (XI (XI (XO (XI (XO (XO (XO
    (XO (XI (XO (XO (XO (XO (XI (XI (XO (XO (XI (XO (XO (XI (XI (XI (XI (XI
    (XI (XO (XO (XO (XI (XO (XI
    XH))))))))))))))))))))))))))))))))))))))))))))))))) :: (((Zpos (XO (XO
    (XI (XI (XO (XI (XO (XO (XO (XI (XO (XO (XO (XO (XI (XI (XO (XI (XO (XI
    (XO (XO (XO (XO (XI (XI (XO (XO (XI (XI (XO (XO (XI (XI (XO (XO (XO (XO
    (XI (XI (XO (XI (XO (XO (XO (XI (XI
    XH)))))))))))))))))))))))))))))))))))))))))))))))), (Zpos (XI (XO (XI (XI
    (XO (XI (XO (XO (XO (XI (XO (XO (XO (XO (XI (XI (XO (XI (XO (XI (XO (XO
    (XO (XO (XI (XI (XO (XO (XI (XI (XO (XO (XI (XI (XO (XO (XO (XO (XI (XI
    (XO (XI (XO (XO (XO (XI (XI
    XH))))))))))))))))))))))))))))))))))))))))))))))))) :: (((Zpos (XO (XI
    (XO (XO (XI (XO (XO (XO (XO (XI (XI (XO (XO (XO (XI (XI (XO (XI (XI (XI
    (XO (XI (XI (XO (XO (XO (XO (XI (XO (XO (XI (XI (XO (XI (XO (XO (XI (XI
    (XO (XI (XI (XI (XO (XO (XI (XI (XI
    XH)))))))))))))))))))))))))))))))))))))))))))))))), (Zpos (XI (XI (XO (XO
    (XI (XO (XO (XO (XO (XI (XI (XO (XO (XO (XI (XI (XO (XI (XI (XI (XO (XI
    (XI (XO (XO (XO (XO (XI (XO (XO (XI (XI (XO (XI (XO (XO (XI (XI (XO (XI
    (XI (XI (XO (XO (XI (XI (XI
    XH))))))))))))))))))))))))))))))))))))))))))))))))) :: (((Zpos (XI (XI
    (XI (XO (XI (XO (XI (XO (XO (XO (XO (XO (XI (XI (XI (XI (XI (XI (XO (XI
    (XI (XO (XI (XI (XO (XO (XI (XI (XI (XO (XO (XO (XI (XI (XO (XI (XO (XO
    (XI (XI (XO (XO (XI (XO (XO (XO (XO (XO
    XH))))))))))))))))))))))))))))))))))))))))))))))))), (Zpos (XO (XO (XO
    (XI (XI (XO (XI (XO (XO (XO (XO (XO (XI (XI (XI (XI (XI (XI (XO (XI (XI
    (XO (XI (XI (XO (XO (XI (XI (XI (XO (XO (XO (XI (XI (XO (XI (XO (XO (XI
    (XI (XO (XO (XI (XO (XO (XO (XO (XO
    XH)))))))))))))))))))))))))))))))))))))))))))))))))) :: (((Zpos (XO (XO
    (XI (XO (XO (XI (XI (XI (XI (XI (XI (XI (XO (XO (XI (XO (XO (XI (XO (XI
    (XO (XI (XO (XI (XO (XO (XO (XI (XI (XI (XI (XO (XI (XI (XI (XI (XO (XO
    (XO (XO (XO (XI (XI (XO (XI (XO (XO (XO
    XH))))))))))))))))))))))))))))))))))))))))))))))))), (Zpos (XI (XO (XI
    (XO (XO (XI (XI (XI (XI (XI (XI (XI (XO (XO (XI (XO (XO (XI (XO (XI (XO
    (XI (XO (XI (XO (XO (XO (XI (XI (XI (XI (XO (XI (XI (XI (XI (XO (XO (XO
    (XO (XO (XI (XI (XO (XI (XO (XO (XO
    XH)))))))))))))))))))))))))))))))))))))))))))))))))) :: (((Zpos (XO (XI
    (XO (XI (XO (XO (XI (XI (XI (XO (XO (XO (XI (XO (XO (XO (XI (XI (XO (XO
    (XI (XO (XO (XO (XI (XI (XO (XO (XO (XO (XI (XO (XI (XI (XO (XO (XO (XO
    (XO (XI (XI (XI (XI (XO (XO (XI (XO (XO
    XH))))))))))))))))))))))))))))))))))))))))))))))))), (Zpos (XI (XI (XO
    (XI (XO (XO (XI (XI (XI (XO (XO (XO (XI (XO (XO (XO (XI (XI (XO (XO (XI
    (XO (XO (XO (XI (XI (XO (XO (XO (XO (XI (XO (XI (XI (XO (XO (XO (XO (XO
    (XI (XI (XI (XI (XO (XO (XI (XO (XO
    XH)))))))))))))))))))))))))))))))))))))))))))))))))) :: (((Zpos (XI (XO
    (XO (XO (XO (XO (XI (XI (XO (XO (XI (XO (XI (XO (XO (XI (XI (XI (XO (XO
    (XI (XO (XO (XO (XI (XO (XI (XO (XO (XO (XO (XO (XO (XI (XO (XI (XO (XI
    (XO (XO (XI (XO (XO (XI (XI (XI (XO (XO
    XH))))))))))))))))))))))))))))))))))))))))))))))))), (Zpos (XO (XI (XO
    (XO (XO (XO (XI (XI (XO (XO (XI (XO (XI (XO (XO (XI (XI (XI (XO (XO (XI
    (XO (XO (XO (XI (XO (XI (XO (XO (XO (XO (XO (XO (XI (XO (XI (XO (XI (XO
    (XO (XI (XO (XO (XI (XI (XI (XO (XO
    XH)))))))))))))))))))))))))))))))))))))))))))))))))) :: (((Zpos (XO (XI
    (XO (XI (XI (XO (XI (XO (XO (XI (XO (XO (XI (XI (XO (XI (XI (XO (XI (XO
    (XO (XO (XO (XI (XO (XO (XI (XI (XO (XI (XI (XO (XI (XI (XI (XO (XO (XO
    (XO (XO (XI (XI (XO (XI (XO (XO (XI (XO
    XH))))))))))))))))))))))))))))))))))))))))))))))))), (Zpos (XI (XI (XO
    (XI (XI (XO (XI (XO (XO (XI (XO (XO (XI (XI (XO (XI (XI (XO (XI (XO (XO
    (XO (XO (XI (XO (XO (XI (XI (XO (XI (XI (XO (XI (XI (XI (XO (XO (XO (XO
    (XO (XI (XI (XO (XI (XO (XO (XI (XO
    XH)))))))))))))))))))))))))))))))))))))))))))))))))) :: (((Zpos (XI (XI
    (XI (XO (XI (XO (XO (XO (XI (XO (XO (XI (XO (XO (XI (XO (XI (XI (XO (XO
    (XI (XI (XI (XO (XI (XI (XI (XI (XO (XO (XI (XO (XI (XI (XI (XI (XI (XO
    (XO (XO (XI (XO (XI (XI (XI (XO (XI (XO
    XH))))))))))))))))))))))))))))))))))))))))))))))))), (Zpos (XO (XO (XO
    (XI (XI (XO (XO (XO (XI (XO (XO (XI (XO (XO (XI (XO (XI (XI (XO (XO (XI
    (XI (XI (XO (XI (XI (XI (XI (XO (XO (XI (XO (XI (XI (XI (XI (XI (XO (XO
    (XO (XI (XO (XI (XI (XI (XO (XI (XO
    XH)))))))))))))))))))))))))))))))))))))))))))))))))) :: (((Zpos (XO (XO
    (XI (XO (XI (XO (XO (XI (XO (XO (XI (XI (XI (XI (XO (XI (XI (XI (XO (XI
    (XO (XI (XO (XI (XI (XI (XI (XI (XO (XI (XO (XI (XI (XO (XI (XO (XI (XI
    (XI (XO (XI (XI (XI (XI (XO (XI (XI (XO
    XH))))))))))))))))))))))))))))))))))))))))))))))))), (Zpos (XI (XO (XI
    (XO (XI (XO (XO (XI (XO (XO (XI (XI (XI (XI (XO (XI (XI (XI (XO (XI (XO
    (XI (XO (XI (XI (XI (XI (XI (XO (XI (XO (XI (XI (XO (XI (XO (XI (XI (XI
    (XO (XI (XI (XI (XI (XO (XI (XI (XO
    XH)))))))))))))))))))))))))))))))))))))))))))))))))) :: (((Zpos (XO (XO
    (XI (XO (XO (XO (XI (XI (XO (XI (XO (XO (XO (XI (XI (XI (XO (XI (XO (XO
    (XO (XI (XO (XI (XO (XI (XI (XI (XI (XI (XO (XI (XO (XI (XI (XI (XO (XO
    (XO (XO (XO (XI (XO (XO (XO (XO (XO (XI
    XH))))))))))))))))))))))))))))))))))))))))))))))))), (Zpos (XI (XO (XI
    (XO (XO (XO (XI (XI (XO (XI (XO (XO (XO (XI (XI (XI (XO (XI (XO (XO (XO
    (XI (XO (XI (XO (XI (XI (XI (XI (XI (XO (XI (XO (XI (XI (XI (XO (XO (XO
    (XO (XO (XI (XO (XO (XO (XO (XO (XI
    XH)))))))))))))))))))))))))))))))))))))))))))))))))) :: (((Zpos (XO (XO
    (XO (XI (XI (XI (XI (XO (XO (XI (XO (XO (XI (XI (XO (XI (XI (XO (XO (XO
    (XO (XI (XO (XI (XI (XO (XO (XO (XO (XI (XI (XI (XO (XI (XI (XI (XO (XI
    (XI (XI (XO (XO (XI (XO (XI (XO (XO (XI
    XH))))))))))))))))))))))))))))))))))))))))))))))))), (Zpos (XI (XO (XO
    (XI (XI (XI (XI (XO (XO (XI (XO (XO (XI (XI (XO (XI (XI (XO (XO (XO (XO
    (XI (XO (XI (XI (XO (XO (XO (XO (XI (XI (XI (XO (XI (XI (XI (XO (XI (XI
    (XI (XO (XO (XI (XO (XI (XO (XO (XI
    XH)))))))))))))))))))))))))))))))))))))))))))))))))) :: (((Zpos (XO (XI
    (XI (XO (XI (XI (XI (XI (XI (XI (XO (XO (XO (XO (XO (XO (XO (XI (XO (XO
    (XI (XO (XI (XO (XO (XI (XI (XO (XI (XI (XO (XI (XO (XI (XO (XI (XI (XO
    (XO (XO (XO (XO (XO (XI (XO (XI (XO (XI
    XH))))))))))))))))))))))))))))))))))))))))))))))))), (Zpos (XI (XI (XI
    (XO (XI (XI (XI (XI (XI (XI (XO (XO (XO (XO (XO (XO (XO (XI (XO (XO (XI
    (XO (XI (XO (XO (XI (XI (XO (XI (XI (XO (XI (XO (XI (XO (XI (XI (XO (XO
    (XO (XO (XO (XO (XI (XO (XI (XO (XI
    XH)))))))))))))))))))))))))))))))))))))))))))))))))) :: (((Zpos (XI (XO
    (XI (XO (XO (XI (XI (XO (XI (XO (XI (XO (XI (XO (XI (XI (XI (XI (XI (XI
    (XO (XI (XO (XI (XI (XI (XI (XO (XI (XO (XO (XO (XI (XI (XI (XO (XI (XO
    (XO (XI (XI (XI (XO (XI (XI (XI (XO (XI
    XH))))))))))))))))))))))))))))))))))))))))))))))))), (Zpos (XO (XI (XI
    (XO (XO (XI (XI (XO (XI (XO (XI (XO (XI (XO (XI (XI (XI (XI (XI (XI (XO
    (XI (XO (XI (XI (XI (XI (XO (XI (XO (XO (XO (XI (XI (XI (XO (XI (XO (XO
    (XI (XI (XI (XO (XI (XI (XI (XO (XI
    XH)))))))))))))))))))))))))))))))))))))))))))))))))) :: (((Zpos (XO (XO
    (XI (XI (XI (XO (XO (XI (XI (XI (XI (XI (XO (XO (XI (XI (XI (XI (XO (XI
    (XO (XI (XI (XO (XI (XI (XO (XO (XO (XI (XO (XO (XI (XO (XO (XI (XO (XI
    (XI (XO (XI (XI (XI (XI (XO (XO (XI (XI
    XH))))))))))))))))))))))))))))))))))))))))))))))))), (Zpos (XI (XO (XI
    (XI (XI (XO (XO (XI (XI (XI (XI (XI (XO (XO (XI (XI (XI (XI (XO (XI (XO
    (XI (XI (XO (XI (XI (XO (XO (XO (XI (XO (XO (XI (XO (XO (XI (XO (XI (XI
    (XO (XI (XI (XI (XI (XO (XO (XI (XI
    XH)))))))))))))))))))))))))))))))))))))))))))))))))) :: (((Zpos (XO (XI
    (XI (XO (XO (XI (XO (XI (XI (XI (XO (XO (XO (XO (XI (XO (XO (XO (XI (XI
    (XO (XO (XI (XI (XI (XI (XI (XI (XI (XI (XO (XO (XO (XI (XI (XO (XI (XO
    (XO (XI (XI (XI (XO (XO (XO (XI (XI (XI
    XH))))))))))))))))))))))))))))))))))))))))))))))))), (Zpos (XI (XI (XI
    (XO (XO (XI (XO (XI (XI (XI (XO (XO (XO (XO (XI (XO (XO (XO (XI (XI (XO
    (XO (XI (XI (XI (XI (XI (XI (XI (XI (XO (XO (XO (XI (XI (XO (XI (XO (XO
    (XI (XI (XI (XO (XO (XO (XI (XI (XI
    XH)))))))))))))))))))))))))))))))))))))))))))))))))) :: (((Zpos (XO (XO
    (XO (XO (XO (XI (XI (XO (XI (XO (XI (XI (XO (XO (XO (XI (XI (XI (XO (XI
    (XI (XO (XO (XO (XO (XI (XO (XO (XO (XI (XO (XO (XO (XO (XI (XO (XO (XI
    (XO (XO (XO (XO (XO (XI (XI (XI (XI (XI
    XH))))))))))))))))))))))))))))))))))))))))))))))))), (Zpos (XI (XO (XO
    (XO (XO (XI (XI (XO (XI (XO (XI (XI (XO (XO (XO (XI (XI (XI (XO (XI (XI
    (XO (XO (XO (XO (XI (XO (XO (XO (XI (XO (XO (XO (XO (XI (XO (XO (XI (XO
    (XO (XO (XO (XO (XI (XI (XI (XI (XI
    XH)))))))))))))))))))))))))))))))))))))))))))))))))) :: (((Zpos (XI (XO
    (XO (XI (XI (XI (XI (XI (XI (XO (XI (XI (XI (XI (XO (XI (XO (XO (XI (XO
    (XI (XI (XO (XI (XI (XO (XI (XO (XI (XO (XI (XI (XO (XO (XO (XI (XI (XO
    (XO (XO (XI (XO (XI (XI (XO (XO (XO (XO (XO
    XH)))))))))))))))))))))))))))))))))))))))))))))))))), (Zpos (XO (XI (XO
    (XI (XI (XI (XI (XI (XI (XO (XI (XI (XI (XI (XO (XI (XO (XO (XI (XO (XI
    (XI (XO (XI (XI (XO (XI (XO (XI (XO (XI (XI (XO (XO (XO (XI (XI (XO (XO
    (XO (XI (XO (XI (XI (XO (XO (XO (XO (XO
    XH))))))))))))))))))))))))))))))))))))))))))))))))))) :: (((Zpos (XO (XO
    (XO (XI (XO (XI (XI (XO (XO (XO (XI (XO (XI (XI (XO (XI (XI (XO (XO (XO
    (XO (XO (XI (XI (XI (XI (XO (XO (XO (XO (XI (XI (XO (XI (XO (XI (XI (XI
    (XI (XO (XO (XI (XO (XO (XO (XI (XO (XO (XO
    XH)))))))))))))))))))))))))))))))))))))))))))))))))), (Zpos (XI (XO (XO
    (XI (XO (XI (XI (XO (XO (XO (XI (XO (XI (XI (XO (XI (XI (XO (XO (XO (XO
    (XO (XI (XI (XI (XI (XO (XO (XO (XO (XI (XI (XO (XI (XO (XI (XI (XI (XI
    (XO (XO (XI (XO (XO (XO (XI (XO (XO (XO
    XH))))))))))))))))))))))))))))))))))))))))))))))))))) :: (((Zpos (XI (XI
    (XI (XI (XO (XO (XI (XI (XI (XI (XI (XO (XO (XI (XI (XO (XO (XO (XO (XO
    (XO (XO (XI (XI (XI (XI (XO (XI (XI (XI (XO (XI (XO (XO (XO (XO (XI (XO
    (XI (XO (XO (XO (XO (XI (XI (XI (XO (XO (XO
    XH)))))))))))))))))))))))))))))))))))))))))))))))))), (Zpos (XO (XO (XO
    (XO (XI (XO (XI (XI (XI (XI (XI (XO (XO (XI (XI (XO (XO (XO (XO (XO (XO
    (XO (XI (XI (XI (XI (XO (XI (XI (XI (XO (XI (XO (XO (XO (XO (XI (XO (XI
    (XO (XO (XO (XO (XI (XI (XI (XO (XO (XO
    XH))))))))))))))))))))))))))))))))))))))))))))))))))) :: (((Zpos (XO (XI
    (XI (XO (XO (XO (XI (XI (XI (XI (XI (XI (XO (XI (XO (XO (XO (XO (XO (XI
    (XO (XI (XI (XI (XO (XO (XI (XI (XI (XI (XI (XI (XI (XO (XO (XO (XO (XI
    (XO (XI (XO (XI (XI (XI (XO (XO (XI (XO (XO
    XH)))))))))))))))))))))))))))))))))))))))))))))))))), (Zpos (XI (XI (XI
    (XO (XO (XO (XI (XI (XI (XI (XI (XI (XO (XI (XO (XO (XO (XO (XO (XI (XO
    (XI (XI (XI (XO (XO (XI (XI (XI (XI (XI (XI (XI (XO (XO (XO (XO (XI (XO
    (XI (XO (XI (XI (XI (XO (XO (XI (XO (XO
    XH))))))))))))))))))))))))))))))))))))))))))))))))))) :: (((Zpos (XO (XI
    (XO (XI (XI (XI (XO (XI (XI (XI (XO (XI (XI (XO (XI (XO (XI (XI (XO (XI
    (XO (XO (XO (XI (XO (XO (XO (XO (XO (XO (XI (XO (XO (XI (XI (XO (XI (XI
    (XI (XO (XI (XO (XI (XO (XO (XI (XI (XO (XO
    XH)))))))))))))))))))))))))))))))))))))))))))))))))), (Zpos (XI (XI (XO
    (XI (XI (XI (XO (XI (XI (XI (XO (XI (XI (XO (XI (XO (XI (XI (XO (XI (XO
    (XO (XO (XI (XO (XO (XO (XO (XO (XO (XI (XO (XO (XI (XI (XO (XI (XI (XI
    (XO (XI (XO (XI (XO (XO (XI (XI (XO (XO
    XH))))))))))))))))))))))))))))))))))))))))))))))))))) :: (((Zpos (XI (XO
    (XI (XI (XO (XI (XO (XI (XI (XI (XO (XO (XO (XO (XO (XI (XI (XO (XI (XO
    (XI (XO (XO (XI (XI (XO (XI (XO (XO (XO (XI (XI (XI (XO (XI (XO (XI (XO
    (XI (XI (XO (XO (XI (XI (XI (XI (XI (XO (XO
    XH)))))))))))))))))))))))))))))))))))))))))))))))))), (Zpos (XO (XI (XI
    (XI (XO (XI (XO (XI (XI (XI (XO (XO (XO (XO (XO (XI (XI (XO (XI (XO (XI
    (XO (XO (XI (XI (XO (XI (XO (XO (XO (XI (XI (XI (XO (XI (XO (XI (XO (XI
    (XI (XO (XO (XI (XI (XI (XI (XI (XO (XO
    XH))))))))))))))))))))))))))))))))))))))))))))))))))) :: (((Zpos (XO (XO
    (XO (XO (XI (XI (XI (XI (XO (XO (XI (XO (XO (XO (XI (XI (XI (XI (XO (XI
    (XO (XO (XI (XO (XI (XO (XI (XI (XI (XO (XI (XO (XI (XO (XO (XI (XO (XO
    (XI (XI (XO (XO (XI (XO (XI (XO (XO (XI (XO
    XH)))))))))))))))))))))))))))))))))))))))))))))))))), (Zpos (XI (XO (XO
    (XO (XI (XI (XI (XI (XO (XO (XI (XO (XO (XO (XI (XI (XI (XI (XO (XI (XO
    (XO (XI (XO (XI (XO (XI (XI (XI (XO (XI (XO (XI (XO (XO (XI (XO (XO (XI
    (XI (XO (XO (XI (XO (XI (XO (XO (XI (XO
    XH))))))))))))))))))))))))))))))))))))))))))))))))))) :: (((Zpos (XO (XI
    (XO (XI (XO (XO (XO (XO (XO (XI (XI (XO (XI (XI (XO (XI (XI (XO (XO (XI
    (XI (XI (XI (XO (XI (XO (XO (XI (XI (XI (XI (XO (XO (XI (XO (XI (XI (XO
    (XI (XO (XI (XO (XI (XI (XO (XI (XO (XI (XO
    XH)))))))))))))))))))))))))))))))))))))))))))))))))), (Zpos (XI (XI (XO
    (XI (XO (XO (XO (XO (XO (XI (XI (XO (XI (XI (XO (XI (XI (XO (XO (XI (XI
    (XI (XI (XO (XI (XO (XO (XI (XI (XI (XI (XO (XO (XI (XO (XI (XI (XO (XI
    (XO (XI (XO (XI (XI (XO (XI (XO (XI (XO
    XH))))))))))))))))))))))))))))))))))))))))))))))))))) :: (((Zpos (XI (XO
    (XI (XI (XI (XO (XI (XI (XI (XO (XI (XI (XO (XI (XI (XO (XO (XO (XI (XI
    (XI (XI (XO (XO (XO (XO (XI (XI (XI (XI (XO (XO (XI (XI (XO (XO (XI (XO
    (XO (XI (XO (XI (XI (XO (XO (XO (XI (XI (XO
    XH)))))))))))))))))))))))))))))))))))))))))))))))))), (Zpos (XO (XI (XI
    (XI (XI (XO (XI (XI (XI (XO (XI (XI (XO (XI (XI (XO (XO (XO (XI (XI (XI
    (XI (XO (XO (XO (XO (XI (XI (XI (XI (XO (XO (XI (XI (XO (XO (XI (XO (XO
    (XI (XO (XI (XI (XO (XO (XO (XI (XI (XO
    XH))))))))))))))))))))))))))))))))))))))))))))))))))) :: (((Zpos (XI (XI
    (XI (XI (XI (XI (XI (XI (XI (XI (XO (XO (XI (XI (XO (XI (XO (XO (XI (XO
    (XO (XI (XO (XI (XI (XO (XO (XI (XO (XO (XO (XI (XO (XI (XI (XI (XI (XI
    (XI (XO (XO (XO (XO (XO (XO (XI (XI (XI (XO
    XH)))))))))))))))))))))))))))))))))))))))))))))))))), (Zpos (XO (XO (XO
    (XO (XO (XO (XO (XO (XO (XO (XI (XO (XI (XI (XO (XI (XO (XO (XI (XO (XO
    (XI (XO (XI (XI (XO (XO (XI (XO (XO (XO (XI (XO (XI (XI (XI (XI (XI (XI
    (XO (XO (XO (XO (XO (XO (XI (XI (XI (XO
    XH))))))))))))))))))))))))))))))))))))))))))))))))))) :: (((Zpos (XO (XO
    (XO (XO (XO (XO (XI (XO (XO (XI (XI (XI (XO (XO (XO (XI (XO (XI (XO (XO
    (XI (XI (XI (XO (XI (XI (XO (XI (XI (XO (XO (XO (XO (XO (XO (XI (XO (XI
    (XO (XO (XI (XI (XO (XI (XI (XI (XI (XI (XO
    XH)))))))))))))))))))))))))))))))))))))))))))))))))), (Zpos (XI (XO (XO
    (XO (XO (XO (XI (XO (XO (XI (XI (XI (XO (XO (XO (XI (XO (XI (XO (XO (XI
    (XI (XI (XO (XI (XI (XO (XI (XI (XO (XO (XO (XO (XO (XO (XI (XO (XI (XO
    (XO (XI (XI (XO (XI (XI (XI (XI (XI (XO
    XH))))))))))))))))))))))))))))))))))))))))))))))))))) :: (((Zpos (XO (XI
    (XO (XO (XO (XI (XO (XI (XO (XI (XO (XI (XO (XI (XO (XO (XI (XI (XI (XO
    (XI (XI (XO (XO (XI (XI (XI (XO (XI (XO (XO (XI (XO (XO (XI (XI (XI (XO
    (XO (XI (XO (XI (XI (XO (XI (XO (XO (XO (XI
    XH)))))))))))))))))))))))))))))))))))))))))))))))))), (Zpos (XI (XI (XO
    (XO (XO (XI (XO (XI (XO (XI (XO (XI (XO (XI (XO (XO (XI (XI (XI (XO (XI
    (XI (XO (XO (XI (XI (XI (XO (XI (XO (XO (XI (XO (XO (XI (XI (XI (XO (XO
    (XI (XO (XI (XI (XO (XI (XO (XO (XO (XI
    XH))))))))))))))))))))))))))))))))))))))))))))))))))) :: (((Zpos (XI (XI
    (XI (XI (XO (XI (XI (XO (XO (XI (XI (XO (XI (XI (XI (XI (XO (XI (XI (XO
    (XI (XI (XO (XO (XI (XI (XI (XO (XO (XI (XO (XI (XI (XO (XO (XI (XO (XI
    (XI (XI (XO (XI (XO (XO (XI (XI (XO (XO (XI
    XH)))))))))))))))))))))))))))))))))))))))))))))))))), (Zpos (XO (XO (XO
    (XO (XI (XI (XI (XO (XO (XI (XI (XO (XI (XI (XI (XI (XO (XI (XI (XO (XI
    (XI (XO (XO (XI (XI (XI (XO (XO (XI (XO (XI (XI (XO (XO (XI (XO (XI (XI
    (XI (XO (XI (XO (XO (XI (XI (XO (XO (XI
    XH))))))))))))))))))))))))))))))))))))))))))))))))))) :: (((Zpos (XI (XO
    (XI (XI (XI (XI (XO (XO (XI (XO (XO (XI (XI (XI (XI (XI (XO (XO (XI (XO
    (XI (XI (XI (XO (XO (XI (XI (XO (XI (XO (XO (XO (XO (XI (XI (XI (XI (XO
    (XO (XO (XO (XO (XO (XO (XI (XO (XI (XO (XI
    XH)))))))))))))))))))))))))))))))))))))))))))))))))), (Zpos (XO (XI (XI
    (XI (XI (XI (XO (XO (XI (XO (XO (XI (XI (XI (XI (XI (XO (XO (XI (XO (XI
    (XI (XI (XO (XO (XI (XI (XO (XI (XO (XO (XO (XO (XI (XI (XI (XI (XO (XO
    (XO (XO (XO (XO (XO (XI (XO (XI (XO (XI
    XH))))))))))))))))))))))))))))))))))))))))))))))))))) :: (((Zpos (XO (XI
    (XO (XO (XO (XI (XO (XO (XO (XI (XI (XI (XO (XO (XI (XI (XO (XI (XO (XO
    (XO (XI (XI (XO (XO (XO (XO (XO (XI (XI (XI (XI (XI (XO (XO (XI (XO (XO
    (XI (XO (XO (XI (XI (XI (XO (XI (XI (XO (XI
    XH)))))))))))))))))))))))))))))))))))))))))))))))))), (Zpos (XI (XI (XO
    (XO (XO (XI (XO (XO (XO (XI (XI (XI (XO (XO (XI (XI (XO (XI (XO (XO (XO
    (XI (XI (XO (XO (XO (XO (XO (XI (XI (XI (XI (XI (XO (XO (XI (XO (XO (XI
    (XO (XO (XI (XI (XI (XO (XI (XI (XO (XI
    XH))))))))))))))))))))))))))))))))))))))))))))))))))) :: (((Zpos (XO (XO
    (XO (XO (XO (XO (XO (XO (XO (XO (XO (XO (XO (XO (XO (XI (XO (XI (XI (XO
    (XO (XO (XI (XI (XO (XO (XI (XO (XO (XI (XO (XI (XO (XI (XI (XI (XI (XI
    (XI (XO (XI (XO (XI (XI (XO (XO (XO (XI (XI
    XH)))))))))))))))))))))))))))))))))))))))))))))))))), (Zpos (XI (XO (XO
    (XO (XO (XO (XO (XO (XO (XO (XO (XO (XO (XO (XO (XI (XO (XI (XI (XO (XO
    (XO (XI (XI (XO (XO (XI (XO (XO (XI (XO (XI (XO (XI (XI (XI (XI (XI (XI
    (XO (XI (XO (XI (XI (XO (XO (XO (XI (XI
    XH))))))))))))))))))))))))))))))))))))))))))))))))))) :: (((Zpos (XI (XO
    (XO (XI (XO (XI (XI (XO (XO (XO (XI (XO (XI (XI (XI (XI (XI (XO (XO (XO
    (XO (XO (XO (XI (XO (XO (XO (XO (XI (XI (XO (XO (XI (XI (XI (XI (XO (XO
    (XI (XI (XI (XO (XI (XI (XO (XI (XO (XI (XI
    XH)))))))))))))))))))))))))))))))))))))))))))))))))), (Zpos (XO (XI (XO
    (XI (XO (XI (XI (XO (XO (XO (XI (XO (XI (XI (XI (XI (XI (XO (XO (XO (XO
    (XO (XO (XI (XO (XO (XO (XO (XI (XI (XO (XO (XI (XI (XI (XI (XO (XO (XI
    (XI (XI (XO (XI (XI (XO (XI (XO (XI (XI
    XH))))))))))))))))))))))))))))))))))))))))))))))))))) :: (((Zpos (XO (XI
    (XO (XI (XO (XI (XI (XI (XI (XO (XI (XI (XI (XI (XI (XO (XI (XI (XI (XO
    (XO (XO (XO (XO (XO (XO (XI (XI (XO (XO (XI (XO (XO (XO (XO (XO (XI (XO
    (XI (XO (XI (XI (XI (XI (XO (XO (XI (XI (XI
    XH)))))))))))))))))))))))))))))))))))))))))))))))))), (Zpos (XI (XI (XO
    (XI (XO (XI (XI (XI (XI (XO (XI (XI (XI (XI (XI (XO (XI (XI (XI (XO (XO
    (XO (XO (XO (XO (XO (XI (XI (XO (XO (XI (XO (XO (XO (XO (XO (XI (XO (XI
    (XO (XI (XI (XI (XI (XO (XO (XI (XI (XI
    XH))))))))))))))))))))))))))))))))))))))))))))))))))) :: (((Zpos (XO (XO
    (XO (XI (XO (XO (XO (XI (XI (XI (XO (XO (XI (XI (XI (XI (XI (XO (XI (XI
    (XO (XI (XI (XO (XO (XO (XO (XO (XO (XI (XO (XI (XO (XO (XO (XI (XI (XO
    (XO (XO (XO (XI (XO (XO (XI (XI (XI (XI (XI
    XH)))))))))))))))))))))))))))))))))))))))))))))))))), (Zpos (XI (XO (XO
    (XI (XO (XO (XO (XI (XI (XI (XO (XO (XI (XI (XI (XI (XI (XO (XI (XI (XO
    (XI (XI (XO (XO (XO (XO (XO (XO (XI (XO (XI (XO (XO (XO (XI (XI (XO (XO
    (XO (XO (XI (XO (XO (XI (XI (XI (XI (XI
    XH))))))))))))))))))))))))))))))))))))))))))))))))))) :: (((Zpos (XI (XO
    (XO (XO (XI (XO (XO (XO (XI (XI (XO (XO (XI (XI (XI (XI (XI (XO (XI (XO
    (XO (XO (XI (XO (XO (XO (XI (XO (XO (XO (XO (XO (XI (XO (XO (XO (XO (XO
    (XI (XO (XO (XI (XI (XO (XI (XO (XO (XO (XO (XO
    XH))))))))))))))))))))))))))))))))))))))))))))))))))), (Zpos (XO (XI (XO
    (XO (XI (XO (XO (XO (XI (XI (XO (XO (XI (XI (XI (XI (XI (XO (XI (XO (XO
    (XO (XI (XO (XO (XO (XI (XO (XO (XO (XO (XO (XI (XO (XO (XO (XO (XO (XI
    (XO (XO (XI (XI (XO (XI (XO (XO (XO (XO (XO
    XH)))))))))))))))))))))))))))))))))))))))))))))))))))) :: (((Zpos (XI (XO
    (XO (XO (XO (XI (XO (XO (XI (XI (XI (XI (XI (XO (XI (XI (XI (XI (XO (XI
    (XO (XO (XO (XI (XI (XO (XO (XO (XO (XO (XI (XI (XO (XO (XI (XO (XO (XI
    (XI (XI (XI (XI (XO (XI (XI (XI (XO (XO (XO (XO
    XH))))))))))))))))))))))))))))))))))))))))))))))))))), (Zpos (XO (XI (XO
    (XO (XO (XI (XO (XO (XI (XI (XI (XI (XI (XO (XI (XI (XI (XI (XO (XI (XO
    (XO (XO (XI (XI (XO (XO (XO (XO (XO (XI (XI (XO (XO (XI (XO (XO (XI (XI
    (XI (XI (XI (XO (XI (XI (XI (XO (XO (XO (XO
    XH)))))))))))))))))))))))))))))))))))))))))))))))))))) :: (((Zpos (XI (XI
    (XO (XI (XO (XO (XO (XO (XI (XI (XO (XO (XI (XI (XI (XO (XI (XO (XO (XI
    (XI (XO (XI (XO (XO (XI (XI (XO (XO (XI (XI (XI (XI (XO (XO (XO (XO (XI
    (XO (XO (XI (XI (XO (XO (XO (XI (XI (XO (XO (XO
    XH))))))))))))))))))))))))))))))))))))))))))))))))))), (Zpos (XO (XO (XI
    (XI (XO (XO (XO (XO (XI (XI (XO (XO (XI (XI (XI (XO (XI (XO (XO (XI (XI
    (XO (XI (XO (XO (XI (XI (XO (XO (XI (XI (XI (XI (XO (XO (XO (XO (XI (XO
    (XO (XI (XI (XO (XO (XO (XI (XI (XO (XO (XO
    XH)))))))))))))))))))))))))))))))))))))))))))))))))))) :: (((Zpos (XO (XI
    (XI (XO (XI (XI (XO (XO (XO (XI (XO (XO (XI (XI (XI (XI (XI (XO (XO (XO
    (XI (XO (XI (XO (XO (XI (XO (XO (XO (XI (XO (XI (XI (XO (XO (XI (XI (XO
    (XO (XO (XO (XO (XI (XI (XO (XO (XO (XI (XO (XO
    XH))))))))))))))))))))))))))))))))))))))))))))))))))), (Zpos (XI (XI (XI
    (XO (XI (XI (XO (XO (XO (XI (XO (XO (XI (XI (XI (XI (XI (XO (XO (XO (XI
    (XO (XI (XO (XO (XI (XO (XO (XO (XI (XO (XI (XI (XO (XO (XI (XI (XO (XO
    (XO (XO (XO (XI (XI (XO (XO (XO (XI (XO (XO
    XH)))))))))))))))))))))))))))))))))))))))))))))))))))) :: (((Zpos (XO (XI
    (XO (XI (XI (XI (XO (XI (XO (XI (XI (XO (XI (XO (XO (XI (XI (XO (XO (XO
    (XI (XI (XO (XO (XI (XI (XO (XO (XI (XI (XO (XI (XO (XO (XO (XO (XI (XI
    (XI (XI (XO (XI (XI (XO (XI (XI (XO (XI (XO (XO
    XH))))))))))))))))))))))))))))))))))))))))))))))))))), (Zpos (XI (XI (XO
    (XI (XI (XI (XO (XI (XO (XI (XI (XO (XI (XO (XO (XI (XI (XO (XO (XO (XI
    (XI (XO (XO (XI (XI (XO (XO (XI (XI (XO (XI (XO (XO (XO (XO (XI (XI (XI
    (XI (XO (XI (XI (XO (XI (XI (XO (XI (XO (XO
    XH)))))))))))))))))))))))))))))))))))))))))))))))))))) :: (((Zpos (XI (XO
    (XI (XO (XO (XO (XO (XI (XO (XO (XO (XI (XO (XI (XI (XI (XI (XO (XO (XO
    (XI (XI (XI (XO (XI (XI (XO (XO (XO (XI (XI (XI (XI (XI (XI (XI (XO (XO
    (XI (XI (XI (XI (XO (XO (XO (XI (XI (XI (XO (XO
    XH))))))))))))))))))))))))))))))))))))))))))))))))))), (Zpos (XO (XI (XI
    (XO (XO (XO (XO (XI (XO (XO (XO (XI (XO (XI (XI (XI (XI (XO (XO (XO (XI
    (XI (XI (XO (XI (XI (XO (XO (XO (XI (XI (XI (XI (XI (XI (XI (XO (XO (XI
    (XI (XI (XI (XO (XO (XO (XI (XI (XI (XO (XO
    XH)))))))))))))))))))))))))))))))))))))))))))))))))))) :: (((Zpos (XO (XI
    (XO (XO (XO (XI (XI (XO (XO (XO (XO (XI (XO (XI (XI (XI (XO (XO (XO (XO
    (XO (XI (XO (XI (XO (XI (XI (XI (XI (XO (XO (XI (XO (XO (XI (XO (XO (XI
    (XI (XI (XO (XI (XO (XO (XI (XO (XO (XO (XI (XO
    XH))))))))))))))))))))))))))))))))))))))))))))))))))), (Zpos (XI (XI (XO
    (XO (XO (XI (XI (XO (XO (XO (XO (XI (XO (XI (XI (XI (XO (XO (XO (XO (XO
    (XI (XO (XI (XO (XI (XI (XI (XI (XO (XO (XI (XO (XO (XI (XO (XO (XI (XI
    (XI (XO (XI (XO (XO (XI (XO (XO (XO (XI (XO
    XH)))))))))))))))))))))))))))))))))))))))))))))))))))) :: (((Zpos (XO (XO
    (XI (XO (XO (XI (XI (XI (XO (XO (XI (XO (XI (XO (XI (XI (XO (XI (XO (XO
    (XO (XI (XI (XI (XI (XI (XI (XI (XI (XO (XO (XI (XI (XO (XO (XO (XO (XI
    (XI (XO (XO (XO (XI (XO (XO (XO (XI (XO (XI (XO
    XH))))))))))))))))))))))))))))))))))))))))))))))))))), (Zpos (XI (XO (XI
    (XO (XO (XI (XI (XI (XO (XO (XI (XO (XI (XO (XI (XI (XO (XI (XO (XO (XO
    (XI (XI (XI (XI (XI (XI (XI (XI (XO (XO (XI (XI (XO (XO (XO (XO (XI (XI
    (XO (XO (XO (XI (XO (XO (XO (XI (XO (XI (XO
    XH)))))))))))))))))))))))))))))))))))))))))))))))))))) :: (((Zpos (XO (XI
    (XI (XO (XI (XI (XO (XI (XO (XO (XI (XO (XI (XO (XO (XI (XI (XI (XO (XI
    (XO (XI (XO (XO (XO (XO (XO (XO (XO (XO (XI (XI (XI (XI (XI (XI (XI (XI
    (XI (XO (XO (XO (XO (XI (XI (XI (XI (XO (XI (XO
    XH))))))))))))))))))))))))))))))))))))))))))))))))))), (Zpos (XI (XI (XI
    (XO (XI (XI (XO (XI (XO (XO (XI (XO (XI (XO (XO (XI (XI (XI (XO (XI (XO
    (XI (XO (XO (XO (XO (XO (XO (XO (XO (XI (XI (XI (XI (XI (XI (XI (XI (XI
    (XO (XO (XO (XO (XI (XI (XI (XI (XO (XI (XO
    XH)))))))))))))))))))))))))))))))))))))))))))))))))))) :: (((Zpos (XO (XI
    (XO (XI (XI (XO (XO (XI (XO (XI (XO (XO (XI (XO (XO (XO (XO (XO (XO (XO
    (XO (XI (XO (XO (XI (XI (XO (XI (XO (XI (XI (XI (XO (XI (XI (XI (XI (XI
    (XI (XO (XI (XI (XI (XI (XO (XI (XO (XI (XI (XO
    XH))))))))))))))))))))))))))))))))))))))))))))))))))), (Zpos (XI (XI (XO
    (XI (XI (XO (XO (XI (XO (XI (XO (XO (XI (XO (XO (XO (XO (XO (XO (XO (XO
    (XI (XO (XO (XI (XI (XO (XI (XO (XI (XI (XI (XO (XI (XI (XI (XI (XI (XI
    (XO (XI (XI (XI (XI (XO (XI (XO (XI (XI (XO
    XH)))))))))))))))))))))))))))))))))))))))))))))))))))) :: (((Zpos (XI (XO
    (XI (XO (XI (XI (XO (XI (XI (XI (XO (XI (XI (XI (XO (XO (XO (XI (XO (XI
    (XI (XO (XI (XO (XI (XI (XO (XO (XO (XO (XI (XO (XI (XI (XI (XO (XO (XI
    (XO (XI (XI (XO (XO (XI (XO (XI (XI (XI (XI (XO
    XH))))))))))))))))))))))))))))))))))))))))))))))))))), (Zpos (XO (XI (XI
    (XO (XI (XI (XO (XI (XI (XI (XO (XI (XI (XI (XO (XO (XO (XI (XO (XI (XI
    (XO (XI (XO (XI (XI (XO (XO (XO (XO (XI (XO (XI (XI (XI (XO (XO (XI (XO
    (XI (XI (XO (XO (XI (XO (XI (XI (XI (XI (XO
    XH)))))))))))))))))))))))))))))))))))))))))))))))))))) :: (((Zpos (XI (XO
    (XI (XI (XO (XI (XI (XI (XI (XO (XO (XI (XI (XI (XO (XO (XO (XI (XI (XI
    (XI (XO (XO (XO (XI (XO (XO (XO (XO (XO (XO (XI (XO (XI (XO (XI (XO (XO
    (XI (XO (XI (XI (XI (XO (XO (XI (XO (XO (XO (XI
    XH))))))))))))))))))))))))))))))))))))))))))))))))))), (Zpos (XO (XI (XI
    (XI (XO (XI (XI (XI (XI (XO (XO (XI (XI (XI (XO (XO (XO (XI (XI (XI (XI
    (XO (XO (XO (XI (XO (XO (XO (XO (XO (XO (XI (XO (XI (XO (XI (XO (XO (XI
    (XO (XI (XI (XI (XO (XO (XI (XO (XO (XO (XI
    XH)))))))))))))))))))))))))))))))))))))))))))))))))))) :: (((Zpos (XI (XI
    (XI (XI (XI (XI (XI (XI (XO (XO (XI (XI (XI (XO (XI (XO (XO (XO (XI (XI
    (XI (XO (XO (XI (XI (XO (XO (XI (XI (XO (XO (XI (XI (XO (XI (XO (XO (XO
    (XI (XI (XO (XO (XO (XI (XO (XI (XI (XO (XO (XI
    XH))))))))))))))))))))))))))))))))))))))))))))))))))), (Zpos (XO (XO (XO
    (XO (XO (XO (XO (XO (XI (XO (XI (XI (XI (XO (XI (XO (XO (XO (XI (XI (XI
    (XO (XO (XI (XI (XO (XO (XI (XI (XO (XO (XI (XI (XO (XI (XO (XO (XO (XI
    (XI (XO (XO (XO (XI (XO (XI (XI (XO (XO (XI
    XH)))))))))))))))))))))))))))))))))))))))))))))))))))) :: (((Zpos (XO (XO
    (XI (XI (XI (XO (XO (XO (XI (XI (XO (XI (XI (XI (XI (XI (XO (XI (XO (XO
    (XO (XI (XI (XI (XO (XO (XO (XO (XO (XO (XI (XI (XO (XI (XO (XO (XO (XO
    (XO (XI (XO (XI (XI (XI (XO (XI (XO (XI (XO (XI
    XH))))))))))))))))))))))))))))))))))))))))))))))))))), (Zpos (XI (XO (XI
    (XI (XI (XO (XO (XO (XI (XI (XO (XI (XI (XI (XI (XI (XO (XI (XO (XO (XO
    (XI (XI (XI (XO (XO (XO (XO (XO (XO (XI (XI (XO (XI (XO (XO (XO (XO (XO
    (XI (XO (XI (XI (XI (XO (XI (XO (XI (XO (XI
    XH)))))))))))))))))))))))))))))))))))))))))))))))))))) :: (((Zpos (XO (XI
    (XI (XI (XI (XI (XI (XO (XI (XO (XO (XI (XI (XO (XI (XO (XI (XI (XO (XO
    (XO (XO (XO (XO (XO (XI (XI (XI (XI (XO (XI (XI (XI (XI (XO (XI (XI (XI
    (XI (XI (XO (XO (XO (XI (XI (XI (XI (XI (XO (XI
    XH))))))))))))))))))))))))))))))))))))))))))))))))))), (Zpos (XI (XI (XI
    (XI (XI (XI (XI (XO (XI (XO (XO (XI (XI (XO (XI (XO (XI (XI (XO (XO (XO
    (XO (XO (XO (XO (XI (XI (XI (XI (XO (XI (XI (XI (XI (XO (XI (XI (XI (XI
    (XI (XO (XO (XO (XI (XI (XI (XI (XI (XO (XI
    XH)))))))))))))))))))))))))))))))))))))))))))))))))))) :: (((Zpos (XO (XO
    (XO (XO (XO (XI (XO (XO (XI (XO (XO (XO (XI (XI (XO (XI (XO (XO (XO (XI
    (XO (XI (XO (XO (XO (XO (XO (XO (XI (XO (XO (XI (XI (XO (XI (XI (XI (XI
    (XO (XI (XO (XO (XO (XI (XO (XO (XI (XO (XI (XI
    XH))))))))))))))))))))))))))))))))))))))))))))))))))), (Zpos (XI (XO (XO
    (XO (XO (XI (XO (XO (XI (XO (XO (XO (XI (XI (XO (XI (XO (XO (XO (XI (XO
    (XI (XO (XO (XO (XO (XO (XO (XI (XO (XO (XI (XI (XO (XI (XI (XI (XI (XO
    (XI (XO (XO (XO (XI (XO (XO (XI (XO (XI (XI
    XH)))))))))))))))))))))))))))))))))))))))))))))))))))) :: (((Zpos (XO (XI
    (XI (XO (XI (XI (XI (XO (XO (XO (XO (XO (XO (XI (XO (XO (XI (XI (XI (XO
    (XI (XI (XO (XO (XI (XO (XI (XI (XO (XI (XI (XI (XO (XI (XO (XI (XO (XI
    (XI (XO (XO (XI (XI (XI (XI (XO (XO (XI (XI (XI
    XH))))))))))))))))))))))))))))))))))))))))))))))))))), (Zpos (XI (XI (XI
    (XO (XI (XI (XI (XO (XO (XO (XO (XO (XO (XI (XO (XO (XI (XI (XI (XO (XI
    (XI (XO (XO (XI (XO (XI (XI (XO (XI (XI (XI (XO (XI (XO (XI (XO (XI (XI
    (XO (XO (XI (XI (XI (XI (XO (XO (XI (XI (XI
    XH)))))))))))))))))))))))))))))))))))))))))))))))))))) :: (((Zpos (XO (XO
    (XO (XI (XI (XO (XI (XO (XI (XI (XI (XI (XI (XO (XO (XI (XI (XI (XI (XI
    (XO (XO (XO (XO (XO (XO (XO (XO (XI (XI (XO (XO (XO (XI (XO (XO (XO (XO
    (XI (XI (XO (XI (XO (XI (XI (XI (XI (XI (XI (XI
    XH))))))))))))))))))))))))))))))))))))))))))))))))))), (Zpos (XI (XO (XO
    (XI (XI (XO (XI (XO (XI (XI (XI (XI (XI (XO (XO (XI (XI (XI (XI (XI (XO
    (XO (XO (XO (XO (XO (XO (XO (XI (XI (XO (XO (XO (XI (XO (XO (XO (XO (XI
    (XI (XO (XI (XO (XI (XI (XI (XI (XI (XI (XI
    XH)))))))))))))))))))))))))))))))))))))))))))))))))))) :: (((Zpos (XO (XO
    (XO (XI (XO (XO (XO (XO (XI (XI (XI (XI (XI (XI (XI (XO (XO (XO (XO (XI
    (XO (XI (XI (XO (XI (XI (XI (XI (XI (XO (XO (XI (XO (XI (XO (XO (XO (XI
    (XO (XI (XO (XI (XI (XI (XI (XO (XI (XO (XO (XO (XO
    XH)))))))))))))))))))))))))))))))))))))))))))))))))))), (Zpos (XI (XO (XO
    (XI (XO (XO (XO (XO (XI (XI (XI (XI (XI (XI (XI (XO (XO (XO (XO (XI (XO
    (XI (XI (XO (XI (XI (XI (XI (XI (XO (XO (XI (XO (XI (XO (XO (XO (XI (XO
    (XI (XO (XI (XI (XI (XI (XO (XI (XO (XO (XO (XO
    XH))))))))))))))))))))))))))))))))))))))))))))))))))))) :: (((Zpos (XI
    (XI (XI (XO (XO (XI (XI (XO (XI (XO (XI (XO (XO (XI (XO (XI (XI (XI (XI
    (XI (XO (XI (XO (XI (XO (XO (XO (XO (XI (XO (XO (XO (XO (XO (XI (XO (XI
    (XO (XO (XO (XI (XI (XO (XI (XO (XO (XI (XI (XO (XO (XO
    XH)))))))))))))))))))))))))))))))))))))))))))))))))))), (Zpos (XO (XO (XO
    (XI (XO (XI (XI (XO (XI (XO (XI (XO (XO (XI (XO (XI (XI (XI (XI (XI (XO
    (XI (XO (XI (XO (XO (XO (XO (XI (XO (XO (XO (XO (XO (XI (XO (XI (XO (XO
    (XO (XI (XI (XO (XI (XO (XO (XI (XI (XO (XO (XO
    XH))))))))))))))))))))))))))))))))))))))))))))))))))))) :: (((Zpos (XI
    (XO (XO (XI (XO (XI (XO (XO (XO (XO (XO (XO (XI (XI (XO (XO (XI (XI (XI
    (XI (XO (XO (XI (XO (XO (XO (XO (XO (XI (XO (XO (XI (XO (XO (XO (XO (XI
    (XO (XI (XO (XI (XO (XO (XO (XO (XO (XI (XO (XI (XO (XO
    XH)))))))))))))))))))))))))))))))))))))))))))))))))))), (Zpos (XO (XI (XO
    (XI (XO (XI (XO (XO (XO (XO (XO (XO (XI (XI (XO (XO (XI (XI (XI (XI (XO
    (XO (XI (XO (XO (XO (XO (XO (XI (XO (XO (XI (XO (XO (XO (XO (XI (XO (XI
    (XO (XI (XO (XO (XO (XO (XO (XI (XO (XI (XO (XO
    XH))))))))))))))))))))))))))))))))))))))))))))))))))))) :: (((Zpos (XO
    (XI (XI (XI (XI (XO (XO (XI (XO (XO (XO (XO (XI (XI (XI (XO (XI (XO (XI
    (XI (XI (XO (XO (XI (XI (XI (XI (XI (XO (XI (XI (XI (XO (XO (XO (XO (XI
    (XO (XI (XI (XO (XI (XO (XO (XO (XO (XI (XI (XI (XO (XO
    XH)))))))))))))))))))))))))))))))))))))))))))))))))))), (Zpos (XI (XI (XI
    (XI (XI (XO (XO (XI (XO (XO (XO (XO (XI (XI (XI (XO (XI (XO (XI (XI (XI
    (XO (XO (XI (XI (XI (XI (XI (XO (XI (XI (XI (XO (XO (XO (XO (XI (XO (XI
    (XI (XO (XI (XO (XO (XO (XO (XI (XI (XI (XO (XO
    XH))))))))))))))))))))))))))))))))))))))))))))))))))))) :: (((Zpos (XO
    (XI (XI (XI (XO (XI (XO (XO (XI (XO (XO (XI (XI (XI (XI (XO (XI (XI (XI
    (XO (XI (XI (XO (XI (XI (XO (XO (XI (XO (XO (XI (XO (XI (XO (XI (XI (XI
    (XO (XI (XO (XI (XO (XO (XO (XI (XO (XI (XO (XO (XI (XO
    XH)))))))))))))))))))))))))))))))))))))))))))))))))))), (Zpos (XI (XI (XI
    (XI (XO (XI (XO (XO (XI (XO (XO (XI (XI (XI (XI (XO (XI (XI (XI (XO (XI
    (XI (XO (XI (XI (XO (XO (XI (XO (XO (XI (XO (XI (XO (XI (XI (XI (XO (XI
    (XO (XI (XO (XO (XO (XI (XO (XI (XO (XO (XI (XO
    XH))))))))))))))))))))))))))))))))))))))))))))))))))))) :: (((Zpos (XI
    (XO (XI (XO (XI (XO (XI (XI (XO (XI (XO (XO (XO (XI (XI (XI (XO (XI (XI
    (XO (XI (XI (XI (XI (XI (XO (XO (XI (XO (XO (XO (XO (XI (XI (XO (XO (XO
    (XI (XO (XO (XI (XI (XI (XI (XO (XI (XI (XI (XO (XI (XO
    XH)))))))))))))))))))))))))))))))))))))))))))))))))))), (Zpos (XO (XI (XI
    (XO (XI (XO (XI (XI (XO (XI (XO (XO (XO (XI (XI (XI (XO (XI (XI (XO (XI
    (XI (XI (XI (XI (XO (XO (XI (XO (XO (XO (XO (XI (XI (XO (XO (XO (XI (XO
    (XO (XI (XI (XI (XI (XO (XI (XI (XI (XO (XI (XO
    XH))))))))))))))))))))))))))))))))))))))))))))))))))))) :: (((Zpos (XO
    (XO (XI (XI (XO (XI (XO (XI (XI (XO (XO (XI (XI (XI (XI (XI (XI (XI (XI
    (XI (XO (XI (XI (XO (XO (XO (XO (XI (XI (XI (XO (XI (XO (XI (XO (XO (XI
    (XO (XI (XI (XO (XI (XI (XI (XI (XO (XO (XI (XI (XI (XO
    XH)))))))))))))))))))))))))))))))))))))))))))))))))))), (Zpos (XI (XO (XI
    (XI (XO (XI (XO (XI (XI (XO (XO (XI (XI (XI (XI (XI (XI (XI (XI (XI (XO
    (XI (XI (XO (XO (XO (XO (XI (XI (XI (XO (XI (XO (XI (XO (XO (XI (XO (XI
    (XI (XO (XI (XI (XI (XI (XO (XO (XI (XI (XI (XO
    XH))))))))))))))))))))))))))))))))))))))))))))))))))))) :: (((Zpos (XO
    (XO (XI (XI (XO (XO (XO (XI (XI (XO (XI (XO (XI (XO (XO (XO (XO (XO (XI
    (XI (XI (XO (XO (XO (XI (XI (XO (XO (XI (XI (XI (XI (XO (XO (XO (XI (XO
    (XO (XI (XI (XI (XI (XO (XO (XO (XI (XI (XO (XO (XO (XI
    XH)))))))))))))))))))))))))))))))))))))))))))))))))))), (Zpos (XI (XO (XI
    (XI (XO (XO (XO (XI (XI (XO (XI (XO (XI (XO (XO (XO (XO (XO (XI (XI (XI
    (XO (XO (XO (XI (XI (XO (XO (XI (XI (XI (XI (XO (XO (XO (XI (XO (XO (XI
    (XI (XI (XI (XO (XO (XO (XI (XI (XO (XO (XO (XI
    XH))))))))))))))))))))))))))))))))))))))))))))))))))))) :: (((Zpos (XI
    (XO (XI (XI (XO (XI (XI (XI (XI (XO (XO (XI (XI (XI (XO (XO (XI (XI (XO
    (XI (XO (XI (XO (XI (XO (XI (XO (XI (XO (XO (XI (XI (XI (XI (XI (XO (XO
    (XO (XI (XO (XO (XI (XO (XO (XO (XO (XI (XO (XI (XO (XI
    XH)))))))))))))))))))))))))))))))))))))))))))))))))))), (Zpos (XO (XI (XI
    (XI (XO (XI (XI (XI (XI (XO (XO (XI (XI (XI (XO (XO (XI (XI (XO (XI (XO
    (XI (XO (XI (XO (XI (XO (XI (XO (XO (XI (XI (XI (XI (XI (XO (XO (XO (XI
    (XO (XO (XI (XO (XO (XO (XO (XI (XO (XI (XO (XI
    XH))))))))))))))))))))))))))))))))))))))))))))))))))))) :: (((Zpos (XO
    (XO (XI (XO (XO (XI (XI (XO (XO (XO (XO (XI (XI (XI (XO (XI (XO (XO (XO
    (XO (XI (XO (XI (XI (XO (XO (XI (XO (XI (XI (XO (XI (XO (XO (XO (XI (XO
    (XO (XI (XI (XI (XI (XI (XI (XI (XI (XO (XO (XO (XI (XI
    XH)))))))))))))))))))))))))))))))))))))))))))))))))))), (Zpos (XI (XO (XI
    (XO (XO (XI (XI (XO (XO (XO (XO (XI (XI (XI (XO (XI (XO (XO (XO (XO (XI
    (XO (XI (XI (XO (XO (XI (XO (XI (XI (XO (XI (XO (XO (XO (XI (XO (XO (XI
    (XI (XI (XI (XI (XI (XI (XI (XO (XO (XO (XI (XI
    XH))))))))))))))))))))))))))))))))))))))))))))))))))))) :: (((Zpos (XI
    (XI (XO (XI (XI (XI (XI (XO (XO (XI (XO (XO (XO (XO (XO (XO (XI (XI (XI
    (XO (XI (XO (XI (XI (XO (XO (XO (XO (XI (XO (XI (XO (XO (XO (XI (XO (XI
    (XI (XI (XO (XI (XI (XO (XO (XO (XI (XI (XO (XI (XI (XI
    XH)))))))))))))))))))))))))))))))))))))))))))))))))))), (Zpos (XO (XO (XI
    (XI (XI (XI (XI (XO (XO (XI (XO (XO (XO (XO (XO (XO (XI (XI (XI (XO (XI
    (XO (XI (XI (XO (XO (XO (XO (XI (XO (XI (XO (XO (XO (XI (XO (XI (XI (XI
    (XO (XI (XI (XO (XO (XO (XI (XI (XO (XI (XI (XI
    XH))))))))))))))))))))))))))))))))))))))))))))))))))))) :: (((Zpos (XO
    (XI (XI (XO (XI (XI (XO (XO (XO (XI (XI (XI (XI (XO (XO (XI (XI (XO (XO
    (XI (XI (XI (XI (XO (XO (XI (XI (XI (XO (XO (XO (XO (XO (XI (XI (XO (XI
    (XO (XI (XI (XO (XI (XI (XO (XI (XI (XO (XI (XO (XO (XO (XO
    XH))))))))))))))))))))))))))))))))))))))))))))))))))))), (Zpos (XI (XI
    (XI (XO (XI (XI (XO (XO (XO (XI (XI (XI (XI (XO (XO (XI (XI (XO (XO (XI
    (XI (XI (XI (XO (XO (XI (XI (XI (XO (XO (XO (XO (XO (XI (XI (XO (XI (XO
    (XI (XI (XO (XI (XI (XO (XI (XI (XO (XI (XO (XO (XO (XO
    XH)))))))))))))))))))))))))))))))))))))))))))))))))))))) :: (((Zpos (XO
    (XI (XI (XO (XO (XO (XO (XO (XO (XO (XI (XO (XI (XO (XI (XO (XO (XI (XI
    (XO (XO (XI (XO (XI (XO (XI (XO (XO (XI (XO (XI (XI (XI (XO (XO (XO (XI
    (XI (XI (XI (XO (XI (XI (XO (XO (XO (XI (XO (XO (XI (XO (XO
    XH))))))))))))))))))))))))))))))))))))))))))))))))))))), (Zpos (XI (XI
    (XI (XO (XO (XO (XO (XO (XO (XO (XI (XO (XI (XO (XI (XO (XO (XI (XI (XO
    (XO (XI (XO (XI (XO (XI (XO (XO (XI (XO (XI (XI (XI (XO (XO (XO (XI (XI
    (XI (XI (XO (XI (XI (XO (XO (XO (XI (XO (XO (XI (XO (XO
    XH)))))))))))))))))))))))))))))))))))))))))))))))))))))) :: (((Zpos (XI
    (XO (XI (XI (XO (XI (XO (XI (XI (XO (XO (XI (XO (XO (XO (XI (XI (XI (XI
    (XO (XO (XO (XI (XO (XO (XI (XO (XO (XI (XI (XO (XO (XO (XO (XO (XO (XO
    (XO (XO (XO (XO (XI (XI (XO (XO (XI (XO (XO (XO (XO (XI (XO
    XH))))))))))))))))))))))))))))))))))))))))))))))))))))), (Zpos (XO (XI
    (XI (XI (XO (XI (XO (XI (XI (XO (XO (XI (XO (XO (XO (XI (XI (XI (XI (XO
    (XO (XO (XI (XO (XO (XI (XO (XO (XI (XI (XO (XO (XO (XO (XO (XO (XO (XO
    (XO (XO (XO (XI (XI (XO (XO (XI (XO (XO (XO (XO (XI (XO
    XH)))))))))))))))))))))))))))))))))))))))))))))))))))))) :: (((Zpos (XI
    (XI (XO (XO (XO (XI (XI (XO (XI (XI (XI (XO (XI (XI (XI (XO (XI (XI (XO
    (XI (XI (XI (XO (XO (XO (XO (XI (XO (XI (XO (XI (XI (XO (XI (XO (XO (XI
    (XO (XI (XO (XO (XI (XI (XI (XO (XI (XI (XO (XO (XI (XI (XO
    XH))))))))))))))))))))))))))))))))))))))))))))))))))))), (Zpos (XO (XO
    (XI (XO (XO (XI (XI (XO (XI (XI (XI (XO (XI (XI (XI (XO (XI (XI (XO (XI
    (XI (XI (XO (XO (XO (XO (XI (XO (XI (XO (XI (XI (XO (XI (XO (XO (XI (XO
    (XI (XO (XO (XI (XI (XI (XO (XI (XI (XO (XO (XI (XI (XO
    XH)))))))))))))))))))))))))))))))))))))))))))))))))))))) :: (((Zpos (XO
    (XO (XO (XO (XI (XO (XI (XO (XI (XI (XI (XI (XO (XO (XO (XI (XI (XI (XI
    (XI (XI (XI (XO (XI (XO (XO (XI (XI (XI (XO (XO (XO (XO (XO (XI (XO (XO
    (XI (XI (XO (XI (XI (XI (XO (XO (XO (XI (XO (XI (XO (XO (XI
    XH))))))))))))))))))))))))))))))))))))))))))))))))))))), (Zpos (XI (XO
    (XO (XO (XI (XO (XI (XO (XI (XI (XI (XI (XO (XO (XO (XI (XI (XI (XI (XI
    (XI (XI (XO (XI (XO (XO (XI (XI (XI (XO (XO (XO (XO (XO (XI (XO (XO (XI
    (XI (XO (XI (XI (XI (XO (XO (XO (XI (XO (XI (XO (XO (XI
    XH)))))))))))))))))))))))))))))))))))))))))))))))))))))) :: (((Zpos (XO
    (XI (XO (XO (XO (XO (XI (XI (XI (XI (XO (XO (XO (XI (XI (XO (XO (XO (XI
    (XO (XO (XO (XI (XI (XI (XI (XO (XI (XO (XI (XI (XO (XI (XO (XI (XI (XI
    (XI (XO (XO (XI (XI (XI (XI (XO (XI (XI (XI (XO (XO (XI (XI
    XH))))))))))))))))))))))))))))))))))))))))))))))))))))), (Zpos (XI (XI
    (XO (XO (XO (XO (XI (XI (XI (XI (XO (XO (XO (XI (XI (XO (XO (XO (XI (XO
    (XO (XO (XI (XI (XI (XI (XO (XI (XO (XI (XI (XO (XI (XO (XI (XI (XI (XI
    (XO (XO (XI (XI (XI (XI (XO (XI (XI (XI (XO (XO (XI (XI
    XH)))))))))))))))))))))))))))))))))))))))))))))))))))))) :: (((Zpos (XO
    (XO (XO (XI (XI (XI (XI (XI (XO (XI (XO (XI (XI (XI (XO (XI (XO (XI (XI
    (XI (XO (XO (XO (XI (XI (XO (XO (XI (XI (XO (XO (XI (XI (XI (XO (XO (XO
    (XO (XI (XO (XI (XO (XI (XI (XO (XO (XI (XI (XI (XO (XO (XO (XO
    XH)))))))))))))))))))))))))))))))))))))))))))))))))))))), (Zpos (XI (XO
    (XO (XI (XI (XI (XI (XI (XO (XI (XO (XI (XI (XI (XO (XI (XO (XI (XI (XI
    (XO (XO (XO (XI (XI (XO (XO (XI (XI (XO (XO (XI (XI (XI (XO (XO (XO (XO
    (XI (XO (XI (XO (XI (XI (XO (XO (XI (XI (XI (XO (XO (XO (XO
    XH))))))))))))))))))))))))))))))))))))))))))))))))))))))) :: (((Zpos (XI
    (XI (XI (XI (XI (XI (XI (XO (XI (XO (XI (XI (XO (XI (XO (XO (XI (XO (XI
    (XO (XO (XO (XI (XO (XI (XI (XI (XI (XO (XI (XI (XO (XO (XI (XO (XO (XI
    (XO (XO (XI (XI (XI (XO (XI (XI (XO (XO (XI (XO (XO (XO (XI (XO
    XH)))))))))))))))))))))))))))))))))))))))))))))))))))))), (Zpos (XO (XO
    (XO (XO (XO (XO (XO (XI (XI (XO (XI (XI (XO (XI (XO (XO (XI (XO (XI (XO
    (XO (XO (XI (XO (XI (XI (XI (XI (XO (XI (XI (XO (XO (XI (XO (XO (XI (XO
    (XO (XI (XI (XI (XO (XI (XI (XO (XO (XI (XO (XO (XO (XI (XO
    XH))))))))))))))))))))))))))))))))))))))))))))))))))))))) :: (((Zpos (XI
    (XI (XI (XO (XI (XI (XI (XI (XO (XO (XO (XO (XO (XI (XI (XO (XO (XO (XO
    (XI (XO (XO (XI (XO (XO (XO (XI (XO (XI (XO (XI (XO (XI (XO (XO (XO (XO
    (XI (XI (XO (XO (XI (XI (XI (XO (XO (XI (XI (XO (XI (XO (XO (XI
    XH)))))))))))))))))))))))))))))))))))))))))))))))))))))), (Zpos (XO (XO
    (XO (XI (XI (XI (XI (XI (XO (XO (XO (XO (XO (XI (XI (XO (XO (XO (XO (XI
    (XO (XO (XI (XO (XO (XO (XI (XO (XI (XO (XI (XO (XI (XO (XO (XO (XO (XI
    (XI (XO (XO (XI (XI (XI (XO (XO (XI (XI (XO (XI (XO (XO (XI
    XH))))))))))))))))))))))))))))))))))))))))))))))))))))))) :: (((Zpos (XI
    (XI (XO (XO (XI (XO (XI (XO (XO (XI (XI (XO (XO (XO (XI (XI (XO (XI (XI
    (XI (XO (XI (XO (XO (XO (XI (XI (XO (XI (XO (XI (XO (XI (XO (XO (XO (XI
    (XI (XO (XO (XO (XI (XO (XI (XO (XO (XI (XI (XI (XI (XO (XO (XO (XO
    XH))))))))))))))))))))))))))))))))))))))))))))))))))))))), (Zpos (XO (XO
    (XI (XO (XI (XO (XI (XO (XO (XI (XI (XO (XO (XO (XI (XI (XO (XI (XI (XI
    (XO (XI (XO (XO (XO (XI (XI (XO (XI (XO (XI (XO (XI (XO (XO (XO (XI (XI
    (XO (XO (XO (XI (XO (XI (XO (XO (XI (XI (XI (XI (XO (XO (XO (XO
    XH)))))))))))))))))))))))))))))))))))))))))))))))))))))))) :: (((Zpos (XI
    (XI (XO (XO (XI (XO (XO (XO (XI (XO (XI (XO (XI (XO (XI (XO (XO (XO (XO
    (XO (XO (XI (XO (XI (XO (XO (XO (XI (XO (XO (XI (XO (XI (XO (XI (XO (XO
    (XO (XO (XI (XO (XO (XI (XI (XI (XI (XO (XI (XI (XO (XI (XO (XO (XI
    XH))))))))))))))))))))))))))))))))))))))))))))))))))))))), (Zpos (XO (XO
    (XI (XO (XI (XO (XO (XO (XI (XO (XI (XO (XI (XO (XI (XO (XO (XO (XO (XO
    (XO (XI (XO (XI (XO (XO (XO (XI (XO (XO (XI (XO (XI (XO (XI (XO (XO (XO
    (XO (XI (XO (XO (XI (XI (XI (XI (XO (XI (XI (XO (XI (XO (XO (XI
    XH)))))))))))))))))))))))))))))))))))))))))))))))))))))))) :: (((Zpos (XO
    (XO (XO (XO (XO (XO (XO (XO (XO (XI (XO (XI (XI (XI (XI (XO (XO (XI (XO
    (XO (XI (XI (XO (XO (XO (XO (XI (XO (XO (XI (XO (XI (XO (XI (XO (XI (XO
    (XI (XI (XI (XO (XO (XO (XI (XO (XO (XO (XI (XI (XI (XO (XI (XO (XO (XI
    XH)))))))))))))))))))))))))))))))))))))))))))))))))))))))), (Zpos (XI (XO
    (XO (XO (XO (XO (XO (XO (XO (XI (XO (XI (XI (XI (XI (XO (XO (XI (XO (XO
    (XI (XI (XO (XO (XO (XO (XI (XO (XO (XI (XO (XI (XO (XI (XO (XI (XO (XI
    (XI (XI (XO (XO (XO (XI (XO (XO (XO (XI (XI (XI (XO (XI (XO (XO (XI
    XH))))))))))))))))))))))))))))))))))))))))))))))))))))))))) :: []))))))))))))))))))))))))))))))))))))))))))))))))))))))))))))))))))))))))))))))))))))))))

(** val le_tan : nat -> z -> z -> z -> bool **)

let le_tan k hi a b =
  if Nat.eqb k (S (S (S (S (S (S (S (S (S (S (S (S (S (S (S (S (S (S (S (S (S
       (S (S (S (S (S (S (S (S (S (S (S (S (S (S (S (S (S (S (S (S (S (S (S
       (S O)))))))))))))))))))))))))))))))))))))))))))))
  then Z.leb b a
  else Z.leb (Z.mul hi b) (Z.mul a tan_den)

(** val count_le : nat -> (z * z) list -> z -> z -> z **)

let rec count_le k t a b =
  match t with
  | [] -> Z0
  | p :: t' ->
    let (_, hi) = p in
    Z.add (if le_tan k hi a b then Zpos XH else Z0) (count_le (S k) t' a b)

(** val floor_deg : z -> z -> z **)

let floor_deg a b =
  if Z.eqb b Z0
  then Zpos (XO (XI (XO (XI (XI (XO XH))))))
  else count_le (S O) tan_table a b

(** val exact_deg : z -> z -> bool **)

let exact_deg a b =
  (||) ((||) (Z.eqb a Z0) (Z.eqb b Z0)) (Z.eqb a b)

(** val ceil_deg : z -> z -> z **)

let ceil_deg a b =
  if exact_deg a b then floor_deg a b else Z.add (floor_deg a b) (Zpos XH)

(** val track_of : bool -> z -> bool -> z -> z **)

let track_of sx a sy b =
  if (&&) (Z.eqb a Z0) (Z.eqb b Z0)
  then if sy then Zpos (XO (XO (XI (XO (XI (XI (XO XH))))))) else Z0
  else let xneg = (&&) sx (negb (Z.eqb a Z0)) in
       let yneg = (&&) sy (negb (Z.eqb b Z0)) in
       if xneg
       then if yneg
            then Z.add (Zpos (XO (XO (XI (XO (XI (XI (XO XH))))))))
                   (floor_deg a b)
            else Z.modulo
                   (Z.sub (Zpos (XO (XO (XO (XI (XO (XI (XI (XO XH)))))))))
                     (ceil_deg a b)) (Zpos (XO (XO (XO (XI (XO (XI (XI (XO
                   XH)))))))))
       else if yneg
            then Z.sub (Zpos (XO (XO (XI (XO (XI (XI (XO XH))))))))
                   (ceil_deg a b)
            else floor_deg a b

(** val track_and_groundspeed :
    n list -> bool -> (n option * n option) res **)

let track_and_groundspeed m supersonic =
  bind
    (flag_and_range_value m (S (S (S (S (S (S (S (S (S (S (S (S (S (S (S (S
      (S (S (S (S (S (S (S (S (S (S (S (S (S (S (S (S (S (S (S (S (S (S (S (S
      (S (S (S (S (S (S O)))))))))))))))))))))))))))))))))))))))))))))) (S (S
      (S (S (S (S (S (S (S (S (S (S (S (S (S (S (S (S (S (S (S (S (S (S (S (S
      (S (S (S (S (S (S (S (S (S (S (S (S (S (S (S (S (S (S (S (S (S
      O))))))))))))))))))))))))))))))))))))))))))))))) (S (S (S (S (S (S (S
      (S (S (S (S (S (S (S (S (S (S (S (S (S (S (S (S (S (S (S (S (S (S (S (S
      (S (S (S (S (S (S (S (S (S (S (S (S (S (S (S (S (S (S (S (S (S (S (S (S
      (S O))))))))))))))))))))))))))))))))))))))))))))))))))))))))) (fun w ->
    match ofilter (fun pat -> let (_, v) = pat in negb (N.eqb v N0)) w with
    | Some p ->
      let (dw, vw) = p in
      bind
        (flag_and_range_value m (S (S (S (S (S (S (S (S (S (S (S (S (S (S (S
          (S (S (S (S (S (S (S (S (S (S (S (S (S (S (S (S (S (S (S (S (S (S
          (S (S (S (S (S (S (S (S (S (S (S (S (S (S (S (S (S (S (S (S
          O))))))))))))))))))))))))))))))))))))))))))))))))))))))))) (S (S (S
          (S (S (S (S (S (S (S (S (S (S (S (S (S (S (S (S (S (S (S (S (S (S
          (S (S (S (S (S (S (S (S (S (S (S (S (S (S (S (S (S (S (S (S (S (S
          (S (S (S (S (S (S (S (S (S (S (S
          O)))))))))))))))))))))))))))))))))))))))))))))))))))))))))) (S (S
          (S (S (S (S (S (S (S (S (S (S (S (S (S (S (S (S (S (S (S (S (S (S
          (S (S (S (S (S (S (S (S (S (S (S (S (S (S (S (S (S (S (S (S (S (S
          (S (S (S (S (S (S (S (S (S (S (S (S (S (S (S (S (S (S (S (S (S
          O))))))))))))))))))))))))))))))))))))))))))))))))))))))))))))))))))))
        (fun s ->
        match ofilter (fun pat -> let (_, v) = pat in negb (N.eqb v N0)) s with
        | Some p0 ->
          let (ds, vs) = p0 in
          let a = N.sub vw (Npos XH) in
          let b = N.sub vs (Npos XH) in
          let gs = N.sqrt (N.add (N.mul a a) (N.mul b b)) in
          let gs0 = if supersonic then N.mul gs (Npos (XO (XO XH))) else gs in
          let trk =
            track_of (N.eqb dw (Npos XH)) (Z.of_N a)
              (N.eqb (N.coq_land ds (Npos XH)) (Npos XH)) (Z.of_N b)
          in
          Ok ((Some (Z.to_N trk)), (Some gs0))
        | None -> Ok (None, None))
    | None -> Ok (None, None))

(** val qfloor : q -> z **)

let qfloor x =
  let { qnum = n0; qden = d } = x in Z.div n0 (Zpos d)

(** val qabs : q -> q **)

let qabs x =
  let { qnum = n0; qden = d } = x in { qnum = (Z.abs n0); qden = d }

(** val cpr : n list -> ((n * n) * n) option res **)

let cpr m =
  bind
    (flag_and_range_value m (S (S (S (S (S (S (S (S (S (S (S (S (S (S (S (S
      (S (S (S (S (S (S (S (S (S (S (S (S (S (S (S (S (S (S (S (S (S (S (S (S
      (S (S (S (S (S (S (S (S (S (S (S (S (S (S
      O)))))))))))))))))))))))))))))))))))))))))))))))))))))) (S (S (S (S (S
      (S (S (S (S (S (S (S (S (S (S (S (S (S (S (S (S (S (S (S (S (S (S (S (S
      (S (S (S (S (S (S (S (S (S (S (S (S (S (S (S (S (S (S (S (S (S (S (S (S
      (S (S O))))))))))))))))))))))))))))))))))))))))))))))))))))))) (S (S (S
      (S (S (S (S (S (S (S (S (S (S (S (S (S (S (S (S (S (S (S (S (S (S (S (S
      (S (S (S (S (S (S (S (S (S (S (S (S (S (S (S (S (S (S (S (S (S (S (S (S
      (S (S (S (S (S (S (S (S (S (S (S (S (S (S (S (S (S (S (S (S
      O))))))))))))))))))))))))))))))))))))))))))))))))))))))))))))))))))))))))
    (fun fv ->
    match fv with
    | Some p ->
      let (form, lat0) = p in
      bind
        (range_value m (S (S (S (S (S (S (S (S (S (S (S (S (S (S (S (S (S (S
          (S (S (S (S (S (S (S (S (S (S (S (S (S (S (S (S (S (S (S (S (S (S
          (S (S (S (S (S (S (S (S (S (S (S (S (S (S (S (S (S (S (S (S (S (S
          (S (S (S (S (S (S (S (S (S (S
          O))))))))))))))))))))))))))))))))))))))))))))))))))))))))))))))))))))))))
          (S (S (S (S (S (S (S (S (S (S (S (S (S (S (S (S (S (S (S (S (S (S
          (S (S (S (S (S (S (S (S (S (S (S (S (S (S (S (S (S (S (S (S (S (S
          (S (S (S (S (S (S (S (S (S (S (S (S (S (S (S (S (S (S (S (S (S (S
          (S (S (S (S (S (S (S (S (S (S (S (S (S (S (S (S (S (S (S (S (S (S
          O)))))))))))))))))))))))))))))))))))))))))))))))))))))))))))))))))))))))))))))))))))))))))
        (fun lon0 -> Ok (omap (fun lon1 -> ((form, lat0), lon1)) lon0))
    | None -> Ok None)

(** val zrem : z -> z -> z **)

let zrem =
  Z.rem

(** val fixed_lat : q -> q **)

let fixed_lat lat0 =
  if qle_bool { qnum = (Zpos (XO (XI (XO (XI (XI (XO XH))))))); qden = XH }
       lat0
  then qminus lat0 { qnum = (Zpos (XO (XO (XO (XI (XO (XI (XI (XO
         XH))))))))); qden = XH }
  else if qle_bool lat0 { qnum = (Zneg (XO (XI (XO (XI (XI (XO XH)))))));
            qden = XH }
       then qplus lat0 { qnum = (Zpos (XO (XO (XO (XI (XO (XI (XI (XO
              XH))))))))); qden = XH }
       else lat0

(** val signed_lon : q -> q **)

let signed_lon lon0 =
  if qle_bool { qnum = (Zpos (XO (XO (XI (XO (XI (XI (XO XH)))))))); qden =
       XH } lon0
  then qminus lon0 { qnum = (Zpos (XO (XO (XO (XI (XO (XI (XI (XO
         XH))))))))); qden = XH }
  else if qle_bool lon0 { qnum = (Zneg (XO (XO (XI (XO (XI (XI (XO
            XH)))))))); qden = XH }
       then qplus lon0 { qnum = (Zpos (XO (XO (XO (XI (XO (XI (XI (XO
              XH))))))))); qden = XH }
       else lon0

(** val pmod : z -> z -> z **)

let pmod x y =
  let r = Z.rem x y in if Z.ltb r Z0 then Z.add r y else r

(** val qlt_bool : q -> q -> bool **)

let qlt_bool a b =
  negb (qle_bool b a)

(** val nl_go : (q * z) list -> q -> z **)

let rec nl_go t lat0 =
  match t with
  | [] -> nl_default
  | p :: t' -> let (b, v) = p in if qlt_bool lat0 b then v else nl_go t' lat0

(** val nl : q -> z **)

let nl lat0 =
  nl_go nl_table (qabs lat0)

(** val div17 : q **)

let div17 =
  { qnum = (Zpos (XO (XO (XO (XO (XO (XO (XO (XO (XO (XO (XO (XO (XO (XO (XO
    (XO (XO XH)))))))))))))))))); qden = XH }

(** val qN : n -> q **)

let qN n0 =
  { qnum = (Z.of_N n0); qden = XH }

(** val qZ : z -> q **)

let qZ z0 =
  { qnum = z0; qden = XH }

(** val cpr_location : n -> n -> n -> n -> n -> z -> (q * q) option **)

let cpr_location lat0 lat1 lon0 lon1 form coeff =
  let j =
    qfloor
      (qplus
        (qdiv
          (qminus
            (qmult { qnum = (Zpos (XI (XI (XO (XI (XI XH)))))); qden = XH }
              (qN lat0))
            (qmult { qnum = (Zpos (XO (XO (XI (XI (XI XH)))))); qden = XH }
              (qN lat1))) div17) { qnum = (Zpos XH); qden = (XO XH) })
  in
  let rlat0 =
    fixed_lat
      (qmult { qnum = (Zpos (XO (XI XH))); qden = XH }
        (qplus (qZ (zrem j (Zpos (XO (XO (XI (XI (XI XH))))))))
          (qdiv (qN lat0) div17)))
  in
  let rlat1 =
    fixed_lat
      (qmult { qnum = (Zpos (XO (XO (XO (XI (XO (XI (XI (XO XH)))))))));
        qden = (XI (XI (XO (XI (XI XH))))) }
        (qplus (qZ (zrem j (Zpos (XI (XI (XO (XI (XI XH))))))))
          (qdiv (qN lat1) div17)))
  in
  let nl0 = nl rlat0 in
  let nl1 = nl rlat1 in
  if Z.eqb nl0 nl1
  then if N.eqb form (Npos XH)
       then let p = ((Z.max (Z.sub (Z.quot nl1 coeff) (Zpos XH)) (Zpos XH)),
              (Z.quot nl1 coeff))
            in
            let (ni, nlt) = p in
            let dlngt =
              qdiv { qnum = (Zpos (XO (XO (XO (XI (XO (XI (XI (XO
                XH))))))))); qden = XH } (qZ ni)
            in
            let mm =
              qfloor
                (qplus
                  (qdiv
                    (qminus (qmult (qN lon0) (qZ (Z.sub nlt (Zpos XH))))
                      (qmult (qN lon1) (qZ nlt))) div17) { qnum = (Zpos XH);
                  qden = (XO XH) })
            in
            let lon2 =
              qmult dlngt (qplus (qZ (pmod mm ni)) (qdiv (qN lon1) div17))
            in
            Some ((if N.eqb form (Npos XH) then rlat1 else rlat0),
            (signed_lon lon2))
       else let p = ((Z.max (Z.quot nl0 coeff) (Zpos XH)), (Z.quot nl0 coeff))
            in
            let (ni, nlt) = p in
            let dlngt =
              qdiv { qnum = (Zpos (XO (XO (XO (XI (XO (XI (XI (XO
                XH))))))))); qden = XH } (qZ ni)
            in
            let mm =
              qfloor
                (qplus
                  (qdiv
                    (qminus (qmult (qN lon0) (qZ (Z.sub nlt (Zpos XH))))
                      (qmult (qN lon1) (qZ nlt))) div17) { qnum = (Zpos XH);
                  qden = (XO XH) })
            in
            let lon2 =
              qmult dlngt (qplus (qZ (pmod mm ni)) (qdiv (qN lon0) div17))
            in
            Some ((if N.eqb form (Npos XH) then rlat1 else rlat0),
            (signed_lon lon2))
  else None

(** val bds : n list -> (n * n) res **)

let bds m =
  bind (idx m (S (S (S (S (S (S (S (S O))))))))) (fun m8 ->
    bind (idx m (S (S (S (S (S (S (S (S (S O)))))))))) (fun m9 ->
      let b1 = N.coq_land m8 (Npos (XI (XI (XI XH)))) in
      let b2 = N.coq_land m9 (Npos (XI (XI (XI XH)))) in
      if (&&) (N.eqb b1 (Npos XH)) (N.eqb b2 N0)
      then bind (idx m (S (S (S (S (S (S (S (S (S (S O))))))))))) (fun m10 ->
             bind (idx m (S (S (S (S (S (S (S (S (S (S (S O))))))))))))
               (fun m11 ->
               if (&&) (N.eqb (N.coq_land m10 (Npos (XI (XI XH)))) N0)
                    (N.eqb (N.coq_land m11 (Npos (XO (XO (XI XH))))) N0)
               then Ok ((Npos XH), N0)
               else Ok (N0, N0)))
      else if (&&) (N.eqb b1 (Npos (XO XH))) (N.eqb b2 N0)
           then Ok ((Npos (XO XH)), N0)
           else if (&&) (N.eqb b1 (Npos (XI XH))) (N.eqb b2 N0)
                then bind
                       (range_value m (S (S (S (S (S (S (S (S (S (S (S (S (S
                         (S (S (S (S (S (S (S (S (S (S (S (S (S (S (S (S (S
                         (S (S (S (S (S (S (S (S (S (S (S (S (S (S (S (S (S
                         (S O))))))))))))))))))))))))))))))))))))))))))))))))
                         (S (S (S (S (S (S (S (S (S (S (S (S (S (S (S (S (S
                         (S (S (S (S (S (S (S (S (S (S (S (S (S (S (S (S (S
                         (S (S (S (S (S (S (S (S (S (S (S (S (S (S (S (S (S
                         (S (S (S
                         O)))))))))))))))))))))))))))))))))))))))))))))))))))))))
                       (fun v ->
                       match v with
                       | Some value ->
                         bind
                           (idx m (S (S (S (S (S (S (S (S (S (S (S (S (S (S
                             (S O)))))))))))))))) (fun m15 ->
                           if (&&)
                                (negb
                                  (N.eqb
                                    (N.coq_land m15 (Npos (XO (XO (XI XH)))))
                                    (Npos (XO (XO (XI XH))))))
                                (N.ltb value (Npos (XO (XO (XO (XO (XI
                                  XH)))))))
                           then Ok ((Npos (XI XH)), N0)
                           else Ok (N0, N0))
                       | None -> Ok (N0, N0))
                else Ok (N0, N0)))

(** val goodflags : n list -> nat -> nat -> nat -> bool res **)

let goodflags m flag sb eb =
  bind (flag_and_range_value m flag sb eb) (fun fv -> Ok
    (match fv with
     | Some p ->
       let (f, r) = p in if N.eqb f N0 then false else negb (N.eqb r N0)
     | None -> false))

(** val orelse : bool res -> bool res -> bool res **)

let orelse a b =
  bind a (fun x -> if x then Ok true else b)

(** val andalso : bool res -> bool res -> bool res **)

let andalso a b =
  bind a (fun x -> if x then b else Ok false)

(** val rnot : bool res -> bool res **)

let rnot a =
  bind a (fun x -> Ok (negb x))

type capability = { c_flags : n; c20 : bool; c40 : bool; c44 : bool;
                    c50 : bool; c60 : bool }

(** val cap_default : capability **)

let cap_default =
  { c_flags = N0; c20 = false; c40 = false; c44 = false; c50 = false; c60 =
    false }

(** val is_bds_1_7 : n list -> capability option res **)

let is_bds_1_7 m =
  bind
    (flag_and_range_value m (S (S (S (S (S (S (S (S (S (S (S (S (S (S (S (S
      (S (S (S (S (S (S (S (S (S (S (S (S (S (S (S (S (S (S (S (S (S (S (S
      O))))))))))))))))))))))))))))))))))))))) (S (S (S (S (S (S (S (S (S (S
      (S (S (S (S (S (S (S (S (S (S (S (S (S (S (S (S (S (S (S (S (S (S (S (S
      (S (S (S (S (S (S (S (S (S (S (S (S (S (S (S (S (S (S (S (S (S (S (S (S
      (S (S (S O)))))))))))))))))))))))))))))))))))))))))))))))))))))))))))))
      (S (S (S (S (S (S (S (S (S (S (S (S (S (S (S (S (S (S (S (S (S (S (S (S
      (S (S (S (S (S (S (S (S (S (S (S (S (S (S (S (S (S (S (S (S (S (S (S (S
      (S (S (S (S (S (S (S (S (S (S (S (S (S (S (S (S (S (S (S (S (S (S (S (S
      (S (S (S (S (S (S (S (S (S (S (S (S (S (S (S (S
      O)))))))))))))))))))))))))))))))))))))))))))))))))))))))))))))))))))))))))))))))))))))))))
    (fun fv ->
    match fv with
    | Some p ->
      let (bds20, reserved) = p in
      if (||) (negb (N.eqb bds20 (Npos XH))) (negb (N.eqb reserved N0))
      then Ok None
      else bind
             (range_value m (S (S (S (S (S (S (S (S (S (S (S (S (S (S (S (S
               (S (S (S (S (S (S (S (S (S (S (S (S (S (S (S (S (S
               O))))))))))))))))))))))))))))))))) (S (S (S (S (S (S (S (S (S
               (S (S (S (S (S (S (S (S (S (S (S (S (S (S (S (S (S (S (S (S (S
               (S (S (S (S (S (S (S (S (S (S (S (S (S (S (S (S (S (S (S (S (S
               (S (S (S (S (S
               O)))))))))))))))))))))))))))))))))))))))))))))))))))))))))
             (fun c -> Ok
             (omap (fun c0 -> { c_flags = c0; c20 = true; c40 =
               (N.eqb
                 (N.coq_land (N.shiftr c0 (Npos (XI (XI (XI XH))))) (Npos XH))
                 (Npos XH)); c44 =
               (N.eqb
                 (N.coq_land (N.shiftr c0 (Npos (XI (XI (XO XH))))) (Npos XH))
                 (Npos XH)); c50 =
               (N.eqb
                 (N.coq_land (N.shiftr c0 (Npos (XO (XO (XO XH))))) (Npos XH))
                 (Npos XH)); c60 =
               (N.eqb (N.coq_land c0 (Npos XH)) (Npos XH)) }) c))
    | None -> Ok None)

(** val mcp_selected_altitude : n list -> n option res **)

let mcp_selected_altitude m =
  bind
    (flag_and_range_value m (S (S (S (S (S (S (S (S (S (S (S (S (S (S (S (S
      (S (S (S (S (S (S (S (S (S (S (S (S (S (S (S (S (S
      O))))))))))))))))))))))))))))))))) (S (S (S (S (S (S (S (S (S (S (S (S
      (S (S (S (S (S (S (S (S (S (S (S (S (S (S (S (S (S (S (S (S (S (S
      O)))))))))))))))))))))))))))))))))) (S (S (S (S (S (S (S (S (S (S (S (S
      (S (S (S (S (S (S (S (S (S (S (S (S (S (S (S (S (S (S (S (S (S (S (S (S
      (S (S (S (S (S (S (S (S (S
      O)))))))))))))))))))))))))))))))))))))))))))))) (fun fv -> Ok
    (omap (fun pat -> let (_, v) = pat in N.shiftl v (Npos (XO (XO XH))))
      (ofilter (fun pat -> let (f, _) = pat in N.eqb f (Npos XH)) fv)))

(** val fms_selected_altitude : n list -> n option res **)

let fms_selected_altitude m =
  bind
    (flag_and_range_value m (S (S (S (S (S (S (S (S (S (S (S (S (S (S (S (S
      (S (S (S (S (S (S (S (S (S (S (S (S (S (S (S (S (S (S (S (S (S (S (S (S
      (S (S (S (S (S (S O)))))))))))))))))))))))))))))))))))))))))))))) (S (S
      (S (S (S (S (S (S (S (S (S (S (S (S (S (S (S (S (S (S (S (S (S (S (S (S
      (S (S (S (S (S (S (S (S (S (S (S (S (S (S (S (S (S (S (S (S (S
      O))))))))))))))))))))))))))))))))))))))))))))))) (S (S (S (S (S (S (S
      (S (S (S (S (S (S (S (S (S (S (S (S (S (S (S (S (S (S (S (S (S (S (S (S
      (S (S (S (S (S (S (S (S (S (S (S (S (S (S (S (S (S (S (S (S (S (S (S (S
      (S (S (S O)))))))))))))))))))))))))))))))))))))))))))))))))))))))))))
    (fun fv -> Ok
    (omap (fun pat -> let (_, v) = pat in N.shiftl v (Npos (XO (XO XH))))
      (ofilter (fun pat -> let (f, _) = pat in N.eqb f (Npos XH)) fv)))

(** val barometric_pressure_setting : n list -> n option res **)

let barometric_pressure_setting m =
  bind
    (flag_and_range_value m (S (S (S (S (S (S (S (S (S (S (S (S (S (S (S (S
      (S (S (S (S (S (S (S (S (S (S (S (S (S (S (S (S (S (S (S (S (S (S (S (S
      (S (S (S (S (S (S (S (S (S (S (S (S (S (S (S (S (S (S (S
      O))))))))))))))))))))))))))))))))))))))))))))))))))))))))))) (S (S (S
      (S (S (S (S (S (S (S (S (S (S (S (S (S (S (S (S (S (S (S (S (S (S (S (S
      (S (S (S (S (S (S (S (S (S (S (S (S (S (S (S (S (S (S (S (S (S (S (S (S
      (S (S (S (S (S (S (S (S (S
      O)))))))))))))))))))))))))))))))))))))))))))))))))))))))))))) (S (S (S
      (S (S (S (S (S (S (S (S (S (S (S (S (S (S (S (S (S (S (S (S (S (S (S (S
      (S (S (S (S (S (S (S (S (S (S (S (S (S (S (S (S (S (S (S (S (S (S (S (S
      (S (S (S (S (S (S (S (S (S (S (S (S (S (S (S (S (S (S (S (S
      O))))))))))))))))))))))))))))))))))))))))))))))))))))))))))))))))))))))))
    (fun fv -> Ok
    (omap (fun pat ->
      let (s, v) = pat in
      if N.eqb s (Npos XH)
      then N.add (N.div v (Npos (XO (XI (XO XH))))) (Npos (XO (XO (XO (XO (XO
             (XI (XO (XO (XI XH))))))))))
      else N.div v (Npos (XO (XI (XO XH))))) fv))

(** val target_altitude_source : n list -> n option res **)

let target_altitude_source m =
  bind
    (flag_and_range_value m (S (S (S (S (S (S (S (S (S (S (S (S (S (S (S (S
      (S (S (S (S (S (S (S (S (S (S (S (S (S (S (S (S (S (S (S (S (S (S (S (S
      (S (S (S (S (S (S (S (S (S (S (S (S (S (S (S (S (S (S (S (S (S (S (S (S
      (S (S (S (S (S (S (S (S (S (S (S (S (S (S (S (S (S (S (S (S (S (S
      O))))))))))))))))))))))))))))))))))))))))))))))))))))))))))))))))))))))))))))))))))))))
      (S (S (S (S (S (S (S (S (S (S (S (S (S (S (S (S (S (S (S (S (S (S (S (S
      (S (S (S (S (S (S (S (S (S (S (S (S (S (S (S (S (S (S (S (S (S (S (S (S
      (S (S (S (S (S (S (S (S (S (S (S (S (S (S (S (S (S (S (S (S (S (S (S (S
      (S (S (S (S (S (S (S (S (S (S (S (S (S (S (S
      O)))))))))))))))))))))))))))))))))))))))))))))))))))))))))))))))))))))))))))))))))))))))
      (S (S (S (S (S (S (S (S (S (S (S (S (S (S (S (S (S (S (S (S (S (S (S (S
      (S (S (S (S (S (S (S (S (S (S (S (S (S (S (S (S (S (S (S (S (S (S (S (S
      (S (S (S (S (S (S (S (S (S (S (S (S (S (S (S (S (S (S (S (S (S (S (S (S
      (S (S (S (S (S (S (S (S (S (S (S (S (S (S (S (S
      O)))))))))))))))))))))))))))))))))))))))))))))))))))))))))))))))))))))))))))))))))))))))))
    (fun fv -> Ok
    (omap (fun pat -> let (_, v) = pat in v)
      (ofilter (fun pat -> let (f, _) = pat in N.eqb f (Npos XH)) fv)))

type bds40 = { b40_mcp : n option; b40_fms : n option; b40_baro : n option;
               b40_src : n option }

(** val in_range : n -> n -> n -> bool **)

let in_range lo hi x =
  (&&) (N.leb lo x) (N.leb x hi)

(** val is_bds_4_0 : n list -> bds40 option res **)

let is_bds_4_0 m =
  bind
    (orelse
      (rnot
        (goodflags m (S (S (S (S (S (S (S (S (S (S (S (S (S (S (S (S (S (S (S
          (S (S (S (S (S (S (S (S (S (S (S (S (S (S
          O))))))))))))))))))))))))))))))))) (S (S (S (S (S (S (S (S (S (S (S
          (S (S (S (S (S (S (S (S (S (S (S (S (S (S (S (S (S (S (S (S (S (S
          (S O)))))))))))))))))))))))))))))))))) (S (S (S (S (S (S (S (S (S
          (S (S (S (S (S (S (S (S (S (S (S (S (S (S (S (S (S (S (S (S (S (S
          (S (S (S (S (S (S (S (S (S (S (S (S (S (S
          O)))))))))))))))))))))))))))))))))))))))))))))))
      (orelse
        (rnot
          (goodflags m (S (S (S (S (S (S (S (S (S (S (S (S (S (S (S (S (S (S
            (S (S (S (S (S (S (S (S (S (S (S (S (S (S (S (S (S (S (S (S (S (S
            (S (S (S (S (S (S O))))))))))))))))))))))))))))))))))))))))))))))
            (S (S (S (S (S (S (S (S (S (S (S (S (S (S (S (S (S (S (S (S (S (S
            (S (S (S (S (S (S (S (S (S (S (S (S (S (S (S (S (S (S (S (S (S (S
            (S (S (S O))))))))))))))))))))))))))))))))))))))))))))))) (S (S
            (S (S (S (S (S (S (S (S (S (S (S (S (S (S (S (S (S (S (S (S (S (S
            (S (S (S (S (S (S (S (S (S (S (S (S (S (S (S (S (S (S (S (S (S (S
            (S (S (S (S (S (S (S (S (S (S (S (S
            O))))))))))))))))))))))))))))))))))))))))))))))))))))))))))))
        (orelse
          (rnot
            (goodflags m (S (S (S (S (S (S (S (S (S (S (S (S (S (S (S (S (S
              (S (S (S (S (S (S (S (S (S (S (S (S (S (S (S (S (S (S (S (S (S
              (S (S (S (S (S (S (S (S (S (S (S (S (S (S (S (S (S (S (S (S (S
              O))))))))))))))))))))))))))))))))))))))))))))))))))))))))))) (S
              (S (S (S (S (S (S (S (S (S (S (S (S (S (S (S (S (S (S (S (S (S
              (S (S (S (S (S (S (S (S (S (S (S (S (S (S (S (S (S (S (S (S (S
              (S (S (S (S (S (S (S (S (S (S (S (S (S (S (S (S (S
              O))))))))))))))))))))))))))))))))))))))))))))))))))))))))))))
              (S (S (S (S (S (S (S (S (S (S (S (S (S (S (S (S (S (S (S (S (S
              (S (S (S (S (S (S (S (S (S (S (S (S (S (S (S (S (S (S (S (S (S
              (S (S (S (S (S (S (S (S (S (S (S (S (S (S (S (S (S (S (S (S (S
              (S (S (S (S (S (S (S (S
              O)))))))))))))))))))))))))))))))))))))))))))))))))))))))))))))))))))))))))
          (orelse
            (goodflags m (S (S (S (S (S (S (S (S (S (S (S (S (S (S (S (S (S
              (S (S (S (S (S (S (S (S (S (S (S (S (S (S (S (S
              O))))))))))))))))))))))))))))))))) (S (S (S (S (S (S (S (S (S
              (S (S (S (S (S (S (S (S (S (S (S (S (S (S (S (S (S (S (S (S (S
              (S (S (S (S (S (S (S (S (S (S (S (S (S (S (S (S (S (S (S (S (S
              (S (S (S (S (S (S (S (S (S (S (S (S (S (S (S (S (S (S (S (S (S
              O))))))))))))))))))))))))))))))))))))))))))))))))))))))))))))))))))))))))
              (S (S (S (S (S (S (S (S (S (S (S (S (S (S (S (S (S (S (S (S (S
              (S (S (S (S (S (S (S (S (S (S (S (S (S (S (S (S (S (S (S (S (S
              (S (S (S (S (S (S (S (S (S (S (S (S (S (S (S (S (S (S (S (S (S
              (S (S (S (S (S (S (S (S (S (S (S (S (S (S (S (S
              O))))))))))))))))))))))))))))))))))))))))))))))))))))))))))))))))))))))))))))))))
            (goodflags m (S (S (S (S (S (S (S (S (S (S (S (S (S (S (S (S (S
              (S (S (S (S (S (S (S (S (S (S (S (S (S (S (S (S
              O))))))))))))))))))))))))))))))))) (S (S (S (S (S (S (S (S (S
              (S (S (S (S (S (S (S (S (S (S (S (S (S (S (S (S (S (S (S (S (S
              (S (S (S (S (S (S (S (S (S (S (S (S (S (S (S (S (S (S (S (S (S
              (S (S (S (S (S (S (S (S (S (S (S (S (S (S (S (S (S (S (S (S (S
              (S (S (S (S (S (S (S (S (S (S (S (S
              O))))))))))))))))))))))))))))))))))))))))))))))))))))))))))))))))))))))))))))))))))))
              (S (S (S (S (S (S (S (S (S (S (S (S (S (S (S (S (S (S (S (S (S
              (S (S (S (S (S (S (S (S (S (S (S (S (S (S (S (S (S (S (S (S (S
              (S (S (S (S (S (S (S (S (S (S (S (S (S (S (S (S (S (S (S (S (S
              (S (S (S (S (S (S (S (S (S (S (S (S (S (S (S (S (S (S (S (S (S
              (S
              O))))))))))))))))))))))))))))))))))))))))))))))))))))))))))))))))))))))))))))))))))))))))))
    (fun bad ->
    if bad
    then Ok None
    else bind (mcp_selected_altitude m) (fun a ->
           bind (fms_selected_altitude m) (fun b ->
             bind (barometric_pressure_setting m) (fun c ->
               bind (target_altitude_source m) (fun d ->
                 let i = { b40_mcp =
                   (ofilter
                     (in_range N0 (Npos (XO (XI (XO (XI (XI (XI (XI (XI (XI
                       (XI (XI (XI (XI (XI (XI XH))))))))))))))))) a);
                   b40_fms =
                   (ofilter
                     (in_range N0 (Npos (XO (XI (XO (XI (XI (XI (XI (XI (XI
                       (XI (XI (XI (XI (XI (XI XH))))))))))))))))) b);
                   b40_baro =
                   (ofilter
                     (in_range (Npos (XO (XO (XO (XO (XO (XI (XO (XO (XI
                       XH)))))))))) (Npos (XO (XI (XO (XI (XI (XI (XO (XI (XO
                       (XO XH)))))))))))) c); b40_src =
                   (ofilter (in_range N0 (Npos (XI XH))) d) }
                 in
                 if (||) (is_some i.b40_mcp) (is_some i.b40_fms)
                 then Ok (Some i)
                 else Ok None)))))

(** val roll_angle_5_0 : n list -> z option res **)

let roll_angle_5_0 m =
  bind
    (status_flag_and_range_value m (S (S (S (S (S (S (S (S (S (S (S (S (S (S
      (S (S (S (S (S (S (S (S (S (S (S (S (S (S (S (S (S (S (S
      O))))))))))))))))))))))))))))))))) (S (S (S (S (S (S (S (S (S (S (S (S
      (S (S (S (S (S (S (S (S (S (S (S (S (S (S (S (S (S (S (S (S (S (S
      O)))))))))))))))))))))))))))))))))) (S (S (S (S (S (S (S (S (S (S (S (S
      (S (S (S (S (S (S (S (S (S (S (S (S (S (S (S (S (S (S (S (S (S (S (S
      O))))))))))))))))))))))))))))))))))) (S (S (S (S (S (S (S (S (S (S (S
      (S (S (S (S (S (S (S (S (S (S (S (S (S (S (S (S (S (S (S (S (S (S (S (S
      (S (S (S (S (S (S (S (S O))))))))))))))))))))))))))))))))))))))))))))
    (fun v -> Ok
    (omap (fun pat ->
      let (y, value) = pat in
      let (_, sign) = y in
      let x =
        Z.quot (Z.mul (Z.of_N value) (Zpos (XI (XO (XI (XI (XO XH)))))))
          (Zpos (XO (XO (XO (XO (XO (XO (XO (XO XH)))))))))
      in
      if N.eqb sign N0
      then x
      else Z.sub x (Zpos (XO (XI (XO (XI (XI (XO XH))))))))
      (ofilter (fun pat ->
        let (y, _) = pat in let (s, _) = y in N.eqb s (Npos XH)) v)))

(** val track_angle_5_0 : n list -> n option res **)

let track_angle_5_0 m =
  bind
    (status_flag_and_range_value m (S (S (S (S (S (S (S (S (S (S (S (S (S (S
      (S (S (S (S (S (S (S (S (S (S (S (S (S (S (S (S (S (S (S (S (S (S (S (S
      (S (S (S (S (S (S O)))))))))))))))))))))))))))))))))))))))))))) (S (S
      (S (S (S (S (S (S (S (S (S (S (S (S (S (S (S (S (S (S (S (S (S (S (S (S
      (S (S (S (S (S (S (S (S (S (S (S (S (S (S (S (S (S (S (S
      O))))))))))))))))))))))))))))))))))))))))))))) (S (S (S (S (S (S (S (S
      (S (S (S (S (S (S (S (S (S (S (S (S (S (S (S (S (S (S (S (S (S (S (S (S
      (S (S (S (S (S (S (S (S (S (S (S (S (S (S
      O)))))))))))))))))))))))))))))))))))))))))))))) (S (S (S (S (S (S (S (S
      (S (S (S (S (S (S (S (S (S (S (S (S (S (S (S (S (S (S (S (S (S (S (S (S
      (S (S (S (S (S (S (S (S (S (S (S (S (S (S (S (S (S (S (S (S (S (S (S
      O)))))))))))))))))))))))))))))))))))))))))))))))))))))))) (fun v -> Ok
    (omap (fun pat ->
      let (y, value) = pat in
      let (_, sign) = y in
      let a =
        N.shiftr (N.mul value (Npos (XO (XI (XO (XI (XI (XO XH)))))))) (Npos
          (XI (XO (XO XH))))
      in
      if N.eqb sign N0
      then a
      else N.add a (Npos (XO (XO (XI (XO (XI (XI (XO XH)))))))))
      (ofilter (fun pat ->
        let (y, _) = pat in let (s, _) = y in N.eqb s (Npos XH)) v)))

(** val track_angle_rate_5_0 : n list -> z option res **)

let track_angle_rate_5_0 m =
  bind
    (status_flag_and_range_value m (S (S (S (S (S (S (S (S (S (S (S (S (S (S
      (S (S (S (S (S (S (S (S (S (S (S (S (S (S (S (S (S (S (S (S (S (S (S (S
      (S (S (S (S (S (S (S (S (S (S (S (S (S (S (S (S (S (S (S (S (S (S (S (S
      (S (S (S (S (S
      O))))))))))))))))))))))))))))))))))))))))))))))))))))))))))))))))))) (S
      (S (S (S (S (S (S (S (S (S (S (S (S (S (S (S (S (S (S (S (S (S (S (S (S
      (S (S (S (S (S (S (S (S (S (S (S (S (S (S (S (S (S (S (S (S (S (S (S (S
      (S (S (S (S (S (S (S (S (S (S (S (S (S (S (S (S (S (S (S
      O))))))))))))))))))))))))))))))))))))))))))))))))))))))))))))))))))))
      (S (S (S (S (S (S (S (S (S (S (S (S (S (S (S (S (S (S (S (S (S (S (S (S
      (S (S (S (S (S (S (S (S (S (S (S (S (S (S (S (S (S (S (S (S (S (S (S (S
      (S (S (S (S (S (S (S (S (S (S (S (S (S (S (S (S (S (S (S (S (S
      O)))))))))))))))))))))))))))))))))))))))))))))))))))))))))))))))))))))
      (S (S (S (S (S (S (S (S (S (S (S (S (S (S (S (S (S (S (S (S (S (S (S (S
      (S (S (S (S (S (S (S (S (S (S (S (S (S (S (S (S (S (S (S (S (S (S (S (S
      (S (S (S (S (S (S (S (S (S (S (S (S (S (S (S (S (S (S (S (S (S (S (S (S
      (S (S (S (S (S
      O))))))))))))))))))))))))))))))))))))))))))))))))))))))))))))))))))))))))))))))
    (fun v -> Ok
    (omap (fun pat ->
      let (y, value) = pat in
      let (_, sign) = y in
      let a =
        Z.of_N
          (N.shiftr (N.shiftl value (Npos (XI XH))) (Npos (XO (XO (XO XH)))))
      in
      if N.eqb sign N0 then a else Z.sub a (Zpos (XO (XO (XO (XO XH))))))
      (ofilter (fun pat ->
        let (y, _) = pat in let (s, _) = y in N.eqb s (Npos XH)) v)))

(** val ground_speed_5_0 : n list -> n option res **)

let ground_speed_5_0 m =
  bind
    (flag_and_range_value m (S (S (S (S (S (S (S (S (S (S (S (S (S (S (S (S
      (S (S (S (S (S (S (S (S (S (S (S (S (S (S (S (S (S (S (S (S (S (S (S (S
      (S (S (S (S (S (S (S (S (S (S (S (S (S (S (S (S
      O)))))))))))))))))))))))))))))))))))))))))))))))))))))))) (S (S (S (S
      (S (S (S (S (S (S (S (S (S (S (S (S (S (S (S (S (S (S (S (S (S (S (S (S
      (S (S (S (S (S (S (S (S (S (S (S (S (S (S (S (S (S (S (S (S (S (S (S (S
      (S (S (S (S (S
      O))))))))))))))))))))))))))))))))))))))))))))))))))))))))) (S (S (S (S
      (S (S (S (S (S (S (S (S (S (S (S (S (S (S (S (S (S (S (S (S (S (S (S (S
      (S (S (S (S (S (S (S (S (S (S (S (S (S (S (S (S (S (S (S (S (S (S (S (S
      (S (S (S (S (S (S (S (S (S (S (S (S (S (S
      O)))))))))))))))))))))))))))))))))))))))))))))))))))))))))))))))))))
    (fun fv -> Ok
    (omap (fun pat -> let (_, v) = pat in N.shiftl v (Npos XH))
      (ofilter (fun pat -> let (f, _) = pat in N.eqb f (Npos XH)) fv)))

(** val true_airspeed_5_0 : n list -> n option res **)

let true_airspeed_5_0 m =
  bind
    (flag_and_range_value m (S (S (S (S (S (S (S (S (S (S (S (S (S (S (S (S
      (S (S (S (S (S (S (S (S (S (S (S (S (S (S (S (S (S (S (S (S (S (S (S (S
      (S (S (S (S (S (S (S (S (S (S (S (S (S (S (S (S (S (S (S (S (S (S (S (S
      (S (S (S (S (S (S (S (S (S (S (S (S (S (S
      O))))))))))))))))))))))))))))))))))))))))))))))))))))))))))))))))))))))))))))))
      (S (S (S (S (S (S (S (S (S (S (S (S (S (S (S (S (S (S (S (S (S (S (S (S
      (S (S (S (S (S (S (S (S (S (S (S (S (S (S (S (S (S (S (S (S (S (S (S (S
      (S (S (S (S (S (S (S (S (S (S (S (S (S (S (S (S (S (S (S (S (S (S (S (S
      (S (S (S (S (S (S (S
      O)))))))))))))))))))))))))))))))))))))))))))))))))))))))))))))))))))))))))))))))
      (S (S (S (S (S (S (S (S (S (S (S (S (S (S (S (S (S (S (S (S (S (S (S (S
      (S (S (S (S (S (S (S (S (S (S (S (S (S (S (S (S (S (S (S (S (S (S (S (S
      (S (S (S (S (S (S (S (S (S (S (S (S (S (S (S (S (S (S (S (S (S (S (S (S
      (S (S (S (S (S (S (S (S (S (S (S (S (S (S (S (S
      O)))))))))))))))))))))))))))))))))))))))))))))))))))))))))))))))))))))))))))))))))))))))))
    (fun fv -> Ok
    (omap (fun pat -> let (_, v) = pat in N.shiftl v (Npos XH))
      (ofilter (fun pat -> let (f, _) = pat in N.eqb f (Npos XH)) fv)))

type bds50 = { b50_roll : z option; b50_track : n option; b50_tar : z option;
               b50_gs : n option; b50_tas : n option }

(** val zin_range : z -> z -> z -> bool **)

let zin_range lo hi x =
  (&&) (Z.leb lo x) (Z.leb x hi)

(** val abs_diff : n -> n -> n **)

let abs_diff a b =
  if N.leb a b then N.sub b a else N.sub a b

(** val is_bds_5_0 : n list -> bds50 option res **)

let is_bds_5_0 m =
  bind
    (orelse
      (rnot
        (goodflags m (S (S (S (S (S (S (S (S (S (S (S (S (S (S (S (S (S (S (S
          (S (S (S (S (S (S (S (S (S (S (S (S (S (S
          O))))))))))))))))))))))))))))))))) (S (S (S (S (S (S (S (S (S (S (S
          (S (S (S (S (S (S (S (S (S (S (S (S (S (S (S (S (S (S (S (S (S (S
          (S O)))))))))))))))))))))))))))))))))) (S (S (S (S (S (S (S (S (S
          (S (S (S (S (S (S (S (S (S (S (S (S (S (S (S (S (S (S (S (S (S (S
          (S (S (S (S (S (S (S (S (S (S (S (S
          O)))))))))))))))))))))))))))))))))))))))))))))
      (orelse
        (rnot
          (goodflags m (S (S (S (S (S (S (S (S (S (S (S (S (S (S (S (S (S (S
            (S (S (S (S (S (S (S (S (S (S (S (S (S (S (S (S (S (S (S (S (S (S
            (S (S (S (S O)))))))))))))))))))))))))))))))))))))))))))) (S (S
            (S (S (S (S (S (S (S (S (S (S (S (S (S (S (S (S (S (S (S (S (S (S
            (S (S (S (S (S (S (S (S (S (S (S (S (S (S (S (S (S (S (S (S (S
            O))))))))))))))))))))))))))))))))))))))))))))) (S (S (S (S (S (S
            (S (S (S (S (S (S (S (S (S (S (S (S (S (S (S (S (S (S (S (S (S (S
            (S (S (S (S (S (S (S (S (S (S (S (S (S (S (S (S (S (S (S (S (S (S
            (S (S (S (S (S
            O)))))))))))))))))))))))))))))))))))))))))))))))))))))))))
        (orelse
          (rnot
            (goodflags m (S (S (S (S (S (S (S (S (S (S (S (S (S (S (S (S (S
              (S (S (S (S (S (S (S (S (S (S (S (S (S (S (S (S (S (S (S (S (S
              (S (S (S (S (S (S (S (S (S (S (S (S (S (S (S (S (S (S
              O)))))))))))))))))))))))))))))))))))))))))))))))))))))))) (S (S
              (S (S (S (S (S (S (S (S (S (S (S (S (S (S (S (S (S (S (S (S (S
              (S (S (S (S (S (S (S (S (S (S (S (S (S (S (S (S (S (S (S (S (S
              (S (S (S (S (S (S (S (S (S (S (S (S (S
              O))))))))))))))))))))))))))))))))))))))))))))))))))))))))) (S
              (S (S (S (S (S (S (S (S (S (S (S (S (S (S (S (S (S (S (S (S (S
              (S (S (S (S (S (S (S (S (S (S (S (S (S (S (S (S (S (S (S (S (S
              (S (S (S (S (S (S (S (S (S (S (S (S (S (S (S (S (S (S (S (S (S
              (S (S
              O))))))))))))))))))))))))))))))))))))))))))))))))))))))))))))))))))))
          (orelse
            (rnot
              (goodflags m (S (S (S (S (S (S (S (S (S (S (S (S (S (S (S (S (S
                (S (S (S (S (S (S (S (S (S (S (S (S (S (S (S (S (S (S (S (S
                (S (S (S (S (S (S (S (S (S (S (S (S (S (S (S (S (S (S (S (S
                (S (S (S (S (S (S (S (S (S (S
                O)))))))))))))))))))))))))))))))))))))))))))))))))))))))))))))))))))
                (S (S (S (S (S (S (S (S (S (S (S (S (S (S (S (S (S (S (S (S
                (S (S (S (S (S (S (S (S (S (S (S (S (S (S (S (S (S (S (S (S
                (S (S (S (S (S (S (S (S (S (S (S (S (S (S (S (S (S (S (S (S
                (S (S (S (S (S (S (S (S
                O))))))))))))))))))))))))))))))))))))))))))))))))))))))))))))))))))))
                (S (S (S (S (S (S (S (S (S (S (S (S (S (S (S (S (S (S (S (S
                (S (S (S (S (S (S (S (S (S (S (S (S (S (S (S (S (S (S (S (S
                (S (S (S (S (S (S (S (S (S (S (S (S (S (S (S (S (S (S (S (S
                (S (S (S (S (S (S (S (S (S (S (S (S (S (S (S (S (S
                O)))))))))))))))))))))))))))))))))))))))))))))))))))))))))))))))))))))))))))))))
            (rnot
              (goodflags m (S (S (S (S (S (S (S (S (S (S (S (S (S (S (S (S (S
                (S (S (S (S (S (S (S (S (S (S (S (S (S (S (S (S (S (S (S (S
                (S (S (S (S (S (S (S (S (S (S (S (S (S (S (S (S (S (S (S (S
                (S (S (S (S (S (S (S (S (S (S (S (S (S (S (S (S (S (S (S (S
                (S
                O))))))))))))))))))))))))))))))))))))))))))))))))))))))))))))))))))))))))))))))
                (S (S (S (S (S (S (S (S (S (S (S (S (S (S (S (S (S (S (S (S
                (S (S (S (S (S (S (S (S (S (S (S (S (S (S (S (S (S (S (S (S
                (S (S (S (S (S (S (S (S (S (S (S (S (S (S (S (S (S (S (S (S
                (S (S (S (S (S (S (S (S (S (S (S (S (S (S (S (S (S (S (S
                O)))))))))))))))))))))))))))))))))))))))))))))))))))))))))))))))))))))))))))))))
                (S (S (S (S (S (S (S (S (S (S (S (S (S (S (S (S (S (S (S (S
                (S (S (S (S (S (S (S (S (S (S (S (S (S (S (S (S (S (S (S (S
                (S (S (S (S (S (S (S (S (S (S (S (S (S (S (S (S (S (S (S (S
                (S (S (S (S (S (S (S (S (S (S (S (S (S (S (S (S (S (S (S (S
                (S (S (S (S (S (S (S (S
                O))))))))))))))))))))))))))))))))))))))))))))))))))))))))))))))))))))))))))))))))))))))))))))))
    (fun bad ->
    if bad
    then Ok None
    else bind (roll_angle_5_0 m) (fun r ->
           bind (track_angle_5_0 m) (fun t ->
             bind (track_angle_rate_5_0 m) (fun tr ->
               bind (ground_speed_5_0 m) (fun g ->
                 bind (true_airspeed_5_0 m) (fun a ->
                   let k = { b50_roll =
                     (ofilter
                       (zin_range (Zneg (XO (XI (XO (XO (XI XH)))))) (Zpos
                         (XO (XI (XO (XO (XI XH))))))) r); b50_track =
                     (ofilter
                       (in_range N0 (Npos (XO (XO (XO (XI (XO (XI (XI (XO
                         XH)))))))))) t); b50_tar =
                     (ofilter
                       (zin_range (Zneg (XO (XO (XO (XO XH))))) (Zpos (XO (XO
                         (XO (XO XH)))))) tr); b50_gs =
                     (ofilter
                       (in_range N0 (Npos (XO (XO (XO (XI (XI (XO (XI (XO (XO
                         XH))))))))))) g); b50_tas =
                     (ofilter
                       (in_range N0 (Npos (XO (XO (XI (XO (XI (XI (XI (XI
                         XH)))))))))) a) }
                   in
                   (match k.b50_gs with
                    | Some gs ->
                      (match k.b50_tas with
                       | Some tas ->
                         (match k.b50_roll with
                          | Some _ ->
                            (match k.b50_track with
                             | Some _ ->
                               (match k.b50_tar with
                                | Some _ ->
                                  if N.ltb (abs_diff gs tas) (Npos (XO (XO
                                       (XO (XI (XO (XO (XI XH))))))))
                                  then Ok (Some k)
                                  else Ok None
                                | None -> Ok None)
                             | None -> Ok None)
                          | None -> Ok None)
                       | None -> Ok None)
                    | None -> Ok None)))))))

(** val magnetic_heading_6_0 : n list -> n option res **)

let magnetic_heading_6_0 m =
  bind
    (status_flag_and_range_value m (S (S (S (S (S (S (S (S (S (S (S (S (S (S
      (S (S (S (S (S (S (S (S (S (S (S (S (S (S (S (S (S (S (S
      O))))))))))))))))))))))))))))))))) (S (S (S (S (S (S (S (S (S (S (S (S
      (S (S (S (S (S (S (S (S (S (S (S (S (S (S (S (S (S (S (S (S (S (S
      O)))))))))))))))))))))))))))))))))) (S (S (S (S (S (S (S (S (S (S (S (S
      (S (S (S (S (S (S (S (S (S (S (S (S (S (S (S (S (S (S (S (S (S (S (S
      O))))))))))))))))))))))))))))))))))) (S (S (S (S (S (S (S (S (S (S (S
      (S (S (S (S (S (S (S (S (S (S (S (S (S (S (S (S (S (S (S (S (S (S (S (S
      (S (S (S (S (S (S (S (S (S
      O))))))))))))))))))))))))))))))))))))))))))))) (fun v -> Ok
    (omap (fun pat ->
      let (y, value) = pat in
      let (_, sign) = y in
      let h =
        N.shiftr (N.mul value (Npos (XO (XI (XO (XI (XI (XO XH)))))))) (Npos
          (XI (XO (XO XH))))
      in
      if N.eqb sign N0
      then h
      else N.add h (Npos (XO (XO (XI (XO (XI (XI (XO XH)))))))))
      (ofilter (fun pat ->
        let (y, _) = pat in let (s, _) = y in N.eqb s (Npos XH)) v)))

(** val indicated_airspeed_6_0 : n list -> n option res **)

let indicated_airspeed_6_0 m =
  bind
    (flag_and_range_value m (S (S (S (S (S (S (S (S (S (S (S (S (S (S (S (S
      (S (S (S (S (S (S (S (S (S (S (S (S (S (S (S (S (S (S (S (S (S (S (S (S
      (S (S (S (S (S O))))))))))))))))))))))))))))))))))))))))))))) (S (S (S
      (S (S (S (S (S (S (S (S (S (S (S (S (S (S (S (S (S (S (S (S (S (S (S (S
      (S (S (S (S (S (S (S (S (S (S (S (S (S (S (S (S (S (S (S
      O)))))))))))))))))))))))))))))))))))))))))))))) (S (S (S (S (S (S (S (S
      (S (S (S (S (S (S (S (S (S (S (S (S (S (S (S (S (S (S (S (S (S (S (S (S
      (S (S (S (S (S (S (S (S (S (S (S (S (S (S (S (S (S (S (S (S (S (S (S
      O)))))))))))))))))))))))))))))))))))))))))))))))))))))))) (fun fv -> Ok
    (omap (fun pat -> let (_, v) = pat in v)
      (ofilter (fun pat ->
        let (f, v) = pat in (&&) (N.eqb f (Npos XH)) (negb (N.eqb v N0))) fv)))

(** val mach_number_6_0 : n list -> q option res **)

let mach_number_6_0 m =
  bind
    (flag_and_range_value m (S (S (S (S (S (S (S (S (S (S (S (S (S (S (S (S
      (S (S (S (S (S (S (S (S (S (S (S (S (S (S (S (S (S (S (S (S (S (S (S (S
      (S (S (S (S (S (S (S (S (S (S (S (S (S (S (S (S
      O)))))))))))))))))))))))))))))))))))))))))))))))))))))))) (S (S (S (S
      (S (S (S (S (S (S (S (S (S (S (S (S (S (S (S (S (S (S (S (S (S (S (S (S
      (S (S (S (S (S (S (S (S (S (S (S (S (S (S (S (S (S (S (S (S (S (S (S (S
      (S (S (S (S (S
      O))))))))))))))))))))))))))))))))))))))))))))))))))))))))) (S (S (S (S
      (S (S (S (S (S (S (S (S (S (S (S (S (S (S (S (S (S (S (S (S (S (S (S (S
      (S (S (S (S (S (S (S (S (S (S (S (S (S (S (S (S (S (S (S (S (S (S (S (S
      (S (S (S (S (S (S (S (S (S (S (S (S (S (S
      O)))))))))))))))))))))))))))))))))))))))))))))))))))))))))))))))))))
    (fun fv -> Ok
    (omap (fun pat ->
      let (_, v) = pat in
      { qnum = (Z.mul (Z.of_N v) (Zpos (XO (XO XH)))); qden = (XO (XO (XO (XI
      (XO (XI (XI (XI (XI XH))))))))) })
      (ofilter (fun pat ->
        let (f, v) = pat in (&&) (N.eqb f (Npos XH)) (negb (N.eqb v N0))) fv)))

(** val barometric_altitude_rate_6_0 : n list -> z option res **)

let barometric_altitude_rate_6_0 m =
  bind
    (status_flag_and_range_value m (S (S (S (S (S (S (S (S (S (S (S (S (S (S
      (S (S (S (S (S (S (S (S (S (S (S (S (S (S (S (S (S (S (S (S (S (S (S (S
      (S (S (S (S (S (S (S (S (S (S (S (S (S (S (S (S (S (S (S (S (S (S (S (S
      (S (S (S (S (S
      O))))))))))))))))))))))))))))))))))))))))))))))))))))))))))))))))))) (S
      (S (S (S (S (S (S (S (S (S (S (S (S (S (S (S (S (S (S (S (S (S (S (S (S
      (S (S (S (S (S (S (S (S (S (S (S (S (S (S (S (S (S (S (S (S (S (S (S (S
      (S (S (S (S (S (S (S (S (S (S (S (S (S (S (S (S (S (S (S
      O))))))))))))))))))))))))))))))))))))))))))))))))))))))))))))))))))))
      (S (S (S (S (S (S (S (S (S (S (S (S (S (S (S (S (S (S (S (S (S (S (S (S
      (S (S (S (S (S (S (S (S (S (S (S (S (S (S (S (S (S (S (S (S (S (S (S (S
      (S (S (S (S (S (S (S (S (S (S (S (S (S (S (S (S (S (S (S (S (S
      O)))))))))))))))))))))))))))))))))))))))))))))))))))))))))))))))))))))
      (S (S (S (S (S (S (S (S (S (S (S (S (S (S (S (S (S (S (S (S (S (S (S (S
      (S (S (S (S (S (S (S (S (S (S (S (S (S (S (S (S (S (S (S (S (S (S (S (S
      (S (S (S (S (S (S (S (S (S (S (S (S (S (S (S (S (S (S (S (S (S (S (S (S
      (S (S (S (S (S
      O))))))))))))))))))))))))))))))))))))))))))))))))))))))))))))))))))))))))))))))
    (fun v -> Ok
    (omap (fun pat ->
      let (y, value) = pat in
      let (_, sign) = y in
      let r = Z.of_N (N.shiftl value (Npos (XI (XO XH)))) in
      if N.eqb sign N0
      then r
      else Z.sub r (Zpos (XO (XO (XO (XO (XO (XO (XO (XO (XO (XO (XO (XO (XO
             (XO XH))))))))))))))))
      (ofilter (fun pat ->
        let (y, v0) = pat in
        let (s, _) = y in (&&) (N.eqb s (Npos XH)) (negb (N.eqb v0 N0))) v)))

(** val internal_vertical_velocity_6_0 : n list -> z option res **)

let internal_vertical_velocity_6_0 m =
  bind
    (status_flag_and_range_value m (S (S (S (S (S (S (S (S (S (S (S (S (S (S
      (S (S (S (S (S (S (S (S (S (S (S (S (S (S (S (S (S (S (S (S (S (S (S (S
      (S (S (S (S (S (S (S (S (S (S (S (S (S (S (S (S (S (S (S (S (S (S (S (S
      (S (S (S (S (S (S (S (S (S (S (S (S (S (S (S (S
      O))))))))))))))))))))))))))))))))))))))))))))))))))))))))))))))))))))))))))))))
      (S (S (S (S (S (S (S (S (S (S (S (S (S (S (S (S (S (S (S (S (S (S (S (S
      (S (S (S (S (S (S (S (S (S (S (S (S (S (S (S (S (S (S (S (S (S (S (S (S
      (S (S (S (S (S (S (S (S (S (S (S (S (S (S (S (S (S (S (S (S (S (S (S (S
      (S (S (S (S (S (S (S
      O)))))))))))))))))))))))))))))))))))))))))))))))))))))))))))))))))))))))))))))))
      (S (S (S (S (S (S (S (S (S (S (S (S (S (S (S (S (S (S (S (S (S (S (S (S
      (S (S (S (S (S (S (S (S (S (S (S (S (S (S (S (S (S (S (S (S (S (S (S (S
      (S (S (S (S (S (S (S (S (S (S (S (S (S (S (S (S (S (S (S (S (S (S (S (S
      (S (S (S (S (S (S (S (S
      O))))))))))))))))))))))))))))))))))))))))))))))))))))))))))))))))))))))))))))))))
      (S (S (S (S (S (S (S (S (S (S (S (S (S (S (S (S (S (S (S (S (S (S (S (S
      (S (S (S (S (S (S (S (S (S (S (S (S (S (S (S (S (S (S (S (S (S (S (S (S
      (S (S (S (S (S (S (S (S (S (S (S (S (S (S (S (S (S (S (S (S (S (S (S (S
      (S (S (S (S (S (S (S (S (S (S (S (S (S (S (S (S
      O)))))))))))))))))))))))))))))))))))))))))))))))))))))))))))))))))))))))))))))))))))))))))
    (fun v -> Ok
    (omap (fun pat ->
      let (y, value) = pat in
      let (_, sign) = y in
      let r = Z.of_N (N.shiftl value (Npos (XI (XO XH)))) in
      if N.eqb sign N0
      then r
      else Z.sub r (Zpos (XO (XO (XO (XO (XO (XO (XO (XO (XO (XO (XO (XO (XO
             (XO XH))))))))))))))))
      (ofilter (fun pat ->
        let (y, v0) = pat in
        let (s, _) = y in (&&) (N.eqb s (Npos XH)) (negb (N.eqb v0 N0))) v)))

type bds60 = { b60_hdg : n option; b60_ias : n option; b60_mach : q option;
               b60_baro_rate : z option; b60_ivv : z option }

(** val osat : ('a1 -> bool) -> 'a1 option -> bool **)

let osat p = function
| Some a -> p a
| None -> false

(** val onone : 'a1 option -> bool **)

let onone = function
| Some _ -> false
| None -> true

(** val is_bds_6_0 : n list -> bds60 option res **)

let is_bds_6_0 m =
  bind
    (andalso
      (goodflags m (S (S (S (S (S (S (S (S (S (S (S (S (S (S (S (S (S (S (S
        (S (S (S (S (S (S (S (S (S (S (S (S (S (S
        O))))))))))))))))))))))))))))))))) (S (S (S (S (S (S (S (S (S (S (S
        (S (S (S (S (S (S (S (S (S (S (S (S (S (S (S (S (S (S (S (S (S (S (S
        O)))))))))))))))))))))))))))))))))) (S (S (S (S (S (S (S (S (S (S (S
        (S (S (S (S (S (S (S (S (S (S (S (S (S (S (S (S (S (S (S (S (S (S (S
        (S (S (S (S (S (S (S (S (S (S
        O)))))))))))))))))))))))))))))))))))))))))))))
      (andalso
        (goodflags m (S (S (S (S (S (S (S (S (S (S (S (S (S (S (S (S (S (S (S
          (S (S (S (S (S (S (S (S (S (S (S (S (S (S (S (S (S (S (S (S (S (S
          (S (S (S (S O))))))))))))))))))))))))))))))))))))))))))))) (S (S (S
          (S (S (S (S (S (S (S (S (S (S (S (S (S (S (S (S (S (S (S (S (S (S
          (S (S (S (S (S (S (S (S (S (S (S (S (S (S (S (S (S (S (S (S (S
          O)))))))))))))))))))))))))))))))))))))))))))))) (S (S (S (S (S (S
          (S (S (S (S (S (S (S (S (S (S (S (S (S (S (S (S (S (S (S (S (S (S
          (S (S (S (S (S (S (S (S (S (S (S (S (S (S (S (S (S (S (S (S (S (S
          (S (S (S (S (S
          O))))))))))))))))))))))))))))))))))))))))))))))))))))))))
        (andalso
          (goodflags m (S (S (S (S (S (S (S (S (S (S (S (S (S (S (S (S (S (S
            (S (S (S (S (S (S (S (S (S (S (S (S (S (S (S (S (S (S (S (S (S (S
            (S (S (S (S (S (S (S (S (S (S (S (S (S (S (S (S
            O)))))))))))))))))))))))))))))))))))))))))))))))))))))))) (S (S
            (S (S (S (S (S (S (S (S (S (S (S (S (S (S (S (S (S (S (S (S (S (S
            (S (S (S (S (S (S (S (S (S (S (S (S (S (S (S (S (S (S (S (S (S (S
            (S (S (S (S (S (S (S (S (S (S (S
            O))))))))))))))))))))))))))))))))))))))))))))))))))))))))) (S (S
            (S (S (S (S (S (S (S (S (S (S (S (S (S (S (S (S (S (S (S (S (S (S
            (S (S (S (S (S (S (S (S (S (S (S (S (S (S (S (S (S (S (S (S (S (S
            (S (S (S (S (S (S (S (S (S (S (S (S (S (S (S (S (S (S (S (S
            O)))))))))))))))))))))))))))))))))))))))))))))))))))))))))))))))))))
          (andalso
            (goodflags m (S (S (S (S (S (S (S (S (S (S (S (S (S (S (S (S (S
              (S (S (S (S (S (S (S (S (S (S (S (S (S (S (S (S (S (S (S (S (S
              (S (S (S (S (S (S (S (S (S (S (S (S (S (S (S (S (S (S (S (S (S
              (S (S (S (S (S (S (S (S
              O)))))))))))))))))))))))))))))))))))))))))))))))))))))))))))))))))))
              (S (S (S (S (S (S (S (S (S (S (S (S (S (S (S (S (S (S (S (S (S
              (S (S (S (S (S (S (S (S (S (S (S (S (S (S (S (S (S (S (S (S (S
              (S (S (S (S (S (S (S (S (S (S (S (S (S (S (S (S (S (S (S (S (S
              (S (S (S (S (S
              O))))))))))))))))))))))))))))))))))))))))))))))))))))))))))))))))))))
              (S (S (S (S (S (S (S (S (S (S (S (S (S (S (S (S (S (S (S (S (S
              (S (S (S (S (S (S (S (S (S (S (S (S (S (S (S (S (S (S (S (S (S
              (S (S (S (S (S (S (S (S (S (S (S (S (S (S (S (S (S (S (S (S (S
              (S (S (S (S (S (S (S (S (S (S (S (S (S (S
              O))))))))))))))))))))))))))))))))))))))))))))))))))))))))))))))))))))))))))))))
            (goodflags m (S (S (S (S (S (S (S (S (S (S (S (S (S (S (S (S (S
              (S (S (S (S (S (S (S (S (S (S (S (S (S (S (S (S (S (S (S (S (S
              (S (S (S (S (S (S (S (S (S (S (S (S (S (S (S (S (S (S (S (S (S
              (S (S (S (S (S (S (S (S (S (S (S (S (S (S (S (S (S (S (S
              O))))))))))))))))))))))))))))))))))))))))))))))))))))))))))))))))))))))))))))))
              (S (S (S (S (S (S (S (S (S (S (S (S (S (S (S (S (S (S (S (S (S
              (S (S (S (S (S (S (S (S (S (S (S (S (S (S (S (S (S (S (S (S (S
              (S (S (S (S (S (S (S (S (S (S (S (S (S (S (S (S (S (S (S (S (S
              (S (S (S (S (S (S (S (S (S (S (S (S (S (S (S (S
              O)))))))))))))))))))))))))))))))))))))))))))))))))))))))))))))))))))))))))))))))
              (S (S (S (S (S (S (S (S (S (S (S (S (S (S (S (S (S (S (S (S (S
              (S (S (S (S (S (S (S (S (S (S (S (S (S (S (S (S (S (S (S (S (S
              (S (S (S (S (S (S (S (S (S (S (S (S (S (S (S (S (S (S (S (S (S
              (S (S (S (S (S (S (S (S (S (S (S (S (S (S (S (S (S (S (S (S (S
              (S (S (S (S
              O)))))))))))))))))))))))))))))))))))))))))))))))))))))))))))))))))))))))))))))))))))))))))))))
    (fun good ->
    if negb good
    then Ok None
    else bind (magnetic_heading_6_0 m) (fun h ->
           bind (indicated_airspeed_6_0 m) (fun i ->
             bind (mach_number_6_0 m) (fun ma ->
               bind (barometric_altitude_rate_6_0 m) (fun b ->
                 bind (internal_vertical_velocity_6_0 m) (fun v ->
                   let k = { b60_hdg = h; b60_ias = i; b60_mach = ma;
                     b60_baro_rate = b; b60_ivv = v }
                   in
                   if (&&)
                        ((&&)
                          ((&&)
                            ((&&)
                              (osat
                                (in_range N0 (Npos (XO (XO (XO (XI (XO (XI
                                  (XI (XO XH)))))))))) h)
                              (osat
                                (in_range N0 (Npos (XI (XI (XI (XI (XI (XI
                                  (XI (XI (XI XH))))))))))) i))
                            (osat (fun x ->
                              (&&) (qle_bool { qnum = Z0; qden = XH } x)
                                (qle_bool x { qnum = (Zpos XH); qden = XH }))
                              ma))
                          ((||)
                            (osat
                              (zin_range (Zneg (XO (XO (XO (XO (XI (XI (XI
                                (XO (XI (XI (XI (XO XH))))))))))))) (Zpos (XO
                                (XO (XO (XO (XI (XI (XI (XO (XI (XI (XI (XO
                                XH)))))))))))))) b) (onone b)))
                        ((||)
                          (osat
                            (zin_range (Zneg (XO (XO (XO (XO (XI (XI (XI (XO
                              (XI (XI (XI (XO XH))))))))))))) (Zpos (XO (XO
                              (XO (XO (XI (XI (XI (XO (XI (XI (XI (XO
                              XH)))))))))))))) v) (onone v))
                   then Ok (Some k)
                   else Ok None))))))

(** val temperature_4_4 : n list -> q option res **)

let temperature_4_4 m =
  bind
    (flag_and_range_value m (S (S (S (S (S (S (S (S (S (S (S (S (S (S (S (S
      (S (S (S (S (S (S (S (S (S (S (S (S (S (S (S (S (S (S (S (S (S (S (S (S
      (S (S (S (S (S (S (S (S (S (S (S (S (S (S (S (S
      O)))))))))))))))))))))))))))))))))))))))))))))))))))))))) (S (S (S (S
      (S (S (S (S (S (S (S (S (S (S (S (S (S (S (S (S (S (S (S (S (S (S (S (S
      (S (S (S (S (S (S (S (S (S (S (S (S (S (S (S (S (S (S (S (S (S (S (S (S
      (S (S (S (S (S
      O))))))))))))))))))))))))))))))))))))))))))))))))))))))))) (S (S (S (S
      (S (S (S (S (S (S (S (S (S (S (S (S (S (S (S (S (S (S (S (S (S (S (S (S
      (S (S (S (S (S (S (S (S (S (S (S (S (S (S (S (S (S (S (S (S (S (S (S (S
      (S (S (S (S (S (S (S (S (S (S (S (S (S (S
      O)))))))))))))))))))))))))))))))))))))))))))))))))))))))))))))))))))
    (fun fv -> Ok
    (omap (fun pat ->
      let (sign, value) = pat in
      if N.eqb sign N0
      then { qnum = (Z.of_N value); qden = (XO (XO XH)) }
      else { qnum = (Z.opp (Z.of_N value)); qden = (XO (XO XH)) }) fv))

(** val wind_speed : n list -> n option res **)

let wind_speed m =
  bind
    (flag_and_range_value m (S (S (S (S (S (S (S (S (S (S (S (S (S (S (S (S
      (S (S (S (S (S (S (S (S (S (S (S (S (S (S (S (S (S (S (S (S (S
      O))))))))))))))))))))))))))))))))))))) (S (S (S (S (S (S (S (S (S (S (S
      (S (S (S (S (S (S (S (S (S (S (S (S (S (S (S (S (S (S (S (S (S (S (S (S
      (S (S (S O)))))))))))))))))))))))))))))))))))))) (S (S (S (S (S (S (S
      (S (S (S (S (S (S (S (S (S (S (S (S (S (S (S (S (S (S (S (S (S (S (S (S
      (S (S (S (S (S (S (S (S (S (S (S (S (S (S (S
      O))))))))))))))))))))))))))))))))))))))))))))))) (fun fv -> Ok
    (omap (fun pat -> let (_, v) = pat in v)
      (ofilter (fun pat -> let (s, _) = pat in N.eqb s (Npos XH)) fv)))

(** val wind_direction : n list -> n option res **)

let wind_direction m =
  bind
    (flag_and_range_value m (S (S (S (S (S (S (S (S (S (S (S (S (S (S (S (S
      (S (S (S (S (S (S (S (S (S (S (S (S (S (S (S (S (S (S (S (S (S
      O))))))))))))))))))))))))))))))))))))) (S (S (S (S (S (S (S (S (S (S (S
      (S (S (S (S (S (S (S (S (S (S (S (S (S (S (S (S (S (S (S (S (S (S (S (S
      (S (S (S (S (S (S (S (S (S (S (S (S
      O))))))))))))))))))))))))))))))))))))))))))))))) (S (S (S (S (S (S (S
      (S (S (S (S (S (S (S (S (S (S (S (S (S (S (S (S (S (S (S (S (S (S (S (S
      (S (S (S (S (S (S (S (S (S (S (S (S (S (S (S (S (S (S (S (S (S (S (S (S
      O)))))))))))))))))))))))))))))))))))))))))))))))))))))))) (fun fv -> Ok
    (omap (fun pat ->
      let (_, v) = pat in
      N.shiftr (N.mul v (Npos (XO (XO (XI (XO (XI (XI (XO XH))))))))) (Npos
        (XO (XO (XO XH)))))
      (ofilter (fun pat -> let (s, _) = pat in N.eqb s (Npos XH)) fv)))

(** val wind_4_4 : n list -> (n * n) option res **)

let wind_4_4 m =
  bind (wind_speed m) (fun ws ->
    match ws with
    | Some ws0 ->
      bind (wind_direction m) (fun wd -> Ok (omap (fun wd0 -> (ws0, wd0)) wd))
    | None -> Ok None)

(** val turbulence_4_4 : n list -> n option res **)

let turbulence_4_4 m =
  bind
    (flag_and_range_value m (S (S (S (S (S (S (S (S (S (S (S (S (S (S (S (S
      (S (S (S (S (S (S (S (S (S (S (S (S (S (S (S (S (S (S (S (S (S (S (S (S
      (S (S (S (S (S (S (S (S (S (S (S (S (S (S (S (S (S (S (S (S (S (S (S (S
      (S (S (S (S (S (S (S (S (S (S (S (S (S (S (S
      O)))))))))))))))))))))))))))))))))))))))))))))))))))))))))))))))))))))))))))))))
      (S (S (S (S (S (S (S (S (S (S (S (S (S (S (S (S (S (S (S (S (S (S (S (S
      (S (S (S (S (S (S (S (S (S (S (S (S (S (S (S (S (S (S (S (S (S (S (S (S
      (S (S (S (S (S (S (S (S (S (S (S (S (S (S (S (S (S (S (S (S (S (S (S (S
      (S (S (S (S (S (S (S (S
      O))))))))))))))))))))))))))))))))))))))))))))))))))))))))))))))))))))))))))))))))
      (S (S (S (S (S (S (S (S (S (S (S (S (S (S (S (S (S (S (S (S (S (S (S (S
      (S (S (S (S (S (S (S (S (S (S (S (S (S (S (S (S (S (S (S (S (S (S (S (S
      (S (S (S (S (S (S (S (S (S (S (S (S (S (S (S (S (S (S (S (S (S (S (S (S
      (S (S (S (S (S (S (S (S (S
      O))))))))))))))))))))))))))))))))))))))))))))))))))))))))))))))))))))))))))))))))))
    (fun fv -> Ok
    (omap (fun pat -> let (_, v) = pat in v)
      (ofilter (fun pat -> let (s, _) = pat in N.eqb s (Npos XH)) fv)))

(** val humidity_4_4 : n list -> n option res **)

let humidity_4_4 m =
  bind
    (flag_and_range_value m (S (S (S (S (S (S (S (S (S (S (S (S (S (S (S (S
      (S (S (S (S (S (S (S (S (S (S (S (S (S (S (S (S (S (S (S (S (S (S (S (S
      (S (S (S (S (S (S (S (S (S (S (S (S (S (S (S (S (S (S (S (S (S (S (S (S
      (S (S (S (S (S (S (S (S (S (S (S (S (S (S (S (S (S (S
      O))))))))))))))))))))))))))))))))))))))))))))))))))))))))))))))))))))))))))))))))))
      (S (S (S (S (S (S (S (S (S (S (S (S (S (S (S (S (S (S (S (S (S (S (S (S
      (S (S (S (S (S (S (S (S (S (S (S (S (S (S (S (S (S (S (S (S (S (S (S (S
      (S (S (S (S (S (S (S (S (S (S (S (S (S (S (S (S (S (S (S (S (S (S (S (S
      (S (S (S (S (S (S (S (S (S (S (S
      O)))))))))))))))))))))))))))))))))))))))))))))))))))))))))))))))))))))))))))))))))))
      (S (S (S (S (S (S (S (S (S (S (S (S (S (S (S (S (S (S (S (S (S (S (S (S
      (S (S (S (S (S (S (S (S (S (S (S (S (S (S (S (S (S (S (S (S (S (S (S (S
      (S (S (S (S (S (S (S (S (S (S (S (S (S (S (S (S (S (S (S (S (S (S (S (S
      (S (S (S (S (S (S (S (S (S (S (S (S (S (S (S (S
      O)))))))))))))))))))))))))))))))))))))))))))))))))))))))))))))))))))))))))))))))))))))))))
    (fun fv -> Ok
    (omap (fun pat ->
      let (_, v) = pat in
      N.shiftr (N.mul v (Npos (XO (XO (XI (XO (XO (XI XH)))))))) (Npos (XO
        (XI XH))))
      (ofilter (fun pat -> let (s, _) = pat in N.eqb s (Npos XH)) fv)))

(** val pressure_4_4 : n list -> n option res **)

let pressure_4_4 m =
  bind
    (flag_and_range_value m (S (S (S (S (S (S (S (S (S (S (S (S (S (S (S (S
      (S (S (S (S (S (S (S (S (S (S (S (S (S (S (S (S (S (S (S (S (S (S (S (S
      (S (S (S (S (S (S (S (S (S (S (S (S (S (S (S (S (S (S (S (S (S (S (S (S
      (S (S (S
      O))))))))))))))))))))))))))))))))))))))))))))))))))))))))))))))))))) (S
      (S (S (S (S (S (S (S (S (S (S (S (S (S (S (S (S (S (S (S (S (S (S (S (S
      (S (S (S (S (S (S (S (S (S (S (S (S (S (S (S (S (S (S (S (S (S (S (S (S
      (S (S (S (S (S (S (S (S (S (S (S (S (S (S (S (S (S (S (S
      O))))))))))))))))))))))))))))))))))))))))))))))))))))))))))))))))))))
      (S (S (S (S (S (S (S (S (S (S (S (S (S (S (S (S (S (S (S (S (S (S (S (S
      (S (S (S (S (S (S (S (S (S (S (S (S (S (S (S (S (S (S (S (S (S (S (S (S
      (S (S (S (S (S (S (S (S (S (S (S (S (S (S (S (S (S (S (S (S (S (S (S (S
      (S (S (S (S (S (S
      O)))))))))))))))))))))))))))))))))))))))))))))))))))))))))))))))))))))))))))))))
    (fun fv -> Ok
    (omap (fun pat -> let (_, v) = pat in v)
      (ofilter (fun pat -> let (s, _) = pat in N.eqb s (Npos XH)) fv)))

(** val temperature_4_5 : n list -> q option res **)

let temperature_4_5 m =
  bind
    (status_flag_and_range_value m (S (S (S (S (S (S (S (S (S (S (S (S (S (S
      (S (S (S (S (S (S (S (S (S (S (S (S (S (S (S (S (S (S (S (S (S (S (S (S
      (S (S (S (S (S (S (S (S (S (S
      O)))))))))))))))))))))))))))))))))))))))))))))))) (S (S (S (S (S (S (S
      (S (S (S (S (S (S (S (S (S (S (S (S (S (S (S (S (S (S (S (S (S (S (S (S
      (S (S (S (S (S (S (S (S (S (S (S (S (S (S (S (S (S (S
      O))))))))))))))))))))))))))))))))))))))))))))))))) (S (S (S (S (S (S (S
      (S (S (S (S (S (S (S (S (S (S (S (S (S (S (S (S (S (S (S (S (S (S (S (S
      (S (S (S (S (S (S (S (S (S (S (S (S (S (S (S (S (S (S (S
      O)))))))))))))))))))))))))))))))))))))))))))))))))) (S (S (S (S (S (S
      (S (S (S (S (S (S (S (S (S (S (S (S (S (S (S (S (S (S (S (S (S (S (S (S
      (S (S (S (S (S (S (S (S (S (S (S (S (S (S (S (S (S (S (S (S (S (S (S (S
      (S (S (S (S O)))))))))))))))))))))))))))))))))))))))))))))))))))))))))))
    (fun v -> Ok
    (omap (fun pat ->
      let (y, value) = pat in
      let (_, sign) = y in
      if N.eqb sign (Npos XH)
      then { qnum = (Z.opp (Z.of_N value)); qden = (XO (XO XH)) }
      else { qnum = (Z.of_N value); qden = (XO (XO XH)) })
      (ofilter (fun pat ->
        let (y, _) = pat in let (s, _) = y in N.eqb s (Npos XH)) v)))

type meteo = { me_temp : q option; me_wind : (n * n) option;
               me_hum : n option; me_turb : n option; me_pres : n option }

(** val is_bds_4_4 : n list -> meteo option res **)

let is_bds_4_4 m =
  bind
    (range_value m (S (S (S (S (S (S (S (S (S (S (S (S (S (S (S (S (S (S (S
      (S (S (S (S (S (S (S (S (S (S (S (S (S (S
      O))))))))))))))))))))))))))))))))) (S (S (S (S (S (S (S (S (S (S (S (S
      (S (S (S (S (S (S (S (S (S (S (S (S (S (S (S (S (S (S (S (S (S (S (S (S
      O))))))))))))))))))))))))))))))))))))) (fun fom ->
    match fom with
    | Some fom0 ->
      bind
        (andalso (Ok (N.ltb (Npos (XO (XO (XO XH)))) fom0))
          (andalso
            (goodflags m (S (S (S (S (S (S (S (S (S (S (S (S (S (S (S (S (S
              (S (S (S (S (S (S (S (S (S (S (S (S (S (S (S (S (S (S (S (S
              O))))))))))))))))))))))))))))))))))))) (S (S (S (S (S (S (S (S
              (S (S (S (S (S (S (S (S (S (S (S (S (S (S (S (S (S (S (S (S (S
              (S (S (S (S (S (S (S (S (S
              O)))))))))))))))))))))))))))))))))))))) (S (S (S (S (S (S (S (S
              (S (S (S (S (S (S (S (S (S (S (S (S (S (S (S (S (S (S (S (S (S
              (S (S (S (S (S (S (S (S (S (S (S (S (S (S (S (S (S (S (S (S (S
              (S (S (S (S (S
              O))))))))))))))))))))))))))))))))))))))))))))))))))))))))
            (andalso
              (goodflags m (S (S (S (S (S (S (S (S (S (S (S (S (S (S (S (S (S
                (S (S (S (S (S (S (S (S (S (S (S (S (S (S (S (S (S (S (S (S
                O))))))))))))))))))))))))))))))))))))) (S (S (S (S (S (S (S
                (S (S (S (S (S (S (S (S (S (S (S (S (S (S (S (S (S (S (S (S
                (S (S (S (S (S (S (S (S (S (S (S (S (S (S (S (S (S (S (S (S
                (S (S (S (S (S (S (S (S (S (S
                O))))))))))))))))))))))))))))))))))))))))))))))))))))))))) (S
                (S (S (S (S (S (S (S (S (S (S (S (S (S (S (S (S (S (S (S (S
                (S (S (S (S (S (S (S (S (S (S (S (S (S (S (S (S (S (S (S (S
                (S (S (S (S (S (S (S (S (S (S (S (S (S (S (S (S (S (S (S (S
                (S (S (S (S (S
                O)))))))))))))))))))))))))))))))))))))))))))))))))))))))))))))))))))
              (andalso
                (goodflags m (S (S (S (S (S (S (S (S (S (S (S (S (S (S (S (S
                  (S (S (S (S (S (S (S (S (S (S (S (S (S (S (S (S (S (S (S (S
                  (S (S (S (S (S (S (S (S (S (S (S (S (S (S (S (S (S (S (S (S
                  (S (S (S (S (S (S (S (S (S (S (S
                  O)))))))))))))))))))))))))))))))))))))))))))))))))))))))))))))))))))
                  (S (S (S (S (S (S (S (S (S (S (S (S (S (S (S (S (S (S (S (S
                  (S (S (S (S (S (S (S (S (S (S (S (S (S (S (S (S (S (S (S (S
                  (S (S (S (S (S (S (S (S (S (S (S (S (S (S (S (S (S (S (S (S
                  (S (S (S (S (S (S (S (S
                  O))))))))))))))))))))))))))))))))))))))))))))))))))))))))))))))))))))
                  (S (S (S (S (S (S (S (S (S (S (S (S (S (S (S (S (S (S (S (S
                  (S (S (S (S (S (S (S (S (S (S (S (S (S (S (S (S (S (S (S (S
                  (S (S (S (S (S (S (S (S (S (S (S (S (S (S (S (S (S (S (S (S
                  (S (S (S (S (S (S (S (S (S (S (S (S (S (S (S (S (S (S
                  O)))))))))))))))))))))))))))))))))))))))))))))))))))))))))))))))))))))))))))))))
                (andalso
                  (goodflags m (S (S (S (S (S (S (S (S (S (S (S (S (S (S (S
                    (S (S (S (S (S (S (S (S (S (S (S (S (S (S (S (S (S (S (S
                    (S (S (S (S (S (S (S (S (S (S (S (S (S (S (S (S (S (S (S
                    (S (S (S (S (S (S (S (S (S (S (S (S (S (S (S (S (S (S (S
                    (S (S (S (S (S (S (S
                    O)))))))))))))))))))))))))))))))))))))))))))))))))))))))))))))))))))))))))))))))
                    (S (S (S (S (S (S (S (S (S (S (S (S (S (S (S (S (S (S (S
                    (S (S (S (S (S (S (S (S (S (S (S (S (S (S (S (S (S (S (S
                    (S (S (S (S (S (S (S (S (S (S (S (S (S (S (S (S (S (S (S
                    (S (S (S (S (S (S (S (S (S (S (S (S (S (S (S (S (S (S (S
                    (S (S (S (S
                    O))))))))))))))))))))))))))))))))))))))))))))))))))))))))))))))))))))))))))))))))
                    (S (S (S (S (S (S (S (S (S (S (S (S (S (S (S (S (S (S (S
                    (S (S (S (S (S (S (S (S (S (S (S (S (S (S (S (S (S (S (S
                    (S (S (S (S (S (S (S (S (S (S (S (S (S (S (S (S (S (S (S
                    (S (S (S (S (S (S (S (S (S (S (S (S (S (S (S (S (S (S (S
                    (S (S (S (S (S
                    O))))))))))))))))))))))))))))))))))))))))))))))))))))))))))))))))))))))))))))))))))
                  (goodflags m (S (S (S (S (S (S (S (S (S (S (S (S (S (S (S
                    (S (S (S (S (S (S (S (S (S (S (S (S (S (S (S (S (S (S (S
                    (S (S (S (S (S (S (S (S (S (S (S (S (S (S (S (S (S (S (S
                    (S (S (S (S (S (S (S (S (S (S (S (S (S (S (S (S (S (S (S
                    (S (S (S (S (S (S (S (S (S (S
                    O))))))))))))))))))))))))))))))))))))))))))))))))))))))))))))))))))))))))))))))))))
                    (S (S (S (S (S (S (S (S (S (S (S (S (S (S (S (S (S (S (S
                    (S (S (S (S (S (S (S (S (S (S (S (S (S (S (S (S (S (S (S
                    (S (S (S (S (S (S (S (S (S (S (S (S (S (S (S (S (S (S (S
                    (S (S (S (S (S (S (S (S (S (S (S (S (S (S (S (S (S (S (S
                    (S (S (S (S (S (S (S
                    O)))))))))))))))))))))))))))))))))))))))))))))))))))))))))))))))))))))))))))))))))))
                    (S (S (S (S (S (S (S (S (S (S (S (S (S (S (S (S (S (S (S
                    (S (S (S (S (S (S (S (S (S (S (S (S (S (S (S (S (S (S (S
                    (S (S (S (S (S (S (S (S (S (S (S (S (S (S (S (S (S (S (S
                    (S (S (S (S (S (S (S (S (S (S (S (S (S (S (S (S (S (S (S
                    (S (S (S (S (S (S (S (S (S (S (S (S
                    O))))))))))))))))))))))))))))))))))))))))))))))))))))))))))))))))))))))))))))))))))))))))))))))
        (fun good ->
        if negb good
        then Ok None
        else bind (temperature_4_4 m) (fun t ->
               bind (wind_4_4 m) (fun w ->
                 bind (humidity_4_4 m) (fun h ->
                   bind (turbulence_4_4 m) (fun tb ->
                     bind (pressure_4_4 m) (fun p ->
                       let k = { me_temp =
                         (ofilter (fun x ->
                           (&&)
                             (qle_bool { qnum = (Zneg (XO (XO (XO (XO (XI (XO
                               XH))))))); qden = XH } x)
                             (qle_bool x { qnum = (Zpos (XO (XO (XI (XI (XI
                               XH)))))); qden = XH })) t); me_wind =
                         (ofilter (fun pat ->
                           let (a, _) = pat in
                           in_range N0 (Npos (XO (XO (XI (XI (XO (XI (XO (XO
                             XH))))))))) a) w); me_hum =
                         (ofilter
                           (in_range N0 (Npos (XO (XO (XI (XO (XO (XI
                             XH)))))))) h); me_turb =
                         (ofilter (in_range N0 (Npos (XI (XI (XI XH))))) tb);
                         me_pres =
                         (ofilter
                           (in_range N0 (Npos (XO (XO (XO (XO (XO (XO (XO (XO
                             (XO (XO (XO XH))))))))))))) p) }
                       in
                       if (&&)
                            ((&&)
                              ((&&) (is_some k.me_temp) (is_some k.me_hum))
                              (is_some k.me_turb)) (is_some k.me_pres)
                       then Ok (Some k)
                       else Ok None))))))
    | None -> Ok None)

(** val is_bds_4_5 : n list -> q option res **)

let is_bds_4_5 m =
  bind
    (andalso
      (goodflags m (S (S (S (S (S (S (S (S (S (S (S (S (S (S (S (S (S (S (S
        (S (S (S (S (S (S (S (S (S (S (S (S (S (S
        O))))))))))))))))))))))))))))))))) (S (S (S (S (S (S (S (S (S (S (S
        (S (S (S (S (S (S (S (S (S (S (S (S (S (S (S (S (S (S (S (S (S (S (S
        O)))))))))))))))))))))))))))))))))) (S (S (S (S (S (S (S (S (S (S (S
        (S (S (S (S (S (S (S (S (S (S (S (S (S (S (S (S (S (S (S (S (S (S (S
        (S O))))))))))))))))))))))))))))))))))))
      (andalso
        (goodflags m (S (S (S (S (S (S (S (S (S (S (S (S (S (S (S (S (S (S (S
          (S (S (S (S (S (S (S (S (S (S (S (S (S (S (S (S (S
          O)))))))))))))))))))))))))))))))))))) (S (S (S (S (S (S (S (S (S (S
          (S (S (S (S (S (S (S (S (S (S (S (S (S (S (S (S (S (S (S (S (S (S
          (S (S (S (S (S O))))))))))))))))))))))))))))))))))))) (S (S (S (S
          (S (S (S (S (S (S (S (S (S (S (S (S (S (S (S (S (S (S (S (S (S (S
          (S (S (S (S (S (S (S (S (S (S (S (S
          O)))))))))))))))))))))))))))))))))))))))
        (andalso
          (goodflags m (S (S (S (S (S (S (S (S (S (S (S (S (S (S (S (S (S (S
            (S (S (S (S (S (S (S (S (S (S (S (S (S (S (S (S (S (S (S (S (S
            O))))))))))))))))))))))))))))))))))))))) (S (S (S (S (S (S (S (S
            (S (S (S (S (S (S (S (S (S (S (S (S (S (S (S (S (S (S (S (S (S (S
            (S (S (S (S (S (S (S (S (S (S
            O)))))))))))))))))))))))))))))))))))))))) (S (S (S (S (S (S (S (S
            (S (S (S (S (S (S (S (S (S (S (S (S (S (S (S (S (S (S (S (S (S (S
            (S (S (S (S (S (S (S (S (S (S (S
            O))))))))))))))))))))))))))))))))))))))))))
          (andalso
            (goodflags m (S (S (S (S (S (S (S (S (S (S (S (S (S (S (S (S (S
              (S (S (S (S (S (S (S (S (S (S (S (S (S (S (S (S (S (S (S (S (S
              (S (S (S (S O)))))))))))))))))))))))))))))))))))))))))) (S (S
              (S (S (S (S (S (S (S (S (S (S (S (S (S (S (S (S (S (S (S (S (S
              (S (S (S (S (S (S (S (S (S (S (S (S (S (S (S (S (S (S (S (S
              O))))))))))))))))))))))))))))))))))))))))))) (S (S (S (S (S (S
              (S (S (S (S (S (S (S (S (S (S (S (S (S (S (S (S (S (S (S (S (S
              (S (S (S (S (S (S (S (S (S (S (S (S (S (S (S (S (S
              O)))))))))))))))))))))))))))))))))))))))))))))
            (andalso
              (goodflags m (S (S (S (S (S (S (S (S (S (S (S (S (S (S (S (S (S
                (S (S (S (S (S (S (S (S (S (S (S (S (S (S (S (S (S (S (S (S
                (S (S (S (S (S (S (S (S
                O))))))))))))))))))))))))))))))))))))))))))))) (S (S (S (S (S
                (S (S (S (S (S (S (S (S (S (S (S (S (S (S (S (S (S (S (S (S
                (S (S (S (S (S (S (S (S (S (S (S (S (S (S (S (S (S (S (S (S
                (S O)))))))))))))))))))))))))))))))))))))))))))))) (S (S (S
                (S (S (S (S (S (S (S (S (S (S (S (S (S (S (S (S (S (S (S (S
                (S (S (S (S (S (S (S (S (S (S (S (S (S (S (S (S (S (S (S (S
                (S (S (S (S O))))))))))))))))))))))))))))))))))))))))))))))))
              (andalso
                (goodflags m (S (S (S (S (S (S (S (S (S (S (S (S (S (S (S (S
                  (S (S (S (S (S (S (S (S (S (S (S (S (S (S (S (S (S (S (S (S
                  (S (S (S (S (S (S (S (S (S (S (S (S
                  O)))))))))))))))))))))))))))))))))))))))))))))))) (S (S (S
                  (S (S (S (S (S (S (S (S (S (S (S (S (S (S (S (S (S (S (S (S
                  (S (S (S (S (S (S (S (S (S (S (S (S (S (S (S (S (S (S (S (S
                  (S (S (S (S (S (S
                  O))))))))))))))))))))))))))))))))))))))))))))))))) (S (S (S
                  (S (S (S (S (S (S (S (S (S (S (S (S (S (S (S (S (S (S (S (S
                  (S (S (S (S (S (S (S (S (S (S (S (S (S (S (S (S (S (S (S (S
                  (S (S (S (S (S (S (S (S (S (S (S (S (S (S (S
                  O)))))))))))))))))))))))))))))))))))))))))))))))))))))))))))
                (andalso
                  (goodflags m (S (S (S (S (S (S (S (S (S (S (S (S (S (S (S
                    (S (S (S (S (S (S (S (S (S (S (S (S (S (S (S (S (S (S (S
                    (S (S (S (S (S (S (S (S (S (S (S (S (S (S (S (S (S (S (S
                    (S (S (S (S (S (S
                    O)))))))))))))))))))))))))))))))))))))))))))))))))))))))))))
                    (S (S (S (S (S (S (S (S (S (S (S (S (S (S (S (S (S (S (S
                    (S (S (S (S (S (S (S (S (S (S (S (S (S (S (S (S (S (S (S
                    (S (S (S (S (S (S (S (S (S (S (S (S (S (S (S (S (S (S (S
                    (S (S (S
                    O))))))))))))))))))))))))))))))))))))))))))))))))))))))))))))
                    (S (S (S (S (S (S (S (S (S (S (S (S (S (S (S (S (S (S (S
                    (S (S (S (S (S (S (S (S (S (S (S (S (S (S (S (S (S (S (S
                    (S (S (S (S (S (S (S (S (S (S (S (S (S (S (S (S (S (S (S
                    (S (S (S
                    O)))))))))))))))))))))))))))))))))))))))))))))))))))))))))))))
                  (andalso
                    (goodflags m (S (S (S (S (S (S (S (S (S (S (S (S (S (S (S
                      (S (S (S (S (S (S (S (S (S (S (S (S (S (S (S (S (S (S
                      (S (S (S (S (S (S (S (S (S (S (S (S (S (S (S (S (S (S
                      (S (S (S (S (S (S (S (S (S (S (S (S (S (S (S (S (S (S
                      (S (S
                      O)))))))))))))))))))))))))))))))))))))))))))))))))))))))))))))))))))))))
                      (S (S (S (S (S (S (S (S (S (S (S (S (S (S (S (S (S (S
                      (S (S (S (S (S (S (S (S (S (S (S (S (S (S (S (S (S (S
                      (S (S (S (S (S (S (S (S (S (S (S (S (S (S (S (S (S (S
                      (S (S (S (S (S (S (S (S (S (S (S (S (S (S (S (S (S (S
                      O))))))))))))))))))))))))))))))))))))))))))))))))))))))))))))))))))))))))
                      (S (S (S (S (S (S (S (S (S (S (S (S (S (S (S (S (S (S
                      (S (S (S (S (S (S (S (S (S (S (S (S (S (S (S (S (S (S
                      (S (S (S (S (S (S (S (S (S (S (S (S (S (S (S (S (S (S
                      (S (S (S (S (S (S (S (S (S (S (S (S (S (S (S (S (S (S
                      (S (S (S (S (S (S (S (S (S (S (S
                      O))))))))))))))))))))))))))))))))))))))))))))))))))))))))))))))))))))))))))))))))))))
                    (rnot
                      (goodflags m (S (S (S (S (S (S (S (S (S (S (S (S (S (S
                        (S (S (S (S (S (S (S (S (S (S (S (S (S (S (S (S (S (S
                        (S O))))))))))))))))))))))))))))))))) (S (S (S (S (S
                        (S (S (S (S (S (S (S (S (S (S (S (S (S (S (S (S (S (S
                        (S (S (S (S (S (S (S (S (S (S (S (S (S (S (S (S (S (S
                        (S (S (S (S (S (S (S (S (S (S (S (S (S (S (S (S (S (S
                        (S (S (S (S (S (S (S (S (S (S (S (S (S (S (S (S (S (S
                        (S (S (S (S (S (S (S
                        O))))))))))))))))))))))))))))))))))))))))))))))))))))))))))))))))))))))))))))))))))))
                        (S (S (S (S (S (S (S (S (S (S (S (S (S (S (S (S (S (S
                        (S (S (S (S (S (S (S (S (S (S (S (S (S (S (S (S (S (S
                        (S (S (S (S (S (S (S (S (S (S (S (S (S (S (S (S (S (S
                        (S (S (S (S (S (S (S (S (S (S (S (S (S (S (S (S (S (S
                        (S (S (S (S (S (S (S (S (S (S (S (S (S (S (S (S
                        O))))))))))))))))))))))))))))))))))))))))))))))))))))))))))))))))))))))))))))))))))))))))))))))))))
    (fun good ->
    if negb good
    then Ok None
    else bind (temperature_4_5 m) (fun t -> Ok
           (ofilter (fun x ->
             qle_bool x { qnum = (Zpos (XI (XO (XI (XI (XO XH)))))); qden =
               XH }) t)))

type ('r, 't) setter = ('t -> 't) -> 'r -> 'r

(** val set :
    ('a1 -> 'a2) -> ('a1, 'a2) setter -> ('a2 -> 'a2) -> 'a1 -> 'a1 **)

let set _ setter0 =
  setter0

type row = { icao : n; cap_ca : n; cap : capability; category : (n * n);
             reg : string; r_ais : n list option; r_altitude : n option;
             altitude_gnss_ : n option; altitude_source : n;
             selected_altitude : n option; baro_setting : n option;
             target_alt_source : n; r_squawk : n option; surv_status : 
             n; threat : n option; vrate : z option; vrate_source : n;
             cpr_lat0 : n; cpr_lat1 : n; cpr_lon0 : n; cpr_lon1 : n;
             cpr_t0 : z; cpr_t1 : z; cpr_s0 : bool; cpr_s1 : bool; lat : 
             q; lon : q; dist : (((q * q) * q) * q) option;
             grspeed : n option; true_airspeed : n option;
             indicated_airspeed : n option; mach : q option;
             ground_mov : q option; turn : n; track : n option;
             track_source : n; r_heading : n option; heading_source : 
             n; roll_angle : z option; track_angle_rate : z option;
             bds50_t : z option; temperature : q option;
             wind : (n * n) option; turbulence : n option;
             humidity : n option; pressure : n option; timestamp : z;
             position_t : z option; track_t : z option; heading_t : z option;
             last_tc : n; last_df : n; adsb_version : n option }

(** val sP : n **)

let sP =
  Npos (XO (XO (XO (XO (XO XH)))))

(** val row_new : z -> row **)

let row_new now =
  { icao = N0; cap_ca = N0; cap = cap_default; category = (N0, N0); reg =
    EmptyString; r_ais = None; r_altitude = None; altitude_gnss_ = None;
    altitude_source = sP; selected_altitude = None; baro_setting = None;
    target_alt_source = sP; r_squawk = None; surv_status = sP; threat = None;
    vrate = None; vrate_source = (Npos (XI (XI (XI (XI (XI (XO XH)))))));
    cpr_lat0 = N0; cpr_lat1 = N0; cpr_lon0 = N0; cpr_lon1 = N0; cpr_t0 = now;
    cpr_t1 = now; cpr_s0 = false; cpr_s1 = false; lat = { qnum = Z0; qden =
    XH }; lon = { qnum = Z0; qden = XH }; dist = None; grspeed = None;
    true_airspeed = None; indicated_airspeed = None; mach = None;
    ground_mov = None; turn = N0; track = None; track_source = sP;
    r_heading = None; heading_source = sP; roll_angle = None;
    track_angle_rate = None; bds50_t = None; temperature = None; wind = None;
    turbulence = None; humidity = None; pressure = None; timestamp = now;
    position_t = None; track_t = None; heading_t = None; last_tc = N0;
    last_df = N0; adsb_version = None }

(** val country_go : ((n * n) * string) list -> n -> string **)

let rec country_go arms a =
  match arms with
  | [] -> country_default
  | p :: t ->
    let (p0, code) = p in
    let (sh, pat) = p0 in
    if N.eqb (N.shiftr a sh) pat then code else country_go t a

(** val icao_to_country : n -> string **)

let icao_to_country a =
  country_go country_arms a

(** val in_tc : n -> n -> n -> bool **)

let in_tc lo hi tc =
  (&&) (N.leb lo tc) (N.leb tc hi)

(** val update_position : (q * q) option -> row -> n -> n -> row **)

let update_position obs r tc form =
  if (&&)
       ((&&)
         ((&&)
           ((&&)
             ((&&) (negb (N.eqb r.cpr_lat0 N0)) (negb (N.eqb r.cpr_lat1 N0)))
             (negb (N.eqb r.cpr_lon0 N0))) (negb (N.eqb r.cpr_lon1 N0)))
         (eqb r.cpr_s0 r.cpr_s1))
       (Z.ltb (Z.abs (num_seconds r.cpr_t0 r.cpr_t1)) (Zpos (XO (XI (XO
         XH)))))
  then let loc =
         if in_tc (Npos (XI (XO XH))) (Npos (XO (XO (XO XH)))) tc
         then cpr_location r.cpr_lat0 r.cpr_lat1 r.cpr_lon0 r.cpr_lon1 form
                (Zpos (XO (XO XH)))
         else if in_tc (Npos (XI (XO (XO XH)))) (Npos (XO (XI (XO (XO XH)))))
                   tc
              then cpr_location r.cpr_lat0 r.cpr_lat1 r.cpr_lon0 r.cpr_lon1
                     form (Zpos XH)
              else None
       in
       (match loc with
        | Some p ->
          let (la, lo) = p in
          if (&&)
               ((&&)
                 ((&&)
                   (qle_bool { qnum = (Zneg (XO (XI (XO (XI (XI (XO
                     XH))))))); qden = XH } la)
                   (qle_bool la { qnum = (Zpos (XO (XI (XO (XI (XI (XO
                     XH))))))); qden = XH }))
                 (qle_bool { qnum = (Zneg (XO (XO (XI (XO (XI (XI (XO
                   XH)))))))); qden = XH } lo))
               (qle_bool lo { qnum = (Zpos (XO (XO (XI (XO (XI (XI (XO
                 XH)))))))); qden = XH })
          then let r0 =
                 set (fun r0 -> r0.lon) (fun f ->
                   let q0 = fun r0 -> f r0.lon in
                   (fun x -> { icao = x.icao; cap_ca = x.cap_ca; cap = x.cap;
                   category = x.category; reg = x.reg; r_ais = x.r_ais;
                   r_altitude = x.r_altitude; altitude_gnss_ =
                   x.altitude_gnss_; altitude_source = x.altitude_source;
                   selected_altitude = x.selected_altitude; baro_setting =
                   x.baro_setting; target_alt_source = x.target_alt_source;
                   r_squawk = x.r_squawk; surv_status = x.surv_status;
                   threat = x.threat; vrate = x.vrate; vrate_source =
                   x.vrate_source; cpr_lat0 = x.cpr_lat0; cpr_lat1 =
                   x.cpr_lat1; cpr_lon0 = x.cpr_lon0; cpr_lon1 = x.cpr_lon1;
                   cpr_t0 = x.cpr_t0; cpr_t1 = x.cpr_t1; cpr_s0 = x.cpr_s0;
                   cpr_s1 = x.cpr_s1; lat = x.lat; lon = (q0 x); dist =
                   x.dist; grspeed = x.grspeed; true_airspeed =
                   x.true_airspeed; indicated_airspeed =
                   x.indicated_airspeed; mach = x.mach; ground_mov =
                   x.ground_mov; turn = x.turn; track = x.track;
                   track_source = x.track_source; r_heading = x.r_heading;
                   heading_source = x.heading_source; roll_angle =
                   x.roll_angle; track_angle_rate = x.track_angle_rate;
                   bds50_t = x.bds50_t; temperature = x.temperature; wind =
                   x.wind; turbulence = x.turbulence; humidity = x.humidity;
                   pressure = x.pressure; timestamp = x.timestamp;
                   position_t = x.position_t; track_t = x.track_t;
                   heading_t = x.heading_t; last_tc = x.last_tc; last_df =
                   x.last_df; adsb_version = x.adsb_version })) (fun _ -> lo)
                   (set (fun r0 -> r0.lat) (fun f ->
                     let q0 = fun r0 -> f r0.lat in
                     (fun x -> { icao = x.icao; cap_ca = x.cap_ca; cap =
                     x.cap; category = x.category; reg = x.reg; r_ais =
                     x.r_ais; r_altitude = x.r_altitude; altitude_gnss_ =
                     x.altitude_gnss_; altitude_source = x.altitude_source;
                     selected_altitude = x.selected_altitude; baro_setting =
                     x.baro_setting; target_alt_source = x.target_alt_source;
                     r_squawk = x.r_squawk; surv_status = x.surv_status;
                     threat = x.threat; vrate = x.vrate; vrate_source =
                     x.vrate_source; cpr_lat0 = x.cpr_lat0; cpr_lat1 =
                     x.cpr_lat1; cpr_lon0 = x.cpr_lon0; cpr_lon1 =
                     x.cpr_lon1; cpr_t0 = x.cpr_t0; cpr_t1 = x.cpr_t1;
                     cpr_s0 = x.cpr_s0; cpr_s1 = x.cpr_s1; lat = (q0 x);
                     lon = x.lon; dist = x.dist; grspeed = x.grspeed;
                     true_airspeed = x.true_airspeed; indicated_airspeed =
                     x.indicated_airspeed; mach = x.mach; ground_mov =
                     x.ground_mov; turn = x.turn; track = x.track;
                     track_source = x.track_source; r_heading = x.r_heading;
                     heading_source = x.heading_source; roll_angle =
                     x.roll_angle; track_angle_rate = x.track_angle_rate;
                     bds50_t = x.bds50_t; temperature = x.temperature; wind =
                     x.wind; turbulence = x.turbulence; humidity =
                     x.humidity; pressure = x.pressure; timestamp =
                     x.timestamp; position_t = x.position_t; track_t =
                     x.track_t; heading_t = x.heading_t; last_tc = x.last_tc;
                     last_df = x.last_df; adsb_version = x.adsb_version }))
                     (fun _ -> la) r)
               in
               let r1 =
                 match obs with
                 | Some p0 ->
                   let (ola, olo) = p0 in
                   set (fun r1 -> r1.dist) (fun f ->
                     let o = fun r1 -> f r1.dist in
                     (fun x -> { icao = x.icao; cap_ca = x.cap_ca; cap =
                     x.cap; category = x.category; reg = x.reg; r_ais =
                     x.r_ais; r_altitude = x.r_altitude; altitude_gnss_ =
                     x.altitude_gnss_; altitude_source = x.altitude_source;
                     selected_altitude = x.selected_altitude; baro_setting =
                     x.baro_setting; target_alt_source = x.target_alt_source;
                     r_squawk = x.r_squawk; surv_status = x.surv_status;
                     threat = x.threat; vrate = x.vrate; vrate_source =
                     x.vrate_source; cpr_lat0 = x.cpr_lat0; cpr_lat1 =
                     x.cpr_lat1; cpr_lon0 = x.cpr_lon0; cpr_lon1 =
                     x.cpr_lon1; cpr_t0 = x.cpr_t0; cpr_t1 = x.cpr_t1;
                     cpr_s0 = x.cpr_s0; cpr_s1 = x.cpr_s1; lat = x.lat; lon =
                     x.lon; dist = (o x); grspeed = x.grspeed;
                     true_airspeed = x.true_airspeed; indicated_airspeed =
                     x.indicated_airspeed; mach = x.mach; ground_mov =
                     x.ground_mov; turn = x.turn; track = x.track;
                     track_source = x.track_source; r_heading = x.r_heading;
                     heading_source = x.heading_source; roll_angle =
                     x.roll_angle; track_angle_rate = x.track_angle_rate;
                     bds50_t = x.bds50_t; temperature = x.temperature; wind =
                     x.wind; turbulence = x.turbulence; humidity =
                     x.humidity; pressure = x.pressure; timestamp =
                     x.timestamp; position_t = x.position_t; track_t =
                     x.track_t; heading_t = x.heading_t; last_tc = x.last_tc;
                     last_df = x.last_df; adsb_version = x.adsb_version }))
                     (fun _ -> Some (((la, lo), ola), olo)) r0
                 | None -> r0
               in
               set (fun r2 -> r2.position_t) (fun f ->
                 let o = fun r2 -> f r2.position_t in
                 (fun x -> { icao = x.icao; cap_ca = x.cap_ca; cap = x.cap;
                 category = x.category; reg = x.reg; r_ais = x.r_ais;
                 r_altitude = x.r_altitude; altitude_gnss_ =
                 x.altitude_gnss_; altitude_source = x.altitude_source;
                 selected_altitude = x.selected_altitude; baro_setting =
                 x.baro_setting; target_alt_source = x.target_alt_source;
                 r_squawk = x.r_squawk; surv_status = x.surv_status; threat =
                 x.threat; vrate = x.vrate; vrate_source = x.vrate_source;
                 cpr_lat0 = x.cpr_lat0; cpr_lat1 = x.cpr_lat1; cpr_lon0 =
                 x.cpr_lon0; cpr_lon1 = x.cpr_lon1; cpr_t0 = x.cpr_t0;
                 cpr_t1 = x.cpr_t1; cpr_s0 = x.cpr_s0; cpr_s1 = x.cpr_s1;
                 lat = x.lat; lon = x.lon; dist = x.dist; grspeed =
                 x.grspeed; true_airspeed = x.true_airspeed;
                 indicated_airspeed = x.indicated_airspeed; mach = x.mach;
                 ground_mov = x.ground_mov; turn = x.turn; track = x.track;
                 track_source = x.track_source; r_heading = x.r_heading;
                 heading_source = x.heading_source; roll_angle =
                 x.roll_angle; track_angle_rate = x.track_angle_rate;
                 bds50_t = x.bds50_t; temperature = x.temperature; wind =
                 x.wind; turbulence = x.turbulence; humidity = x.humidity;
                 pressure = x.pressure; timestamp = x.timestamp; position_t =
                 (o x); track_t = x.track_t; heading_t = x.heading_t;
                 last_tc = x.last_tc; last_df = x.last_df; adsb_version =
                 x.adsb_version })) (fun _ -> Some r1.timestamp) r1
          else r
        | None -> r)
  else r

(** val store_cpr : (q * q) option -> row -> n -> ((n * n) * n) -> row **)

let store_cpr obs r tc = function
| (p, lo) ->
  let (form, la) = p in
  let surf = in_tc (Npos (XI (XO XH))) (Npos (XO (XO (XO XH)))) tc in
  let r0 =
    if N.eqb form (Npos XH)
    then set (fun r0 -> r0.cpr_s1) (fun f ->
           let b = fun r0 -> f r0.cpr_s1 in
           (fun x -> { icao = x.icao; cap_ca = x.cap_ca; cap = x.cap;
           category = x.category; reg = x.reg; r_ais = x.r_ais; r_altitude =
           x.r_altitude; altitude_gnss_ = x.altitude_gnss_; altitude_source =
           x.altitude_source; selected_altitude = x.selected_altitude;
           baro_setting = x.baro_setting; target_alt_source =
           x.target_alt_source; r_squawk = x.r_squawk; surv_status =
           x.surv_status; threat = x.threat; vrate = x.vrate; vrate_source =
           x.vrate_source; cpr_lat0 = x.cpr_lat0; cpr_lat1 = x.cpr_lat1;
           cpr_lon0 = x.cpr_lon0; cpr_lon1 = x.cpr_lon1; cpr_t0 = x.cpr_t0;
           cpr_t1 = x.cpr_t1; cpr_s0 = x.cpr_s0; cpr_s1 = (b x); lat = x.lat;
           lon = x.lon; dist = x.dist; grspeed = x.grspeed; true_airspeed =
           x.true_airspeed; indicated_airspeed = x.indicated_airspeed; mach =
           x.mach; ground_mov = x.ground_mov; turn = x.turn; track = x.track;
           track_source = x.track_source; r_heading = x.r_heading;
           heading_source = x.heading_source; roll_angle = x.roll_angle;
           track_angle_rate = x.track_angle_rate; bds50_t = x.bds50_t;
           temperature = x.temperature; wind = x.wind; turbulence =
           x.turbulence; humidity = x.humidity; pressure = x.pressure;
           timestamp = x.timestamp; position_t = x.position_t; track_t =
           x.track_t; heading_t = x.heading_t; last_tc = x.last_tc; last_df =
           x.last_df; adsb_version = x.adsb_version })) (fun _ -> surf)
           (set (fun r0 -> r0.cpr_t1) (fun f ->
             let z0 = fun r0 -> f r0.cpr_t1 in
             (fun x -> { icao = x.icao; cap_ca = x.cap_ca; cap = x.cap;
             category = x.category; reg = x.reg; r_ais = x.r_ais;
             r_altitude = x.r_altitude; altitude_gnss_ = x.altitude_gnss_;
             altitude_source = x.altitude_source; selected_altitude =
             x.selected_altitude; baro_setting = x.baro_setting;
             target_alt_source = x.target_alt_source; r_squawk = x.r_squawk;
             surv_status = x.surv_status; threat = x.threat; vrate = x.vrate;
             vrate_source = x.vrate_source; cpr_lat0 = x.cpr_lat0; cpr_lat1 =
             x.cpr_lat1; cpr_lon0 = x.cpr_lon0; cpr_lon1 = x.cpr_lon1;
             cpr_t0 = x.cpr_t0; cpr_t1 = (z0 x); cpr_s0 = x.cpr_s0; cpr_s1 =
             x.cpr_s1; lat = x.lat; lon = x.lon; dist = x.dist; grspeed =
             x.grspeed; true_airspeed = x.true_airspeed; indicated_airspeed =
             x.indicated_airspeed; mach = x.mach; ground_mov = x.ground_mov;
             turn = x.turn; track = x.track; track_source = x.track_source;
             r_heading = x.r_heading; heading_source = x.heading_source;
             roll_angle = x.roll_angle; track_angle_rate =
             x.track_angle_rate; bds50_t = x.bds50_t; temperature =
             x.temperature; wind = x.wind; turbulence = x.turbulence;
             humidity = x.humidity; pressure = x.pressure; timestamp =
             x.timestamp; position_t = x.position_t; track_t = x.track_t;
             heading_t = x.heading_t; last_tc = x.last_tc; last_df =
             x.last_df; adsb_version = x.adsb_version })) (fun _ ->
             r.timestamp)
             (set (fun r0 -> r0.cpr_lon1) (fun f ->
               let n0 = fun r0 -> f r0.cpr_lon1 in
               (fun x -> { icao = x.icao; cap_ca = x.cap_ca; cap = x.cap;
               category = x.category; reg = x.reg; r_ais = x.r_ais;
               r_altitude = x.r_altitude; altitude_gnss_ = x.altitude_gnss_;
               altitude_source = x.altitude_source; selected_altitude =
               x.selected_altitude; baro_setting = x.baro_setting;
               target_alt_source = x.target_alt_source; r_squawk =
               x.r_squawk; surv_status = x.surv_status; threat = x.threat;
               vrate = x.vrate; vrate_source = x.vrate_source; cpr_lat0 =
               x.cpr_lat0; cpr_lat1 = x.cpr_lat1; cpr_lon0 = x.cpr_lon0;
               cpr_lon1 = (n0 x); cpr_t0 = x.cpr_t0; cpr_t1 = x.cpr_t1;
               cpr_s0 = x.cpr_s0; cpr_s1 = x.cpr_s1; lat = x.lat; lon =
               x.lon; dist = x.dist; grspeed = x.grspeed; true_airspeed =
               x.true_airspeed; indicated_airspeed = x.indicated_airspeed;
               mach = x.mach; ground_mov = x.ground_mov; turn = x.turn;
               track = x.track; track_source = x.track_source; r_heading =
               x.r_heading; heading_source = x.heading_source; roll_angle =
               x.roll_angle; track_angle_rate = x.track_angle_rate; bds50_t =
               x.bds50_t; temperature = x.temperature; wind = x.wind;
               turbulence = x.turbulence; humidity = x.humidity; pressure =
               x.pressure; timestamp = x.timestamp; position_t =
               x.position_t; track_t = x.track_t; heading_t = x.heading_t;
               last_tc = x.last_tc; last_df = x.last_df; adsb_version =
               x.adsb_version })) (fun _ -> lo)
               (set (fun r0 -> r0.cpr_lat1) (fun f ->
                 let n0 = fun r0 -> f r0.cpr_lat1 in
                 (fun x -> { icao = x.icao; cap_ca = x.cap_ca; cap = x.cap;
                 category = x.category; reg = x.reg; r_ais = x.r_ais;
                 r_altitude = x.r_altitude; altitude_gnss_ =
                 x.altitude_gnss_; altitude_source = x.altitude_source;
                 selected_altitude = x.selected_altitude; baro_setting =
                 x.baro_setting; target_alt_source = x.target_alt_source;
                 r_squawk = x.r_squawk; surv_status = x.surv_status; threat =
                 x.threat; vrate = x.vrate; vrate_source = x.vrate_source;
                 cpr_lat0 = x.cpr_lat0; cpr_lat1 = (n0 x); cpr_lon0 =
                 x.cpr_lon0; cpr_lon1 = x.cpr_lon1; cpr_t0 = x.cpr_t0;
                 cpr_t1 = x.cpr_t1; cpr_s0 = x.cpr_s0; cpr_s1 = x.cpr_s1;
                 lat = x.lat; lon = x.lon; dist = x.dist; grspeed =
                 x.grspeed; true_airspeed = x.true_airspeed;
                 indicated_airspeed = x.indicated_airspeed; mach = x.mach;
                 ground_mov = x.ground_mov; turn = x.turn; track = x.track;
                 track_source = x.track_source; r_heading = x.r_heading;
                 heading_source = x.heading_source; roll_angle =
                 x.roll_angle; track_angle_rate = x.track_angle_rate;
                 bds50_t = x.bds50_t; temperature = x.temperature; wind =
                 x.wind; turbulence = x.turbulence; humidity = x.humidity;
                 pressure = x.pressure; timestamp = x.timestamp; position_t =
                 x.position_t; track_t = x.track_t; heading_t = x.heading_t;
                 last_tc = x.last_tc; last_df = x.last_df; adsb_version =
                 x.adsb_version })) (fun _ -> la) r)))
    else set (fun r0 -> r0.cpr_s0) (fun f ->
           let b = fun r0 -> f r0.cpr_s0 in
           (fun x -> { icao = x.icao; cap_ca = x.cap_ca; cap = x.cap;
           category = x.category; reg = x.reg; r_ais = x.r_ais; r_altitude =
           x.r_altitude; altitude_gnss_ = x.altitude_gnss_; altitude_source =
           x.altitude_source; selected_altitude = x.selected_altitude;
           baro_setting = x.baro_setting; target_alt_source =
           x.target_alt_source; r_squawk = x.r_squawk; surv_status =
           x.surv_status; threat = x.threat; vrate = x.vrate; vrate_source =
           x.vrate_source; cpr_lat0 = x.cpr_lat0; cpr_lat1 = x.cpr_lat1;
           cpr_lon0 = x.cpr_lon0; cpr_lon1 = x.cpr_lon1; cpr_t0 = x.cpr_t0;
           cpr_t1 = x.cpr_t1; cpr_s0 = (b x); cpr_s1 = x.cpr_s1; lat = x.lat;
           lon = x.lon; dist = x.dist; grspeed = x.grspeed; true_airspeed =
           x.true_airspeed; indicated_airspeed = x.indicated_airspeed; mach =
           x.mach; ground_mov = x.ground_mov; turn = x.turn; track = x.track;
           track_source = x.track_source; r_heading = x.r_heading;
           heading_source = x.heading_source; roll_angle = x.roll_angle;
           track_angle_rate = x.track_angle_rate; bds50_t = x.bds50_t;
           temperature = x.temperature; wind = x.wind; turbulence =
           x.turbulence; humidity = x.humidity; pressure = x.pressure;
           timestamp = x.timestamp; position_t = x.position_t; track_t =
           x.track_t; heading_t = x.heading_t; last_tc = x.last_tc; last_df =
           x.last_df; adsb_version = x.adsb_version })) (fun _ -> surf)
           (set (fun r0 -> r0.cpr_t0) (fun f ->
             let z0 = fun r0 -> f r0.cpr_t0 in
             (fun x -> { icao = x.icao; cap_ca = x.cap_ca; cap = x.cap;
             category = x.category; reg = x.reg; r_ais = x.r_ais;
             r_altitude = x.r_altitude; altitude_gnss_ = x.altitude_gnss_;
             altitude_source = x.altitude_source; selected_altitude =
             x.selected_altitude; baro_setting = x.baro_setting;
             target_alt_source = x.target_alt_source; r_squawk = x.r_squawk;
             surv_status = x.surv_status; threat = x.threat; vrate = x.vrate;
             vrate_source = x.vrate_source; cpr_lat0 = x.cpr_lat0; cpr_lat1 =
             x.cpr_lat1; cpr_lon0 = x.cpr_lon0; cpr_lon1 = x.cpr_lon1;
             cpr_t0 = (z0 x); cpr_t1 = x.cpr_t1; cpr_s0 = x.cpr_s0; cpr_s1 =
             x.cpr_s1; lat = x.lat; lon = x.lon; dist = x.dist; grspeed =
             x.grspeed; true_airspeed = x.true_airspeed; indicated_airspeed =
             x.indicated_airspeed; mach = x.mach; ground_mov = x.ground_mov;
             turn = x.turn; track = x.track; track_source = x.track_source;
             r_heading = x.r_heading; heading_source = x.heading_source;
             roll_angle = x.roll_angle; track_angle_rate =
             x.track_angle_rate; bds50_t = x.bds50_t; temperature =
             x.temperature; wind = x.wind; turbulence = x.turbulence;
             humidity = x.humidity; pressure = x.pressure; timestamp =
             x.timestamp; position_t = x.position_t; track_t = x.track_t;
             heading_t = x.heading_t; last_tc = x.last_tc; last_df =
             x.last_df; adsb_version = x.adsb_version })) (fun _ ->
             r.timestamp)
             (set (fun r0 -> r0.cpr_lon0) (fun f ->
               let n0 = fun r0 -> f r0.cpr_lon0 in
               (fun x -> { icao = x.icao; cap_ca = x.cap_ca; cap = x.cap;
               category = x.category; reg = x.reg; r_ais = x.r_ais;
               r_altitude = x.r_altitude; altitude_gnss_ = x.altitude_gnss_;
               altitude_source = x.altitude_source; selected_altitude =
               x.selected_altitude; baro_setting = x.baro_setting;
               target_alt_source = x.target_alt_source; r_squawk =
               x.r_squawk; surv_status = x.surv_status; threat = x.threat;
               vrate = x.vrate; vrate_source = x.vrate_source; cpr_lat0 =
               x.cpr_lat0; cpr_lat1 = x.cpr_lat1; cpr_lon0 = (n0 x);
               cpr_lon1 = x.cpr_lon1; cpr_t0 = x.cpr_t0; cpr_t1 = x.cpr_t1;
               cpr_s0 = x.cpr_s0; cpr_s1 = x.cpr_s1; lat = x.lat; lon =
               x.lon; dist = x.dist; grspeed = x.grspeed; true_airspeed =
               x.true_airspeed; indicated_airspeed = x.indicated_airspeed;
               mach = x.mach; ground_mov = x.ground_mov; turn = x.turn;
               track = x.track; track_source = x.track_source; r_heading =
               x.r_heading; heading_source = x.heading_source; roll_angle =
               x.roll_angle; track_angle_rate = x.track_angle_rate; bds50_t =
               x.bds50_t; temperature = x.temperature; wind = x.wind;
               turbulence = x.turbulence; humidity = x.humidity; pressure =
               x.pressure; timestamp = x.timestamp; position_t =
               x.position_t; track_t = x.track_t; heading_t = x.heading_t;
               last_tc = x.last_tc; last_df = x.last_df; adsb_version =
               x.adsb_version })) (fun _ -> lo)
               (set (fun r0 -> r0.cpr_lat0) (fun f ->
                 let n0 = fun r0 -> f r0.cpr_lat0 in
                 (fun x -> { icao = x.icao; cap_ca = x.cap_ca; cap = x.cap;
                 category = x.category; reg = x.reg; r_ais = x.r_ais;
                 r_altitude = x.r_altitude; altitude_gnss_ =
                 x.altitude_gnss_; altitude_source = x.altitude_source;
                 selected_altitude = x.selected_altitude; baro_setting =
                 x.baro_setting; target_alt_source = x.target_alt_source;
                 r_squawk = x.r_squawk; surv_status = x.surv_status; threat =
                 x.threat; vrate = x.vrate; vrate_source = x.vrate_source;
                 cpr_lat0 = (n0 x); cpr_lat1 = x.cpr_lat1; cpr_lon0 =
                 x.cpr_lon0; cpr_lon1 = x.cpr_lon1; cpr_t0 = x.cpr_t0;
                 cpr_t1 = x.cpr_t1; cpr_s0 = x.cpr_s0; cpr_s1 = x.cpr_s1;
                 lat = x.lat; lon = x.lon; dist = x.dist; grspeed =
                 x.grspeed; true_airspeed = x.true_airspeed;
                 indicated_airspeed = x.indicated_airspeed; mach = x.mach;
                 ground_mov = x.ground_mov; turn = x.turn; track = x.track;
                 track_source = x.track_source; r_heading = x.r_heading;
                 heading_source = x.heading_source; roll_angle =
                 x.roll_angle; track_angle_rate = x.track_angle_rate;
                 bds50_t = x.bds50_t; temperature = x.temperature; wind =
                 x.wind; turbulence = x.turbulence; humidity = x.humidity;
                 pressure = x.pressure; timestamp = x.timestamp; position_t =
                 x.position_t; track_t = x.track_t; heading_t = x.heading_t;
                 last_tc = x.last_tc; last_df = x.last_df; adsb_version =
                 x.adsb_version })) (fun _ -> la) r)))
  in
  update_position obs r0 tc form

(** val gnss_of : n -> z -> n **)

let gnss_of alt delta =
  Z.to_N
    (Z.modulo (Z.add (Z.of_N alt) delta) (Zpos (XO (XO (XO (XO (XO (XO (XO
      (XO (XO (XO (XO (XO (XO (XO (XO (XO (XO (XO (XO (XO (XO (XO (XO (XO (XO
      (XO (XO (XO (XO (XO (XO (XO XH))))))))))))))))))))))))))))))))))

(** val update_from_bcast : row -> n list -> n -> row res **)

let update_from_bcast r m df =
  bind
    (if (||) (N.eqb df (Npos (XO (XO XH))))
          (N.eqb df (Npos (XO (XO (XI (XO XH))))))
     then bind (altitude m df) (fun a -> Ok
            (set (fun r0 -> r0.altitude_source) (fun f ->
              let n0 = fun r0 -> f r0.altitude_source in
              (fun x -> { icao = x.icao; cap_ca = x.cap_ca; cap = x.cap;
              category = x.category; reg = x.reg; r_ais = x.r_ais;
              r_altitude = x.r_altitude; altitude_gnss_ = x.altitude_gnss_;
              altitude_source = (n0 x); selected_altitude =
              x.selected_altitude; baro_setting = x.baro_setting;
              target_alt_source = x.target_alt_source; r_squawk = x.r_squawk;
              surv_status = x.surv_status; threat = x.threat; vrate =
              x.vrate; vrate_source = x.vrate_source; cpr_lat0 = x.cpr_lat0;
              cpr_lat1 = x.cpr_lat1; cpr_lon0 = x.cpr_lon0; cpr_lon1 =
              x.cpr_lon1; cpr_t0 = x.cpr_t0; cpr_t1 = x.cpr_t1; cpr_s0 =
              x.cpr_s0; cpr_s1 = x.cpr_s1; lat = x.lat; lon = x.lon; dist =
              x.dist; grspeed = x.grspeed; true_airspeed = x.true_airspeed;
              indicated_airspeed = x.indicated_airspeed; mach = x.mach;
              ground_mov = x.ground_mov; turn = x.turn; track = x.track;
              track_source = x.track_source; r_heading = x.r_heading;
              heading_source = x.heading_source; roll_angle = x.roll_angle;
              track_angle_rate = x.track_angle_rate; bds50_t = x.bds50_t;
              temperature = x.temperature; wind = x.wind; turbulence =
              x.turbulence; humidity = x.humidity; pressure = x.pressure;
              timestamp = x.timestamp; position_t = x.position_t; track_t =
              x.track_t; heading_t = x.heading_t; last_tc = x.last_tc;
              last_df = x.last_df; adsb_version = x.adsb_version }))
              (fun _ -> sP)
              (set (fun r0 -> r0.r_altitude) (fun f ->
                let o = fun r0 -> f r0.r_altitude in
                (fun x -> { icao = x.icao; cap_ca = x.cap_ca; cap = x.cap;
                category = x.category; reg = x.reg; r_ais = x.r_ais;
                r_altitude = (o x); altitude_gnss_ = x.altitude_gnss_;
                altitude_source = x.altitude_source; selected_altitude =
                x.selected_altitude; baro_setting = x.baro_setting;
                target_alt_source = x.target_alt_source; r_squawk =
                x.r_squawk; surv_status = x.surv_status; threat = x.threat;
                vrate = x.vrate; vrate_source = x.vrate_source; cpr_lat0 =
                x.cpr_lat0; cpr_lat1 = x.cpr_lat1; cpr_lon0 = x.cpr_lon0;
                cpr_lon1 = x.cpr_lon1; cpr_t0 = x.cpr_t0; cpr_t1 = x.cpr_t1;
                cpr_s0 = x.cpr_s0; cpr_s1 = x.cpr_s1; lat = x.lat; lon =
                x.lon; dist = x.dist; grspeed = x.grspeed; true_airspeed =
                x.true_airspeed; indicated_airspeed = x.indicated_airspeed;
                mach = x.mach; ground_mov = x.ground_mov; turn = x.turn;
                track = x.track; track_source = x.track_source; r_heading =
                x.r_heading; heading_source = x.heading_source; roll_angle =
                x.roll_angle; track_angle_rate = x.track_angle_rate;
                bds50_t = x.bds50_t; temperature = x.temperature; wind =
                x.wind; turbulence = x.turbulence; humidity = x.humidity;
                pressure = x.pressure; timestamp = x.timestamp; position_t =
                x.position_t; track_t = x.track_t; heading_t = x.heading_t;
                last_tc = x.last_tc; last_df = x.last_df; adsb_version =
                x.adsb_version })) (fun _ -> a) r)))
     else Ok r) (fun r0 ->
    bind
      (if (||) (N.eqb df (Npos (XI (XO XH))))
            (N.eqb df (Npos (XI (XO (XI (XO XH))))))
       then bind (squawk m) (fun s -> Ok
              (set (fun r1 -> r1.r_squawk) (fun f ->
                let o = fun r1 -> f r1.r_squawk in
                (fun x -> { icao = x.icao; cap_ca = x.cap_ca; cap = x.cap;
                category = x.category; reg = x.reg; r_ais = x.r_ais;
                r_altitude = x.r_altitude; altitude_gnss_ = x.altitude_gnss_;
                altitude_source = x.altitude_source; selected_altitude =
                x.selected_altitude; baro_setting = x.baro_setting;
                target_alt_source = x.target_alt_source; r_squawk = (o x);
                surv_status = x.surv_status; threat = x.threat; vrate =
                x.vrate; vrate_source = x.vrate_source; cpr_lat0 =
                x.cpr_lat0; cpr_lat1 = x.cpr_lat1; cpr_lon0 = x.cpr_lon0;
                cpr_lon1 = x.cpr_lon1; cpr_t0 = x.cpr_t0; cpr_t1 = x.cpr_t1;
                cpr_s0 = x.cpr_s0; cpr_s1 = x.cpr_s1; lat = x.lat; lon =
                x.lon; dist = x.dist; grspeed = x.grspeed; true_airspeed =
                x.true_airspeed; indicated_airspeed = x.indicated_airspeed;
                mach = x.mach; ground_mov = x.ground_mov; turn = x.turn;
                track = x.track; track_source = x.track_source; r_heading =
                x.r_heading; heading_source = x.heading_source; roll_angle =
                x.roll_angle; track_angle_rate = x.track_angle_rate;
                bds50_t = x.bds50_t; temperature = x.temperature; wind =
                x.wind; turbulence = x.turbulence; humidity = x.humidity;
                pressure = x.pressure; timestamp = x.timestamp; position_t =
                x.position_t; track_t = x.track_t; heading_t = x.heading_t;
                last_tc = x.last_tc; last_df = x.last_df; adsb_version =
                x.adsb_version })) (fun _ -> s) r0))
       else Ok r0) (fun r1 ->
      if (||) (N.eqb df (Npos (XI (XI (XO XH)))))
           (N.eqb df (Npos (XI (XO (XO (XO XH))))))
      then bind (get_capability m) (fun c -> Ok
             (set (fun r2 -> r2.cap_ca) (fun f ->
               let n0 = fun r2 -> f r2.cap_ca in
               (fun x -> { icao = x.icao; cap_ca = (n0 x); cap = x.cap;
               category = x.category; reg = x.reg; r_ais = x.r_ais;
               r_altitude = x.r_altitude; altitude_gnss_ = x.altitude_gnss_;
               altitude_source = x.altitude_source; selected_altitude =
               x.selected_altitude; baro_setting = x.baro_setting;
               target_alt_source = x.target_alt_source; r_squawk =
               x.r_squawk; surv_status = x.surv_status; threat = x.threat;
               vrate = x.vrate; vrate_source = x.vrate_source; cpr_lat0 =
               x.cpr_lat0; cpr_lat1 = x.cpr_lat1; cpr_lon0 = x.cpr_lon0;
               cpr_lon1 = x.cpr_lon1; cpr_t0 = x.cpr_t0; cpr_t1 = x.cpr_t1;
               cpr_s0 = x.cpr_s0; cpr_s1 = x.cpr_s1; lat = x.lat; lon =
               x.lon; dist = x.dist; grspeed = x.grspeed; true_airspeed =
               x.true_airspeed; indicated_airspeed = x.indicated_airspeed;
               mach = x.mach; ground_mov = x.ground_mov; turn = x.turn;
               track = x.track; track_source = x.track_source; r_heading =
               x.r_heading; heading_source = x.heading_source; roll_angle =
               x.roll_angle; track_angle_rate = x.track_angle_rate; bds50_t =
               x.bds50_t; temperature = x.temperature; wind = x.wind;
               turbulence = x.turbulence; humidity = x.humidity; pressure =
               x.pressure; timestamp = x.timestamp; position_t =
               x.position_t; track_t = x.track_t; heading_t = x.heading_t;
               last_tc = x.last_tc; last_df = x.last_df; adsb_version =
               x.adsb_version })) (fun _ -> c) r1))
      else Ok r1))

(** val update_cpr : (q * q) option -> row -> n list -> n -> row res **)

let update_cpr obs r m tc =
  bind (cpr m) (fun c ->
    match ofilter (fun pat ->
            let (y, _) = pat in let (form, _) = y in N.leb form (Npos XH)) c with
    | Some c0 -> Ok (store_cpr obs r tc c0)
    | None -> Ok r)

(** val update_from_ext_19 : row -> n list -> n -> row res **)

let update_from_ext_19 r m st =
  bind (vertical_rate m) (fun v ->
    let r0 =
      set (fun r0 -> r0.vrate_source) (fun f ->
        let n0 = fun r0 -> f r0.vrate_source in
        (fun x -> { icao = x.icao; cap_ca = x.cap_ca; cap = x.cap; category =
        x.category; reg = x.reg; r_ais = x.r_ais; r_altitude = x.r_altitude;
        altitude_gnss_ = x.altitude_gnss_; altitude_source =
        x.altitude_source; selected_altitude = x.selected_altitude;
        baro_setting = x.baro_setting; target_alt_source =
        x.target_alt_source; r_squawk = x.r_squawk; surv_status =
        x.surv_status; threat = x.threat; vrate = x.vrate; vrate_source =
        (n0 x); cpr_lat0 = x.cpr_lat0; cpr_lat1 = x.cpr_lat1; cpr_lon0 =
        x.cpr_lon0; cpr_lon1 = x.cpr_lon1; cpr_t0 = x.cpr_t0; cpr_t1 =
        x.cpr_t1; cpr_s0 = x.cpr_s0; cpr_s1 = x.cpr_s1; lat = x.lat; lon =
        x.lon; dist = x.dist; grspeed = x.grspeed; true_airspeed =
        x.true_airspeed; indicated_airspeed = x.indicated_airspeed; mach =
        x.mach; ground_mov = x.ground_mov; turn = x.turn; track = x.track;
        track_source = x.track_source; r_heading = x.r_heading;
        heading_source = x.heading_source; roll_angle = x.roll_angle;
        track_angle_rate = x.track_angle_rate; bds50_t = x.bds50_t;
        temperature = x.temperature; wind = x.wind; turbulence =
        x.turbulence; humidity = x.humidity; pressure = x.pressure;
        timestamp = x.timestamp; position_t = x.position_t; track_t =
        x.track_t; heading_t = x.heading_t; last_tc = x.last_tc; last_df =
        x.last_df; adsb_version = x.adsb_version })) (fun _ -> sP)
        (set (fun r0 -> r0.vrate) (fun f ->
          let o = fun r0 -> f r0.vrate in
          (fun x -> { icao = x.icao; cap_ca = x.cap_ca; cap = x.cap;
          category = x.category; reg = x.reg; r_ais = x.r_ais; r_altitude =
          x.r_altitude; altitude_gnss_ = x.altitude_gnss_; altitude_source =
          x.altitude_source; selected_altitude = x.selected_altitude;
          baro_setting = x.baro_setting; target_alt_source =
          x.target_alt_source; r_squawk = x.r_squawk; surv_status =
          x.surv_status; threat = x.threat; vrate = (o x); vrate_source =
          x.vrate_source; cpr_lat0 = x.cpr_lat0; cpr_lat1 = x.cpr_lat1;
          cpr_lon0 = x.cpr_lon0; cpr_lon1 = x.cpr_lon1; cpr_t0 = x.cpr_t0;
          cpr_t1 = x.cpr_t1; cpr_s0 = x.cpr_s0; cpr_s1 = x.cpr_s1; lat =
          x.lat; lon = x.lon; dist = x.dist; grspeed = x.grspeed;
          true_airspeed = x.true_airspeed; indicated_airspeed =
          x.indicated_airspeed; mach = x.mach; ground_mov = x.ground_mov;
          turn = x.turn; track = x.track; track_source = x.track_source;
          r_heading = x.r_heading; heading_source = x.heading_source;
          roll_angle = x.roll_angle; track_angle_rate = x.track_angle_rate;
          bds50_t = x.bds50_t; temperature = x.temperature; wind = x.wind;
          turbulence = x.turbulence; humidity = x.humidity; pressure =
          x.pressure; timestamp = x.timestamp; position_t = x.position_t;
          track_t = x.track_t; heading_t = x.heading_t; last_tc = x.last_tc;
          last_df = x.last_df; adsb_version = x.adsb_version })) (fun _ -> v)
          r)
    in
    bind
      (match r0.r_altitude with
       | Some alt ->
         bind (altitude_delta m) (fun d -> Ok
           (match d with
            | Some d0 ->
              set (fun r1 -> r1.altitude_gnss_) (fun f ->
                let o = fun r1 -> f r1.altitude_gnss_ in
                (fun x -> { icao = x.icao; cap_ca = x.cap_ca; cap = x.cap;
                category = x.category; reg = x.reg; r_ais = x.r_ais;
                r_altitude = x.r_altitude; altitude_gnss_ = (o x);
                altitude_source = x.altitude_source; selected_altitude =
                x.selected_altitude; baro_setting = x.baro_setting;
                target_alt_source = x.target_alt_source; r_squawk =
                x.r_squawk; surv_status = x.surv_status; threat = x.threat;
                vrate = x.vrate; vrate_source = x.vrate_source; cpr_lat0 =
                x.cpr_lat0; cpr_lat1 = x.cpr_lat1; cpr_lon0 = x.cpr_lon0;
                cpr_lon1 = x.cpr_lon1; cpr_t0 = x.cpr_t0; cpr_t1 = x.cpr_t1;
                cpr_s0 = x.cpr_s0; cpr_s1 = x.cpr_s1; lat = x.lat; lon =
                x.lon; dist = x.dist; grspeed = x.grspeed; true_airspeed =
                x.true_airspeed; indicated_airspeed = x.indicated_airspeed;
                mach = x.mach; ground_mov = x.ground_mov; turn = x.turn;
                track = x.track; track_source = x.track_source; r_heading =
                x.r_heading; heading_source = x.heading_source; roll_angle =
                x.roll_angle; track_angle_rate = x.track_angle_rate;
                bds50_t = x.bds50_t; temperature = x.temperature; wind =
                x.wind; turbulence = x.turbulence; humidity = x.humidity;
                pressure = x.pressure; timestamp = x.timestamp; position_t =
                x.position_t; track_t = x.track_t; heading_t = x.heading_t;
                last_tc = x.last_tc; last_df = x.last_df; adsb_version =
                x.adsb_version })) (fun _ -> Some (gnss_of alt d0)) r0
            | None -> r0))
       | None -> Ok r0) (fun r1 ->
      if N.eqb st (Npos XH)
      then bind (track_and_groundspeed m false) (fun pat ->
             let (t, g) = pat in
             Ok
             (set (fun r2 -> r2.track_source) (fun f ->
               let n0 = fun r2 -> f r2.track_source in
               (fun x -> { icao = x.icao; cap_ca = x.cap_ca; cap = x.cap;
               category = x.category; reg = x.reg; r_ais = x.r_ais;
               r_altitude = x.r_altitude; altitude_gnss_ = x.altitude_gnss_;
               altitude_source = x.altitude_source; selected_altitude =
               x.selected_altitude; baro_setting = x.baro_setting;
               target_alt_source = x.target_alt_source; r_squawk =
               x.r_squawk; surv_status = x.surv_status; threat = x.threat;
               vrate = x.vrate; vrate_source = x.vrate_source; cpr_lat0 =
               x.cpr_lat0; cpr_lat1 = x.cpr_lat1; cpr_lon0 = x.cpr_lon0;
               cpr_lon1 = x.cpr_lon1; cpr_t0 = x.cpr_t0; cpr_t1 = x.cpr_t1;
               cpr_s0 = x.cpr_s0; cpr_s1 = x.cpr_s1; lat = x.lat; lon =
               x.lon; dist = x.dist; grspeed = x.grspeed; true_airspeed =
               x.true_airspeed; indicated_airspeed = x.indicated_airspeed;
               mach = x.mach; ground_mov = x.ground_mov; turn = x.turn;
               track = x.track; track_source = (n0 x); r_heading =
               x.r_heading; heading_source = x.heading_source; roll_angle =
               x.roll_angle; track_angle_rate = x.track_angle_rate; bds50_t =
               x.bds50_t; temperature = x.temperature; wind = x.wind;
               turbulence = x.turbulence; humidity = x.humidity; pressure =
               x.pressure; timestamp = x.timestamp; position_t =
               x.position_t; track_t = x.track_t; heading_t = x.heading_t;
               last_tc = x.last_tc; last_df = x.last_df; adsb_version =
               x.adsb_version })) (fun _ -> Npos (XI (XO (XO (XO (XO (XO (XO
               (XI (XO (XO (XO (XO (XO XH))))))))))))))
               (set (fun r2 -> r2.grspeed) (fun f ->
                 let o = fun r2 -> f r2.grspeed in
                 (fun x -> { icao = x.icao; cap_ca = x.cap_ca; cap = x.cap;
                 category = x.category; reg = x.reg; r_ais = x.r_ais;
                 r_altitude = x.r_altitude; altitude_gnss_ =
                 x.altitude_gnss_; altitude_source = x.altitude_source;
                 selected_altitude = x.selected_altitude; baro_setting =
                 x.baro_setting; target_alt_source = x.target_alt_source;
                 r_squawk = x.r_squawk; surv_status = x.surv_status; threat =
                 x.threat; vrate = x.vrate; vrate_source = x.vrate_source;
                 cpr_lat0 = x.cpr_lat0; cpr_lat1 = x.cpr_lat1; cpr_lon0 =
                 x.cpr_lon0; cpr_lon1 = x.cpr_lon1; cpr_t0 = x.cpr_t0;
                 cpr_t1 = x.cpr_t1; cpr_s0 = x.cpr_s0; cpr_s1 = x.cpr_s1;
                 lat = x.lat; lon = x.lon; dist = x.dist; grspeed = (o x);
                 true_airspeed = x.true_airspeed; indicated_airspeed =
                 x.indicated_airspeed; mach = x.mach; ground_mov =
                 x.ground_mov; turn = x.turn; track = x.track; track_source =
                 x.track_source; r_heading = x.r_heading; heading_source =
                 x.heading_source; roll_angle = x.roll_angle;
                 track_angle_rate = x.track_angle_rate; bds50_t = x.bds50_t;
                 temperature = x.temperature; wind = x.wind; turbulence =
                 x.turbulence; humidity = x.humidity; pressure = x.pressure;
                 timestamp = x.timestamp; position_t = x.position_t;
                 track_t = x.track_t; heading_t = x.heading_t; last_tc =
                 x.last_tc; last_df = x.last_df; adsb_version =
                 x.adsb_version })) (fun _ -> g)
                 (set (fun r2 -> r2.track) (fun f ->
                   let o = fun r2 -> f r2.track in
                   (fun x -> { icao = x.icao; cap_ca = x.cap_ca; cap = x.cap;
                   category = x.category; reg = x.reg; r_ais = x.r_ais;
                   r_altitude = x.r_altitude; altitude_gnss_ =
                   x.altitude_gnss_; altitude_source = x.altitude_source;
                   selected_altitude = x.selected_altitude; baro_setting =
                   x.baro_setting; target_alt_source = x.target_alt_source;
                   r_squawk = x.r_squawk; surv_status = x.surv_status;
                   threat = x.threat; vrate = x.vrate; vrate_source =
                   x.vrate_source; cpr_lat0 = x.cpr_lat0; cpr_lat1 =
                   x.cpr_lat1; cpr_lon0 = x.cpr_lon0; cpr_lon1 = x.cpr_lon1;
                   cpr_t0 = x.cpr_t0; cpr_t1 = x.cpr_t1; cpr_s0 = x.cpr_s0;
                   cpr_s1 = x.cpr_s1; lat = x.lat; lon = x.lon; dist =
                   x.dist; grspeed = x.grspeed; true_airspeed =
                   x.true_airspeed; indicated_airspeed =
                   x.indicated_airspeed; mach = x.mach; ground_mov =
                   x.ground_mov; turn = x.turn; track = (o x); track_source =
                   x.track_source; r_heading = x.r_heading; heading_source =
                   x.heading_source; roll_angle = x.roll_angle;
                   track_angle_rate = x.track_angle_rate; bds50_t =
                   x.bds50_t; temperature = x.temperature; wind = x.wind;
                   turbulence = x.turbulence; humidity = x.humidity;
                   pressure = x.pressure; timestamp = x.timestamp;
                   position_t = x.position_t; track_t = x.track_t;
                   heading_t = x.heading_t; last_tc = x.last_tc; last_df =
                   x.last_df; adsb_version = x.adsb_version })) (fun _ -> t)
                   r1))))
      else if N.eqb st (Npos (XO XH))
           then bind (track_and_groundspeed m true) (fun pat ->
                  let (t, g) = pat in
                  Ok
                  (set (fun r2 -> r2.track_source) (fun f ->
                    let n0 = fun r2 -> f r2.track_source in
                    (fun x -> { icao = x.icao; cap_ca = x.cap_ca; cap =
                    x.cap; category = x.category; reg = x.reg; r_ais =
                    x.r_ais; r_altitude = x.r_altitude; altitude_gnss_ =
                    x.altitude_gnss_; altitude_source = x.altitude_source;
                    selected_altitude = x.selected_altitude; baro_setting =
                    x.baro_setting; target_alt_source = x.target_alt_source;
                    r_squawk = x.r_squawk; surv_status = x.surv_status;
                    threat = x.threat; vrate = x.vrate; vrate_source =
                    x.vrate_source; cpr_lat0 = x.cpr_lat0; cpr_lat1 =
                    x.cpr_lat1; cpr_lon0 = x.cpr_lon0; cpr_lon1 = x.cpr_lon1;
                    cpr_t0 = x.cpr_t0; cpr_t1 = x.cpr_t1; cpr_s0 = x.cpr_s0;
                    cpr_s1 = x.cpr_s1; lat = x.lat; lon = x.lon; dist =
                    x.dist; grspeed = x.grspeed; true_airspeed =
                    x.true_airspeed; indicated_airspeed =
                    x.indicated_airspeed; mach = x.mach; ground_mov =
                    x.ground_mov; turn = x.turn; track = x.track;
                    track_source = (n0 x); r_heading = x.r_heading;
                    heading_source = x.heading_source; roll_angle =
                    x.roll_angle; track_angle_rate = x.track_angle_rate;
                    bds50_t = x.bds50_t; temperature = x.temperature; wind =
                    x.wind; turbulence = x.turbulence; humidity = x.humidity;
                    pressure = x.pressure; timestamp = x.timestamp;
                    position_t = x.position_t; track_t = x.track_t;
                    heading_t = x.heading_t; last_tc = x.last_tc; last_df =
                    x.last_df; adsb_version = x.adsb_version })) (fun _ ->
                    Npos (XO (XI (XO (XO (XO (XO (XO (XI (XO (XO (XO (XO (XO
                    XH))))))))))))))
                    (set (fun r2 -> r2.grspeed) (fun f ->
                      let o = fun r2 -> f r2.grspeed in
                      (fun x -> { icao = x.icao; cap_ca = x.cap_ca; cap =
                      x.cap; category = x.category; reg = x.reg; r_ais =
                      x.r_ais; r_altitude = x.r_altitude; altitude_gnss_ =
                      x.altitude_gnss_; altitude_source = x.altitude_source;
                      selected_altitude = x.selected_altitude; baro_setting =
                      x.baro_setting; target_alt_source =
                      x.target_alt_source; r_squawk = x.r_squawk;
                      surv_status = x.surv_status; threat = x.threat; vrate =
                      x.vrate; vrate_source = x.vrate_source; cpr_lat0 =
                      x.cpr_lat0; cpr_lat1 = x.cpr_lat1; cpr_lon0 =
                      x.cpr_lon0; cpr_lon1 = x.cpr_lon1; cpr_t0 = x.cpr_t0;
                      cpr_t1 = x.cpr_t1; cpr_s0 = x.cpr_s0; cpr_s1 =
                      x.cpr_s1; lat = x.lat; lon = x.lon; dist = x.dist;
                      grspeed = (o x); true_airspeed = x.true_airspeed;
                      indicated_airspeed = x.indicated_airspeed; mach =
                      x.mach; ground_mov = x.ground_mov; turn = x.turn;
                      track = x.track; track_source = x.track_source;
                      r_heading = x.r_heading; heading_source =
                      x.heading_source; roll_angle = x.roll_angle;
                      track_angle_rate = x.track_angle_rate; bds50_t =
                      x.bds50_t; temperature = x.temperature; wind = x.wind;
                      turbulence = x.turbulence; humidity = x.humidity;
                      pressure = x.pressure; timestamp = x.timestamp;
                      position_t = x.position_t; track_t = x.track_t;
                      heading_t = x.heading_t; last_tc = x.last_tc; last_df =
                      x.last_df; adsb_version = x.adsb_version })) (fun _ ->
                      g)
                      (set (fun r2 -> r2.track) (fun f ->
                        let o = fun r2 -> f r2.track in
                        (fun x -> { icao = x.icao; cap_ca = x.cap_ca; cap =
                        x.cap; category = x.category; reg = x.reg; r_ais =
                        x.r_ais; r_altitude = x.r_altitude; altitude_gnss_ =
                        x.altitude_gnss_; altitude_source =
                        x.altitude_source; selected_altitude =
                        x.selected_altitude; baro_setting = x.baro_setting;
                        target_alt_source = x.target_alt_source; r_squawk =
                        x.r_squawk; surv_status = x.surv_status; threat =
                        x.threat; vrate = x.vrate; vrate_source =
                        x.vrate_source; cpr_lat0 = x.cpr_lat0; cpr_lat1 =
                        x.cpr_lat1; cpr_lon0 = x.cpr_lon0; cpr_lon1 =
                        x.cpr_lon1; cpr_t0 = x.cpr_t0; cpr_t1 = x.cpr_t1;
                        cpr_s0 = x.cpr_s0; cpr_s1 = x.cpr_s1; lat = x.lat;
                        lon = x.lon; dist = x.dist; grspeed = x.grspeed;
                        true_airspeed = x.true_airspeed; indicated_airspeed =
                        x.indicated_airspeed; mach = x.mach; ground_mov =
                        x.ground_mov; turn = x.turn; track = (o x);
                        track_source = x.track_source; r_heading =
                        x.r_heading; heading_source = x.heading_source;
                        roll_angle = x.roll_angle; track_angle_rate =
                        x.track_angle_rate; bds50_t = x.bds50_t;
                        temperature = x.temperature; wind = x.wind;
                        turbulence = x.turbulence; humidity = x.humidity;
                        pressure = x.pressure; timestamp = x.timestamp;
                        position_t = x.position_t; track_t = x.track_t;
                        heading_t = x.heading_t; last_tc = x.last_tc;
                        last_df = x.last_df; adsb_version = x.adsb_version }))
                        (fun _ -> t) r1))))
           else if (||) (N.eqb st (Npos (XI XH)))
                     (N.eqb st (Npos (XO (XO XH))))
                then bind (heading m) (fun h -> Ok
                       (set (fun r2 -> r2.altitude_source) (fun f ->
                         let n0 = fun r2 -> f r2.altitude_source in
                         (fun x -> { icao = x.icao; cap_ca = x.cap_ca; cap =
                         x.cap; category = x.category; reg = x.reg; r_ais =
                         x.r_ais; r_altitude = x.r_altitude; altitude_gnss_ =
                         x.altitude_gnss_; altitude_source = (n0 x);
                         selected_altitude = x.selected_altitude;
                         baro_setting = x.baro_setting; target_alt_source =
                         x.target_alt_source; r_squawk = x.r_squawk;
                         surv_status = x.surv_status; threat = x.threat;
                         vrate = x.vrate; vrate_source = x.vrate_source;
                         cpr_lat0 = x.cpr_lat0; cpr_lat1 = x.cpr_lat1;
                         cpr_lon0 = x.cpr_lon0; cpr_lon1 = x.cpr_lon1;
                         cpr_t0 = x.cpr_t0; cpr_t1 = x.cpr_t1; cpr_s0 =
                         x.cpr_s0; cpr_s1 = x.cpr_s1; lat = x.lat; lon =
                         x.lon; dist = x.dist; grspeed = x.grspeed;
                         true_airspeed = x.true_airspeed;
                         indicated_airspeed = x.indicated_airspeed; mach =
                         x.mach; ground_mov = x.ground_mov; turn = x.turn;
                         track = x.track; track_source = x.track_source;
                         r_heading = x.r_heading; heading_source =
                         x.heading_source; roll_angle = x.roll_angle;
                         track_angle_rate = x.track_angle_rate; bds50_t =
                         x.bds50_t; temperature = x.temperature; wind =
                         x.wind; turbulence = x.turbulence; humidity =
                         x.humidity; pressure = x.pressure; timestamp =
                         x.timestamp; position_t = x.position_t; track_t =
                         x.track_t; heading_t = x.heading_t; last_tc =
                         x.last_tc; last_df = x.last_df; adsb_version =
                         x.adsb_version })) (fun _ -> Npos (XO (XI (XO (XO
                         (XO XH))))))
                         (set (fun r2 -> r2.heading_source) (fun f ->
                           let n0 = fun r2 -> f r2.heading_source in
                           (fun x -> { icao = x.icao; cap_ca = x.cap_ca;
                           cap = x.cap; category = x.category; reg = x.reg;
                           r_ais = x.r_ais; r_altitude = x.r_altitude;
                           altitude_gnss_ = x.altitude_gnss_;
                           altitude_source = x.altitude_source;
                           selected_altitude = x.selected_altitude;
                           baro_setting = x.baro_setting; target_alt_source =
                           x.target_alt_source; r_squawk = x.r_squawk;
                           surv_status = x.surv_status; threat = x.threat;
                           vrate = x.vrate; vrate_source = x.vrate_source;
                           cpr_lat0 = x.cpr_lat0; cpr_lat1 = x.cpr_lat1;
                           cpr_lon0 = x.cpr_lon0; cpr_lon1 = x.cpr_lon1;
                           cpr_t0 = x.cpr_t0; cpr_t1 = x.cpr_t1; cpr_s0 =
                           x.cpr_s0; cpr_s1 = x.cpr_s1; lat = x.lat; lon =
                           x.lon; dist = x.dist; grspeed = x.grspeed;
                           true_airspeed = x.true_airspeed;
                           indicated_airspeed = x.indicated_airspeed; mach =
                           x.mach; ground_mov = x.ground_mov; turn = x.turn;
                           track = x.track; track_source = x.track_source;
                           r_heading = x.r_heading; heading_source = 
                           (n0 x); roll_angle = x.roll_angle;
                           track_angle_rate = x.track_angle_rate; bds50_t =
                           x.bds50_t; temperature = x.temperature; wind =
                           x.wind; turbulence = x.turbulence; humidity =
                           x.humidity; pressure = x.pressure; timestamp =
                           x.timestamp; position_t = x.position_t; track_t =
                           x.track_t; heading_t = x.heading_t; last_tc =
                           x.last_tc; last_df = x.last_df; adsb_version =
                           x.adsb_version })) (fun _ -> Npos (XI (XI (XO (XO
                           (XO (XO (XO (XI (XO (XO (XO (XO (XO
                           XH))))))))))))))
                           (set (fun r2 -> r2.r_heading) (fun f ->
                             let o = fun r2 -> f r2.r_heading in
                             (fun x -> { icao = x.icao; cap_ca = x.cap_ca;
                             cap = x.cap; category = x.category; reg = x.reg;
                             r_ais = x.r_ais; r_altitude = x.r_altitude;
                             altitude_gnss_ = x.altitude_gnss_;
                             altitude_source = x.altitude_source;
                             selected_altitude = x.selected_altitude;
                             baro_setting = x.baro_setting;
                             target_alt_source = x.target_alt_source;
                             r_squawk = x.r_squawk; surv_status =
                             x.surv_status; threat = x.threat; vrate =
                             x.vrate; vrate_source = x.vrate_source;
                             cpr_lat0 = x.cpr_lat0; cpr_lat1 = x.cpr_lat1;
                             cpr_lon0 = x.cpr_lon0; cpr_lon1 = x.cpr_lon1;
                             cpr_t0 = x.cpr_t0; cpr_t1 = x.cpr_t1; cpr_s0 =
                             x.cpr_s0; cpr_s1 = x.cpr_s1; lat = x.lat; lon =
                             x.lon; dist = x.dist; grspeed = x.grspeed;
                             true_airspeed = x.true_airspeed;
                             indicated_airspeed = x.indicated_airspeed;
                             mach = x.mach; ground_mov = x.ground_mov; turn =
                             x.turn; track = x.track; track_source =
                             x.track_source; r_heading = (o x);
                             heading_source = x.heading_source; roll_angle =
                             x.roll_angle; track_angle_rate =
                             x.track_angle_rate; bds50_t = x.bds50_t;
                             temperature = x.temperature; wind = x.wind;
                             turbulence = x.turbulence; humidity =
                             x.humidity; pressure = x.pressure; timestamp =
                             x.timestamp; position_t = x.position_t;
                             track_t = x.track_t; heading_t = x.heading_t;
                             last_tc = x.last_tc; last_df = x.last_df;
                             adsb_version = x.adsb_version })) (fun _ -> h)
                             r1))))
                else Ok r1))

(** val update_from_ext : (q * q) option -> row -> n list -> n -> row res **)

let update_from_ext obs r m df =
  bind (get_message_type m) (fun pat ->
    let (tc, st) = pat in
    let r0 =
      set (fun r0 -> r0.last_tc) (fun f ->
        let n0 = fun r0 -> f r0.last_tc in
        (fun x -> { icao = x.icao; cap_ca = x.cap_ca; cap = x.cap; category =
        x.category; reg = x.reg; r_ais = x.r_ais; r_altitude = x.r_altitude;
        altitude_gnss_ = x.altitude_gnss_; altitude_source =
        x.altitude_source; selected_altitude = x.selected_altitude;
        baro_setting = x.baro_setting; target_alt_source =
        x.target_alt_source; r_squawk = x.r_squawk; surv_status =
        x.surv_status; threat = x.threat; vrate = x.vrate; vrate_source =
        x.vrate_source; cpr_lat0 = x.cpr_lat0; cpr_lat1 = x.cpr_lat1;
        cpr_lon0 = x.cpr_lon0; cpr_lon1 = x.cpr_lon1; cpr_t0 = x.cpr_t0;
        cpr_t1 = x.cpr_t1; cpr_s0 = x.cpr_s0; cpr_s1 = x.cpr_s1; lat = x.lat;
        lon = x.lon; dist = x.dist; grspeed = x.grspeed; true_airspeed =
        x.true_airspeed; indicated_airspeed = x.indicated_airspeed; mach =
        x.mach; ground_mov = x.ground_mov; turn = x.turn; track = x.track;
        track_source = x.track_source; r_heading = x.r_heading;
        heading_source = x.heading_source; roll_angle = x.roll_angle;
        track_angle_rate = x.track_angle_rate; bds50_t = x.bds50_t;
        temperature = x.temperature; wind = x.wind; turbulence =
        x.turbulence; humidity = x.humidity; pressure = x.pressure;
        timestamp = x.timestamp; position_t = x.position_t; track_t =
        x.track_t; heading_t = x.heading_t; last_tc = (n0 x); last_df =
        x.last_df; adsb_version = x.adsb_version })) (fun _ -> tc) r
    in
    if in_tc (Npos XH) (Npos (XO (XO XH))) tc
    then bind (ais m) (fun a -> Ok
           (set (fun r1 -> r1.category) (fun f ->
             let p = fun r1 -> f r1.category in
             (fun x -> { icao = x.icao; cap_ca = x.cap_ca; cap = x.cap;
             category = (p x); reg = x.reg; r_ais = x.r_ais; r_altitude =
             x.r_altitude; altitude_gnss_ = x.altitude_gnss_;
             altitude_source = x.altitude_source; selected_altitude =
             x.selected_altitude; baro_setting = x.baro_setting;
             target_alt_source = x.target_alt_source; r_squawk = x.r_squawk;
             surv_status = x.surv_status; threat = x.threat; vrate = x.vrate;
             vrate_source = x.vrate_source; cpr_lat0 = x.cpr_lat0; cpr_lat1 =
             x.cpr_lat1; cpr_lon0 = x.cpr_lon0; cpr_lon1 = x.cpr_lon1;
             cpr_t0 = x.cpr_t0; cpr_t1 = x.cpr_t1; cpr_s0 = x.cpr_s0;
             cpr_s1 = x.cpr_s1; lat = x.lat; lon = x.lon; dist = x.dist;
             grspeed = x.grspeed; true_airspeed = x.true_airspeed;
             indicated_airspeed = x.indicated_airspeed; mach = x.mach;
             ground_mov = x.ground_mov; turn = x.turn; track = x.track;
             track_source = x.track_source; r_heading = x.r_heading;
             heading_source = x.heading_source; roll_angle = x.roll_angle;
             track_angle_rate = x.track_angle_rate; bds50_t = x.bds50_t;
             temperature = x.temperature; wind = x.wind; turbulence =
             x.turbulence; humidity = x.humidity; pressure = x.pressure;
             timestamp = x.timestamp; position_t = x.position_t; track_t =
             x.track_t; heading_t = x.heading_t; last_tc = x.last_tc;
             last_df = x.last_df; adsb_version = x.adsb_version })) (fun _ ->
             (tc, st))
             (set (fun r1 -> r1.r_ais) (fun f ->
               let o = fun r1 -> f r1.r_ais in
               (fun x -> { icao = x.icao; cap_ca = x.cap_ca; cap = x.cap;
               category = x.category; reg = x.reg; r_ais = (o x);
               r_altitude = x.r_altitude; altitude_gnss_ = x.altitude_gnss_;
               altitude_source = x.altitude_source; selected_altitude =
               x.selected_altitude; baro_setting = x.baro_setting;
               target_alt_source = x.target_alt_source; r_squawk =
               x.r_squawk; surv_status = x.surv_status; threat = x.threat;
               vrate = x.vrate; vrate_source = x.vrate_source; cpr_lat0 =
               x.cpr_lat0; cpr_lat1 = x.cpr_lat1; cpr_lon0 = x.cpr_lon0;
               cpr_lon1 = x.cpr_lon1; cpr_t0 = x.cpr_t0; cpr_t1 = x.cpr_t1;
               cpr_s0 = x.cpr_s0; cpr_s1 = x.cpr_s1; lat = x.lat; lon =
               x.lon; dist = x.dist; grspeed = x.grspeed; true_airspeed =
               x.true_airspeed; indicated_airspeed = x.indicated_airspeed;
               mach = x.mach; ground_mov = x.ground_mov; turn = x.turn;
               track = x.track; track_source = x.track_source; r_heading =
               x.r_heading; heading_source = x.heading_source; roll_angle =
               x.roll_angle; track_angle_rate = x.track_angle_rate; bds50_t =
               x.bds50_t; temperature = x.temperature; wind = x.wind;
               turbulence = x.turbulence; humidity = x.humidity; pressure =
               x.pressure; timestamp = x.timestamp; position_t =
               x.position_t; track_t = x.track_t; heading_t = x.heading_t;
               last_tc = x.last_tc; last_df = x.last_df; adsb_version =
               x.adsb_version })) (fun _ -> a) r0)))
    else if in_tc (Npos (XI (XO XH))) (Npos (XO (XO (XO XH)))) tc
         then bind (ground_movement m) (fun g ->
                bind (ground_track m) (fun t ->
                  update_cpr obs
                    (set (fun r1 -> r1.track_source) (fun f ->
                      let n0 = fun r1 -> f r1.track_source in
                      (fun x -> { icao = x.icao; cap_ca = x.cap_ca; cap =
                      x.cap; category = x.category; reg = x.reg; r_ais =
                      x.r_ais; r_altitude = x.r_altitude; altitude_gnss_ =
                      x.altitude_gnss_; altitude_source = x.altitude_source;
                      selected_altitude = x.selected_altitude; baro_setting =
                      x.baro_setting; target_alt_source =
                      x.target_alt_source; r_squawk = x.r_squawk;
                      surv_status = x.surv_status; threat = x.threat; vrate =
                      x.vrate; vrate_source = x.vrate_source; cpr_lat0 =
                      x.cpr_lat0; cpr_lat1 = x.cpr_lat1; cpr_lon0 =
                      x.cpr_lon0; cpr_lon1 = x.cpr_lon1; cpr_t0 = x.cpr_t0;
                      cpr_t1 = x.cpr_t1; cpr_s0 = x.cpr_s0; cpr_s1 =
                      x.cpr_s1; lat = x.lat; lon = x.lon; dist = x.dist;
                      grspeed = x.grspeed; true_airspeed = x.true_airspeed;
                      indicated_airspeed = x.indicated_airspeed; mach =
                      x.mach; ground_mov = x.ground_mov; turn = x.turn;
                      track = x.track; track_source = (n0 x); r_heading =
                      x.r_heading; heading_source = x.heading_source;
                      roll_angle = x.roll_angle; track_angle_rate =
                      x.track_angle_rate; bds50_t = x.bds50_t; temperature =
                      x.temperature; wind = x.wind; turbulence =
                      x.turbulence; humidity = x.humidity; pressure =
                      x.pressure; timestamp = x.timestamp; position_t =
                      x.position_t; track_t = x.track_t; heading_t =
                      x.heading_t; last_tc = x.last_tc; last_df = x.last_df;
                      adsb_version = x.adsb_version })) (fun _ -> sP)
                      (set (fun r1 -> r1.track) (fun f ->
                        let o = fun r1 -> f r1.track in
                        (fun x -> { icao = x.icao; cap_ca = x.cap_ca; cap =
                        x.cap; category = x.category; reg = x.reg; r_ais =
                        x.r_ais; r_altitude = x.r_altitude; altitude_gnss_ =
                        x.altitude_gnss_; altitude_source =
                        x.altitude_source; selected_altitude =
                        x.selected_altitude; baro_setting = x.baro_setting;
                        target_alt_source = x.target_alt_source; r_squawk =
                        x.r_squawk; surv_status = x.surv_status; threat =
                        x.threat; vrate = x.vrate; vrate_source =
                        x.vrate_source; cpr_lat0 = x.cpr_lat0; cpr_lat1 =
                        x.cpr_lat1; cpr_lon0 = x.cpr_lon0; cpr_lon1 =
                        x.cpr_lon1; cpr_t0 = x.cpr_t0; cpr_t1 = x.cpr_t1;
                        cpr_s0 = x.cpr_s0; cpr_s1 = x.cpr_s1; lat = x.lat;
                        lon = x.lon; dist = x.dist; grspeed = x.grspeed;
                        true_airspeed = x.true_airspeed; indicated_airspeed =
                        x.indicated_airspeed; mach = x.mach; ground_mov =
                        x.ground_mov; turn = x.turn; track = (o x);
                        track_source = x.track_source; r_heading =
                        x.r_heading; heading_source = x.heading_source;
                        roll_angle = x.roll_angle; track_angle_rate =
                        x.track_angle_rate; bds50_t = x.bds50_t;
                        temperature = x.temperature; wind = x.wind;
                        turbulence = x.turbulence; humidity = x.humidity;
                        pressure = x.pressure; timestamp = x.timestamp;
                        position_t = x.position_t; track_t = x.track_t;
                        heading_t = x.heading_t; last_tc = x.last_tc;
                        last_df = x.last_df; adsb_version = x.adsb_version }))
                        (fun _ -> t)
                        (set (fun r1 -> r1.altitude_source) (fun f ->
                          let n0 = fun r1 -> f r1.altitude_source in
                          (fun x -> { icao = x.icao; cap_ca = x.cap_ca; cap =
                          x.cap; category = x.category; reg = x.reg; r_ais =
                          x.r_ais; r_altitude = x.r_altitude;
                          altitude_gnss_ = x.altitude_gnss_;
                          altitude_source = (n0 x); selected_altitude =
                          x.selected_altitude; baro_setting = x.baro_setting;
                          target_alt_source = x.target_alt_source; r_squawk =
                          x.r_squawk; surv_status = x.surv_status; threat =
                          x.threat; vrate = x.vrate; vrate_source =
                          x.vrate_source; cpr_lat0 = x.cpr_lat0; cpr_lat1 =
                          x.cpr_lat1; cpr_lon0 = x.cpr_lon0; cpr_lon1 =
                          x.cpr_lon1; cpr_t0 = x.cpr_t0; cpr_t1 = x.cpr_t1;
                          cpr_s0 = x.cpr_s0; cpr_s1 = x.cpr_s1; lat = x.lat;
                          lon = x.lon; dist = x.dist; grspeed = x.grspeed;
                          true_airspeed = x.true_airspeed;
                          indicated_airspeed = x.indicated_airspeed; mach =
                          x.mach; ground_mov = x.ground_mov; turn = x.turn;
                          track = x.track; track_source = x.track_source;
                          r_heading = x.r_heading; heading_source =
                          x.heading_source; roll_angle = x.roll_angle;
                          track_angle_rate = x.track_angle_rate; bds50_t =
                          x.bds50_t; temperature = x.temperature; wind =
                          x.wind; turbulence = x.turbulence; humidity =
                          x.humidity; pressure = x.pressure; timestamp =
                          x.timestamp; position_t = x.position_t; track_t =
                          x.track_t; heading_t = x.heading_t; last_tc =
                          x.last_tc; last_df = x.last_df; adsb_version =
                          x.adsb_version })) (fun _ -> Npos (XO (XO (XO (XO
                          (XI (XI (XI (XO (XO (XO (XO (XO (XO
                          XH))))))))))))))
                          (set (fun r1 -> r1.r_altitude) (fun f ->
                            let o = fun r1 -> f r1.r_altitude in
                            (fun x -> { icao = x.icao; cap_ca = x.cap_ca;
                            cap = x.cap; category = x.category; reg = x.reg;
                            r_ais = x.r_ais; r_altitude = (o x);
                            altitude_gnss_ = x.altitude_gnss_;
                            altitude_source = x.altitude_source;
                            selected_altitude = x.selected_altitude;
                            baro_setting = x.baro_setting;
                            target_alt_source = x.target_alt_source;
                            r_squawk = x.r_squawk; surv_status =
                            x.surv_status; threat = x.threat; vrate =
                            x.vrate; vrate_source = x.vrate_source;
                            cpr_lat0 = x.cpr_lat0; cpr_lat1 = x.cpr_lat1;
                            cpr_lon0 = x.cpr_lon0; cpr_lon1 = x.cpr_lon1;
                            cpr_t0 = x.cpr_t0; cpr_t1 = x.cpr_t1; cpr_s0 =
                            x.cpr_s0; cpr_s1 = x.cpr_s1; lat = x.lat; lon =
                            x.lon; dist = x.dist; grspeed = x.grspeed;
                            true_airspeed = x.true_airspeed;
                            indicated_airspeed = x.indicated_airspeed; mach =
                            x.mach; ground_mov = x.ground_mov; turn = x.turn;
                            track = x.track; track_source = x.track_source;
                            r_heading = x.r_heading; heading_source =
                            x.heading_source; roll_angle = x.roll_angle;
                            track_angle_rate = x.track_angle_rate; bds50_t =
                            x.bds50_t; temperature = x.temperature; wind =
                            x.wind; turbulence = x.turbulence; humidity =
                            x.humidity; pressure = x.pressure; timestamp =
                            x.timestamp; position_t = x.position_t; track_t =
                            x.track_t; heading_t = x.heading_t; last_tc =
                            x.last_tc; last_df = x.last_df; adsb_version =
                            x.adsb_version })) (fun _ -> None)
                            (set (fun r1 -> r1.ground_mov) (fun f ->
                              let o = fun r1 -> f r1.ground_mov in
                              (fun x -> { icao = x.icao; cap_ca = x.cap_ca;
                              cap = x.cap; category = x.category; reg =
                              x.reg; r_ais = x.r_ais; r_altitude =
                              x.r_altitude; altitude_gnss_ =
                              x.altitude_gnss_; altitude_source =
                              x.altitude_source; selected_altitude =
                              x.selected_altitude; baro_setting =
                              x.baro_setting; target_alt_source =
                              x.target_alt_source; r_squawk = x.r_squawk;
                              surv_status = x.surv_status; threat = x.threat;
                              vrate = x.vrate; vrate_source = x.vrate_source;
                              cpr_lat0 = x.cpr_lat0; cpr_lat1 = x.cpr_lat1;
                              cpr_lon0 = x.cpr_lon0; cpr_lon1 = x.cpr_lon1;
                              cpr_t0 = x.cpr_t0; cpr_t1 = x.cpr_t1; cpr_s0 =
                              x.cpr_s0; cpr_s1 = x.cpr_s1; lat = x.lat; lon =
                              x.lon; dist = x.dist; grspeed = x.grspeed;
                              true_airspeed = x.true_airspeed;
                              indicated_airspeed = x.indicated_airspeed;
                              mach = x.mach; ground_mov = (o x); turn =
                              x.turn; track = x.track; track_source =
                              x.track_source; r_heading = x.r_heading;
                              heading_source = x.heading_source; roll_angle =
                              x.roll_angle; track_angle_rate =
                              x.track_angle_rate; bds50_t = x.bds50_t;
                              temperature = x.temperature; wind = x.wind;
                              turbulence = x.turbulence; humidity =
                              x.humidity; pressure = x.pressure; timestamp =
                              x.timestamp; position_t = x.position_t;
                              track_t = x.track_t; heading_t = x.heading_t;
                              last_tc = x.last_tc; last_df = x.last_df;
                              adsb_version = x.adsb_version })) (fun _ -> g)
                              r0))))) m tc))
         else if in_tc (Npos (XI (XO (XO XH)))) (Npos (XO (XI (XO (XO XH)))))
                   tc
              then bind (altitude m df) (fun a ->
                     bind (surveillance_status m) (fun s ->
                       update_cpr obs
                         (set (fun r1 -> r1.surv_status) (fun f ->
                           let n0 = fun r1 -> f r1.surv_status in
                           (fun x -> { icao = x.icao; cap_ca = x.cap_ca;
                           cap = x.cap; category = x.category; reg = x.reg;
                           r_ais = x.r_ais; r_altitude = x.r_altitude;
                           altitude_gnss_ = x.altitude_gnss_;
                           altitude_source = x.altitude_source;
                           selected_altitude = x.selected_altitude;
                           baro_setting = x.baro_setting; target_alt_source =
                           x.target_alt_source; r_squawk = x.r_squawk;
                           surv_status = (n0 x); threat = x.threat; vrate =
                           x.vrate; vrate_source = x.vrate_source; cpr_lat0 =
                           x.cpr_lat0; cpr_lat1 = x.cpr_lat1; cpr_lon0 =
                           x.cpr_lon0; cpr_lon1 = x.cpr_lon1; cpr_t0 =
                           x.cpr_t0; cpr_t1 = x.cpr_t1; cpr_s0 = x.cpr_s0;
                           cpr_s1 = x.cpr_s1; lat = x.lat; lon = x.lon;
                           dist = x.dist; grspeed = x.grspeed;
                           true_airspeed = x.true_airspeed;
                           indicated_airspeed = x.indicated_airspeed; mach =
                           x.mach; ground_mov = x.ground_mov; turn = x.turn;
                           track = x.track; track_source = x.track_source;
                           r_heading = x.r_heading; heading_source =
                           x.heading_source; roll_angle = x.roll_angle;
                           track_angle_rate = x.track_angle_rate; bds50_t =
                           x.bds50_t; temperature = x.temperature; wind =
                           x.wind; turbulence = x.turbulence; humidity =
                           x.humidity; pressure = x.pressure; timestamp =
                           x.timestamp; position_t = x.position_t; track_t =
                           x.track_t; heading_t = x.heading_t; last_tc =
                           x.last_tc; last_df = x.last_df; adsb_version =
                           x.adsb_version })) (fun _ -> s)
                           (set (fun r1 -> r1.altitude_source) (fun f ->
                             let n0 = fun r1 -> f r1.altitude_source in
                             (fun x -> { icao = x.icao; cap_ca = x.cap_ca;
                             cap = x.cap; category = x.category; reg = x.reg;
                             r_ais = x.r_ais; r_altitude = x.r_altitude;
                             altitude_gnss_ = x.altitude_gnss_;
                             altitude_source = (n0 x); selected_altitude =
                             x.selected_altitude; baro_setting =
                             x.baro_setting; target_alt_source =
                             x.target_alt_source; r_squawk = x.r_squawk;
                             surv_status = x.surv_status; threat = x.threat;
                             vrate = x.vrate; vrate_source = x.vrate_source;
                             cpr_lat0 = x.cpr_lat0; cpr_lat1 = x.cpr_lat1;
                             cpr_lon0 = x.cpr_lon0; cpr_lon1 = x.cpr_lon1;
                             cpr_t0 = x.cpr_t0; cpr_t1 = x.cpr_t1; cpr_s0 =
                             x.cpr_s0; cpr_s1 = x.cpr_s1; lat = x.lat; lon =
                             x.lon; dist = x.dist; grspeed = x.grspeed;
                             true_airspeed = x.true_airspeed;
                             indicated_airspeed = x.indicated_airspeed;
                             mach = x.mach; ground_mov = x.ground_mov; turn =
                             x.turn; track = x.track; track_source =
                             x.track_source; r_heading = x.r_heading;
                             heading_source = x.heading_source; roll_angle =
                             x.roll_angle; track_angle_rate =
                             x.track_angle_rate; bds50_t = x.bds50_t;
                             temperature = x.temperature; wind = x.wind;
                             turbulence = x.turbulence; humidity =
                             x.humidity; pressure = x.pressure; timestamp =
                             x.timestamp; position_t = x.position_t;
                             track_t = x.track_t; heading_t = x.heading_t;
                             last_tc = x.last_tc; last_df = x.last_df;
                             adsb_version = x.adsb_version })) (fun _ -> sP)
                             (set (fun r1 -> r1.r_altitude) (fun f ->
                               let o = fun r1 -> f r1.r_altitude in
                               (fun x -> { icao = x.icao; cap_ca = x.cap_ca;
                               cap = x.cap; category = x.category; reg =
                               x.reg; r_ais = x.r_ais; r_altitude = (o x);
                               altitude_gnss_ = x.altitude_gnss_;
                               altitude_source = x.altitude_source;
                               selected_altitude = x.selected_altitude;
                               baro_setting = x.baro_setting;
                               target_alt_source = x.target_alt_source;
                               r_squawk = x.r_squawk; surv_status =
                               x.surv_status; threat = x.threat; vrate =
                               x.vrate; vrate_source = x.vrate_source;
                               cpr_lat0 = x.cpr_lat0; cpr_lat1 = x.cpr_lat1;
                               cpr_lon0 = x.cpr_lon0; cpr_lon1 = x.cpr_lon1;
                               cpr_t0 = x.cpr_t0; cpr_t1 = x.cpr_t1; cpr_s0 =
                               x.cpr_s0; cpr_s1 = x.cpr_s1; lat = x.lat;
                               lon = x.lon; dist = x.dist; grspeed =
                               x.grspeed; true_airspeed = x.true_airspeed;
                               indicated_airspeed = x.indicated_airspeed;
                               mach = x.mach; ground_mov = x.ground_mov;
                               turn = x.turn; track = x.track; track_source =
                               x.track_source; r_heading = x.r_heading;
                               heading_source = x.heading_source;
                               roll_angle = x.roll_angle; track_angle_rate =
                               x.track_angle_rate; bds50_t = x.bds50_t;
                               temperature = x.temperature; wind = x.wind;
                               turbulence = x.turbulence; humidity =
                               x.humidity; pressure = x.pressure; timestamp =
                               x.timestamp; position_t = x.position_t;
                               track_t = x.track_t; heading_t = x.heading_t;
                               last_tc = x.last_tc; last_df = x.last_df;
                               adsb_version = x.adsb_version })) (fun _ -> a)
                               r0))) m tc))
              else if N.eqb tc (Npos (XI (XI (XO (XO XH)))))
                   then update_from_ext_19 r0 m st
                   else if in_tc (Npos (XO (XO (XI (XO XH))))) (Npos (XO (XI
                             (XI (XO XH))))) tc
                        then bind (altitude_gnss m) (fun g ->
                               bind (surveillance_status m) (fun s -> Ok
                                 (set (fun r1 -> r1.surv_status) (fun f ->
                                   let n0 = fun r1 -> f r1.surv_status in
                                   (fun x -> { icao = x.icao; cap_ca =
                                   x.cap_ca; cap = x.cap; category =
                                   x.category; reg = x.reg; r_ais = x.r_ais;
                                   r_altitude = x.r_altitude;
                                   altitude_gnss_ = x.altitude_gnss_;
                                   altitude_source = x.altitude_source;
                                   selected_altitude = x.selected_altitude;
                                   baro_setting = x.baro_setting;
                                   target_alt_source = x.target_alt_source;
                                   r_squawk = x.r_squawk; surv_status =
                                   (n0 x); threat = x.threat; vrate =
                                   x.vrate; vrate_source = x.vrate_source;
                                   cpr_lat0 = x.cpr_lat0; cpr_lat1 =
                                   x.cpr_lat1; cpr_lon0 = x.cpr_lon0;
                                   cpr_lon1 = x.cpr_lon1; cpr_t0 = x.cpr_t0;
                                   cpr_t1 = x.cpr_t1; cpr_s0 = x.cpr_s0;
                                   cpr_s1 = x.cpr_s1; lat = x.lat; lon =
                                   x.lon; dist = x.dist; grspeed = x.grspeed;
                                   true_airspeed = x.true_airspeed;
                                   indicated_airspeed = x.indicated_airspeed;
                                   mach = x.mach; ground_mov = x.ground_mov;
                                   turn = x.turn; track = x.track;
                                   track_source = x.track_source; r_heading =
                                   x.r_heading; heading_source =
                                   x.heading_source; roll_angle =
                                   x.roll_angle; track_angle_rate =
                                   x.track_angle_rate; bds50_t = x.bds50_t;
                                   temperature = x.temperature; wind =
                                   x.wind; turbulence = x.turbulence;
                                   humidity = x.humidity; pressure =
                                   x.pressure; timestamp = x.timestamp;
                                   position_t = x.position_t; track_t =
                                   x.track_t; heading_t = x.heading_t;
                                   last_tc = x.last_tc; last_df = x.last_df;
                                   adsb_version = x.adsb_version }))
                                   (fun _ -> s)
                                   (set (fun r1 -> r1.altitude_gnss_)
                                     (fun f ->
                                     let o = fun r1 -> f r1.altitude_gnss_ in
                                     (fun x -> { icao = x.icao; cap_ca =
                                     x.cap_ca; cap = x.cap; category =
                                     x.category; reg = x.reg; r_ais =
                                     x.r_ais; r_altitude = x.r_altitude;
                                     altitude_gnss_ = (o x);
                                     altitude_source = x.altitude_source;
                                     selected_altitude = x.selected_altitude;
                                     baro_setting = x.baro_setting;
                                     target_alt_source = x.target_alt_source;
                                     r_squawk = x.r_squawk; surv_status =
                                     x.surv_status; threat = x.threat;
                                     vrate = x.vrate; vrate_source =
                                     x.vrate_source; cpr_lat0 = x.cpr_lat0;
                                     cpr_lat1 = x.cpr_lat1; cpr_lon0 =
                                     x.cpr_lon0; cpr_lon1 = x.cpr_lon1;
                                     cpr_t0 = x.cpr_t0; cpr_t1 = x.cpr_t1;
                                     cpr_s0 = x.cpr_s0; cpr_s1 = x.cpr_s1;
                                     lat = x.lat; lon = x.lon; dist = x.dist;
                                     grspeed = x.grspeed; true_airspeed =
                                     x.true_airspeed; indicated_airspeed =
                                     x.indicated_airspeed; mach = x.mach;
                                     ground_mov = x.ground_mov; turn =
                                     x.turn; track = x.track; track_source =
                                     x.track_source; r_heading = x.r_heading;
                                     heading_source = x.heading_source;
                                     roll_angle = x.roll_angle;
                                     track_angle_rate = x.track_angle_rate;
                                     bds50_t = x.bds50_t; temperature =
                                     x.temperature; wind = x.wind;
                                     turbulence = x.turbulence; humidity =
                                     x.humidity; pressure = x.pressure;
                                     timestamp = x.timestamp; position_t =
                                     x.position_t; track_t = x.track_t;
                                     heading_t = x.heading_t; last_tc =
                                     x.last_tc; last_df = x.last_df;
                                     adsb_version = x.adsb_version }))
                                     (fun _ -> g) r0))))
                        else if N.eqb tc (Npos (XI (XI (XI (XI XH)))))
                             then bind (version m) (fun v -> Ok
                                    (set (fun r1 -> r1.adsb_version)
                                      (fun f ->
                                      let o = fun r1 -> f r1.adsb_version in
                                      (fun x -> { icao = x.icao; cap_ca =
                                      x.cap_ca; cap = x.cap; category =
                                      x.category; reg = x.reg; r_ais =
                                      x.r_ais; r_altitude = x.r_altitude;
                                      altitude_gnss_ = x.altitude_gnss_;
                                      altitude_source = x.altitude_source;
                                      selected_altitude =
                                      x.selected_altitude; baro_setting =
                                      x.baro_setting; target_alt_source =
                                      x.target_alt_source; r_squawk =
                                      x.r_squawk; surv_status =
                                      x.surv_status; threat = x.threat;
                                      vrate = x.vrate; vrate_source =
                                      x.vrate_source; cpr_lat0 = x.cpr_lat0;
                                      cpr_lat1 = x.cpr_lat1; cpr_lon0 =
                                      x.cpr_lon0; cpr_lon1 = x.cpr_lon1;
                                      cpr_t0 = x.cpr_t0; cpr_t1 = x.cpr_t1;
                                      cpr_s0 = x.cpr_s0; cpr_s1 = x.cpr_s1;
                                      lat = x.lat; lon = x.lon; dist =
                                      x.dist; grspeed = x.grspeed;
                                      true_airspeed = x.true_airspeed;
                                      indicated_airspeed =
                                      x.indicated_airspeed; mach = x.mach;
                                      ground_mov = x.ground_mov; turn =
                                      x.turn; track = x.track; track_source =
                                      x.track_source; r_heading =
                                      x.r_heading; heading_source =
                                      x.heading_source; roll_angle =
                                      x.roll_angle; track_angle_rate =
                                      x.track_angle_rate; bds50_t =
                                      x.bds50_t; temperature = x.temperature;
                                      wind = x.wind; turbulence =
                                      x.turbulence; humidity = x.humidity;
                                      pressure = x.pressure; timestamp =
                                      x.timestamp; position_t = x.position_t;
                                      track_t = x.track_t; heading_t =
                                      x.heading_t; last_tc = x.last_tc;
                                      last_df = x.last_df; adsb_version =
                                      (o x) })) (fun _ -> v) r0))
                             else Ok r0)

(** val tas_char : n option -> n **)

let tas_char = function
| Some v0 ->
  if N.eqb v0 (Npos XH)
  then Npos (XI (XO (XO (XO (XO (XO (XO (XI (XO (XO (XO (XO (XO
         XH)))))))))))))
  else if N.eqb v0 (Npos (XO XH))
       then Npos (XO (XI (XO (XO (XO (XO (XO (XI (XO (XO (XO (XO (XO
              XH)))))))))))))
       else if N.eqb v0 (Npos (XI XH))
            then Npos (XI (XI (XO (XO (XO (XO (XO (XI (XO (XO (XO (XO (XO
                   XH)))))))))))))
            else sP
| None -> sP

(** val update_from_mode_s : row -> n list -> bool -> row res **)

let update_from_mode_s r m relaxed0 =
  bind (bds m) (fun b ->
    bind
      (if (&&) (N.eqb (fst b) (Npos (XO XH))) (N.eqb (snd b) N0)
       then bind (ais m) (fun a -> Ok
              (set (fun r0 -> r0.r_ais) (fun f ->
                let o = fun r0 -> f r0.r_ais in
                (fun x -> { icao = x.icao; cap_ca = x.cap_ca; cap = x.cap;
                category = x.category; reg = x.reg; r_ais = (o x);
                r_altitude = x.r_altitude; altitude_gnss_ = x.altitude_gnss_;
                altitude_source = x.altitude_source; selected_altitude =
                x.selected_altitude; baro_setting = x.baro_setting;
                target_alt_source = x.target_alt_source; r_squawk =
                x.r_squawk; surv_status = x.surv_status; threat = x.threat;
                vrate = x.vrate; vrate_source = x.vrate_source; cpr_lat0 =
                x.cpr_lat0; cpr_lat1 = x.cpr_lat1; cpr_lon0 = x.cpr_lon0;
                cpr_lon1 = x.cpr_lon1; cpr_t0 = x.cpr_t0; cpr_t1 = x.cpr_t1;
                cpr_s0 = x.cpr_s0; cpr_s1 = x.cpr_s1; lat = x.lat; lon =
                x.lon; dist = x.dist; grspeed = x.grspeed; true_airspeed =
                x.true_airspeed; indicated_airspeed = x.indicated_airspeed;
                mach = x.mach; ground_mov = x.ground_mov; turn = x.turn;
                track = x.track; track_source = x.track_source; r_heading =
                x.r_heading; heading_source = x.heading_source; roll_angle =
                x.roll_angle; track_angle_rate = x.track_angle_rate;
                bds50_t = x.bds50_t; temperature = x.temperature; wind =
                x.wind; turbulence = x.turbulence; humidity = x.humidity;
                pressure = x.pressure; timestamp = x.timestamp; position_t =
                x.position_t; track_t = x.track_t; heading_t = x.heading_t;
                last_tc = x.last_tc; last_df = x.last_df; adsb_version =
                x.adsb_version })) (fun _ -> a) r))
       else Ok r) (fun r0 ->
      bind
        (if (&&) (N.eqb (fst b) (Npos (XI XH))) (N.eqb (snd b) N0)
         then bind (threat_encounter m) (fun t -> Ok
                (set (fun r1 -> r1.threat) (fun f ->
                  let o = fun r1 -> f r1.threat in
                  (fun x -> { icao = x.icao; cap_ca = x.cap_ca; cap = x.cap;
                  category = x.category; reg = x.reg; r_ais = x.r_ais;
                  r_altitude = x.r_altitude; altitude_gnss_ =
                  x.altitude_gnss_; altitude_source = x.altitude_source;
                  selected_altitude = x.selected_altitude; baro_setting =
                  x.baro_setting; target_alt_source = x.target_alt_source;
                  r_squawk = x.r_squawk; surv_status = x.surv_status;
                  threat = (o x); vrate = x.vrate; vrate_source =
                  x.vrate_source; cpr_lat0 = x.cpr_lat0; cpr_lat1 =
                  x.cpr_lat1; cpr_lon0 = x.cpr_lon0; cpr_lon1 = x.cpr_lon1;
                  cpr_t0 = x.cpr_t0; cpr_t1 = x.cpr_t1; cpr_s0 = x.cpr_s0;
                  cpr_s1 = x.cpr_s1; lat = x.lat; lon = x.lon; dist = x.dist;
                  grspeed = x.grspeed; true_airspeed = x.true_airspeed;
                  indicated_airspeed = x.indicated_airspeed; mach = x.mach;
                  ground_mov = x.ground_mov; turn = x.turn; track = x.track;
                  track_source = x.track_source; r_heading = x.r_heading;
                  heading_source = x.heading_source; roll_angle =
                  x.roll_angle; track_angle_rate = x.track_angle_rate;
                  bds50_t = x.bds50_t; temperature = x.temperature; wind =
                  x.wind; turbulence = x.turbulence; humidity = x.humidity;
                  pressure = x.pressure; timestamp = x.timestamp;
                  position_t = x.position_t; track_t = x.track_t; heading_t =
                  x.heading_t; last_tc = x.last_tc; last_df = x.last_df;
                  adsb_version = x.adsb_version })) (fun _ -> t) r0))
         else Ok r0) (fun r1 ->
        let zero = (&&) (N.eqb (fst b) N0) (N.eqb (snd b) N0) in
        bind
          (if zero
           then bind (is_bds_1_7 m) (fun c ->
                  match c with
                  | Some c0 ->
                    Ok
                      ((set (fun r2 -> r2.cap) (fun f ->
                         let c1 = fun r2 -> f r2.cap in
                         (fun x -> { icao = x.icao; cap_ca = x.cap_ca; cap =
                         (c1 x); category = x.category; reg = x.reg; r_ais =
                         x.r_ais; r_altitude = x.r_altitude; altitude_gnss_ =
                         x.altitude_gnss_; altitude_source =
                         x.altitude_source; selected_altitude =
                         x.selected_altitude; baro_setting = x.baro_setting;
                         target_alt_source = x.target_alt_source; r_squawk =
                         x.r_squawk; surv_status = x.surv_status; threat =
                         x.threat; vrate = x.vrate; vrate_source =
                         x.vrate_source; cpr_lat0 = x.cpr_lat0; cpr_lat1 =
                         x.cpr_lat1; cpr_lon0 = x.cpr_lon0; cpr_lon1 =
                         x.cpr_lon1; cpr_t0 = x.cpr_t0; cpr_t1 = x.cpr_t1;
                         cpr_s0 = x.cpr_s0; cpr_s1 = x.cpr_s1; lat = x.lat;
                         lon = x.lon; dist = x.dist; grspeed = x.grspeed;
                         true_airspeed = x.true_airspeed;
                         indicated_airspeed = x.indicated_airspeed; mach =
                         x.mach; ground_mov = x.ground_mov; turn = x.turn;
                         track = x.track; track_source = x.track_source;
                         r_heading = x.r_heading; heading_source =
                         x.heading_source; roll_angle = x.roll_angle;
                         track_angle_rate = x.track_angle_rate; bds50_t =
                         x.bds50_t; temperature = x.temperature; wind =
                         x.wind; turbulence = x.turbulence; humidity =
                         x.humidity; pressure = x.pressure; timestamp =
                         x.timestamp; position_t = x.position_t; track_t =
                         x.track_t; heading_t = x.heading_t; last_tc =
                         x.last_tc; last_df = x.last_df; adsb_version =
                         x.adsb_version })) (fun _ -> c0) r1), false)
                  | None -> Ok (r1, true))
           else Ok (r1, false)) (fun pat ->
          let (r2, zero0) = pat in
          bind
            (if (&&) zero0 ((||) relaxed0 r2.cap.c40)
             then bind (is_bds_4_0 m) (fun v ->
                    match v with
                    | Some v0 ->
                      Ok
                        ((set (fun r3 -> r3.baro_setting) (fun f ->
                           let o = fun r3 -> f r3.baro_setting in
                           (fun x -> { icao = x.icao; cap_ca = x.cap_ca;
                           cap = x.cap; category = x.category; reg = x.reg;
                           r_ais = x.r_ais; r_altitude = x.r_altitude;
                           altitude_gnss_ = x.altitude_gnss_;
                           altitude_source = x.altitude_source;
                           selected_altitude = x.selected_altitude;
                           baro_setting = (o x); target_alt_source =
                           x.target_alt_source; r_squawk = x.r_squawk;
                           surv_status = x.surv_status; threat = x.threat;
                           vrate = x.vrate; vrate_source = x.vrate_source;
                           cpr_lat0 = x.cpr_lat0; cpr_lat1 = x.cpr_lat1;
                           cpr_lon0 = x.cpr_lon0; cpr_lon1 = x.cpr_lon1;
                           cpr_t0 = x.cpr_t0; cpr_t1 = x.cpr_t1; cpr_s0 =
                           x.cpr_s0; cpr_s1 = x.cpr_s1; lat = x.lat; lon =
                           x.lon; dist = x.dist; grspeed = x.grspeed;
                           true_airspeed = x.true_airspeed;
                           indicated_airspeed = x.indicated_airspeed; mach =
                           x.mach; ground_mov = x.ground_mov; turn = x.turn;
                           track = x.track; track_source = x.track_source;
                           r_heading = x.r_heading; heading_source =
                           x.heading_source; roll_angle = x.roll_angle;
                           track_angle_rate = x.track_angle_rate; bds50_t =
                           x.bds50_t; temperature = x.temperature; wind =
                           x.wind; turbulence = x.turbulence; humidity =
                           x.humidity; pressure = x.pressure; timestamp =
                           x.timestamp; position_t = x.position_t; track_t =
                           x.track_t; heading_t = x.heading_t; last_tc =
                           x.last_tc; last_df = x.last_df; adsb_version =
                           x.adsb_version })) (fun _ -> v0.b40_baro)
                           (set (fun r3 -> r3.target_alt_source) (fun f ->
                             let n0 = fun r3 -> f r3.target_alt_source in
                             (fun x -> { icao = x.icao; cap_ca = x.cap_ca;
                             cap = x.cap; category = x.category; reg = x.reg;
                             r_ais = x.r_ais; r_altitude = x.r_altitude;
                             altitude_gnss_ = x.altitude_gnss_;
                             altitude_source = x.altitude_source;
                             selected_altitude = x.selected_altitude;
                             baro_setting = x.baro_setting;
                             target_alt_source = (n0 x); r_squawk =
                             x.r_squawk; surv_status = x.surv_status;
                             threat = x.threat; vrate = x.vrate;
                             vrate_source = x.vrate_source; cpr_lat0 =
                             x.cpr_lat0; cpr_lat1 = x.cpr_lat1; cpr_lon0 =
                             x.cpr_lon0; cpr_lon1 = x.cpr_lon1; cpr_t0 =
                             x.cpr_t0; cpr_t1 = x.cpr_t1; cpr_s0 = x.cpr_s0;
                             cpr_s1 = x.cpr_s1; lat = x.lat; lon = x.lon;
                             dist = x.dist; grspeed = x.grspeed;
                             true_airspeed = x.true_airspeed;
                             indicated_airspeed = x.indicated_airspeed;
                             mach = x.mach; ground_mov = x.ground_mov; turn =
                             x.turn; track = x.track; track_source =
                             x.track_source; r_heading = x.r_heading;
                             heading_source = x.heading_source; roll_angle =
                             x.roll_angle; track_angle_rate =
                             x.track_angle_rate; bds50_t = x.bds50_t;
                             temperature = x.temperature; wind = x.wind;
                             turbulence = x.turbulence; humidity =
                             x.humidity; pressure = x.pressure; timestamp =
                             x.timestamp; position_t = x.position_t;
                             track_t = x.track_t; heading_t = x.heading_t;
                             last_tc = x.last_tc; last_df = x.last_df;
                             adsb_version = x.adsb_version })) (fun _ ->
                             tas_char v0.b40_src)
                             (set (fun r3 -> r3.selected_altitude) (fun f ->
                               let o = fun r3 -> f r3.selected_altitude in
                               (fun x -> { icao = x.icao; cap_ca = x.cap_ca;
                               cap = x.cap; category = x.category; reg =
                               x.reg; r_ais = x.r_ais; r_altitude =
                               x.r_altitude; altitude_gnss_ =
                               x.altitude_gnss_; altitude_source =
                               x.altitude_source; selected_altitude = 
                               (o x); baro_setting = x.baro_setting;
                               target_alt_source = x.target_alt_source;
                               r_squawk = x.r_squawk; surv_status =
                               x.surv_status; threat = x.threat; vrate =
                               x.vrate; vrate_source = x.vrate_source;
                               cpr_lat0 = x.cpr_lat0; cpr_lat1 = x.cpr_lat1;
                               cpr_lon0 = x.cpr_lon0; cpr_lon1 = x.cpr_lon1;
                               cpr_t0 = x.cpr_t0; cpr_t1 = x.cpr_t1; cpr_s0 =
                               x.cpr_s0; cpr_s1 = x.cpr_s1; lat = x.lat;
                               lon = x.lon; dist = x.dist; grspeed =
                               x.grspeed; true_airspeed = x.true_airspeed;
                               indicated_airspeed = x.indicated_airspeed;
                               mach = x.mach; ground_mov = x.ground_mov;
                               turn = x.turn; track = x.track; track_source =
                               x.track_source; r_heading = x.r_heading;
                               heading_source = x.heading_source;
                               roll_angle = x.roll_angle; track_angle_rate =
                               x.track_angle_rate; bds50_t = x.bds50_t;
                               temperature = x.temperature; wind = x.wind;
                               turbulence = x.turbulence; humidity =
                               x.humidity; pressure = x.pressure; timestamp =
                               x.timestamp; position_t = x.position_t;
                               track_t = x.track_t; heading_t = x.heading_t;
                               last_tc = x.last_tc; last_df = x.last_df;
                               adsb_version = x.adsb_version })) (fun _ ->
                               oor v0.b40_mcp v0.b40_fms) r2))), false)
                    | None -> Ok (r2, true))
             else Ok (r2, zero0)) (fun pat0 ->
            let (r3, zero1) = pat0 in
            bind
              (if (&&) zero1 ((||) relaxed0 r3.cap.c50)
               then bind (is_bds_5_0 m) (fun v ->
                      match v with
                      | Some v0 ->
                        Ok
                          ((set (fun r4 -> r4.track_t) (fun f ->
                             let o = fun r4 -> f r4.track_t in
                             (fun x -> { icao = x.icao; cap_ca = x.cap_ca;
                             cap = x.cap; category = x.category; reg = x.reg;
                             r_ais = x.r_ais; r_altitude = x.r_altitude;
                             altitude_gnss_ = x.altitude_gnss_;
                             altitude_source = x.altitude_source;
                             selected_altitude = x.selected_altitude;
                             baro_setting = x.baro_setting;
                             target_alt_source = x.target_alt_source;
                             r_squawk = x.r_squawk; surv_status =
                             x.surv_status; threat = x.threat; vrate =
                             x.vrate; vrate_source = x.vrate_source;
                             cpr_lat0 = x.cpr_lat0; cpr_lat1 = x.cpr_lat1;
                             cpr_lon0 = x.cpr_lon0; cpr_lon1 = x.cpr_lon1;
                             cpr_t0 = x.cpr_t0; cpr_t1 = x.cpr_t1; cpr_s0 =
                             x.cpr_s0; cpr_s1 = x.cpr_s1; lat = x.lat; lon =
                             x.lon; dist = x.dist; grspeed = x.grspeed;
                             true_airspeed = x.true_airspeed;
                             indicated_airspeed = x.indicated_airspeed;
                             mach = x.mach; ground_mov = x.ground_mov; turn =
                             x.turn; track = x.track; track_source =
                             x.track_source; r_heading = x.r_heading;
                             heading_source = x.heading_source; roll_angle =
                             x.roll_angle; track_angle_rate =
                             x.track_angle_rate; bds50_t = x.bds50_t;
                             temperature = x.temperature; wind = x.wind;
                             turbulence = x.turbulence; humidity =
                             x.humidity; pressure = x.pressure; timestamp =
                             x.timestamp; position_t = x.position_t;
                             track_t = (o x); heading_t = x.heading_t;
                             last_tc = x.last_tc; last_df = x.last_df;
                             adsb_version = x.adsb_version })) (fun _ -> Some
                             r3.timestamp)
                             (set (fun r4 -> r4.track_source) (fun f ->
                               let n0 = fun r4 -> f r4.track_source in
                               (fun x -> { icao = x.icao; cap_ca = x.cap_ca;
                               cap = x.cap; category = x.category; reg =
                               x.reg; r_ais = x.r_ais; r_altitude =
                               x.r_altitude; altitude_gnss_ =
                               x.altitude_gnss_; altitude_source =
                               x.altitude_source; selected_altitude =
                               x.selected_altitude; baro_setting =
                               x.baro_setting; target_alt_source =
                               x.target_alt_source; r_squawk = x.r_squawk;
                               surv_status = x.surv_status; threat =
                               x.threat; vrate = x.vrate; vrate_source =
                               x.vrate_source; cpr_lat0 = x.cpr_lat0;
                               cpr_lat1 = x.cpr_lat1; cpr_lon0 = x.cpr_lon0;
                               cpr_lon1 = x.cpr_lon1; cpr_t0 = x.cpr_t0;
                               cpr_t1 = x.cpr_t1; cpr_s0 = x.cpr_s0; cpr_s1 =
                               x.cpr_s1; lat = x.lat; lon = x.lon; dist =
                               x.dist; grspeed = x.grspeed; true_airspeed =
                               x.true_airspeed; indicated_airspeed =
                               x.indicated_airspeed; mach = x.mach;
                               ground_mov = x.ground_mov; turn = x.turn;
                               track = x.track; track_source = (n0 x);
                               r_heading = x.r_heading; heading_source =
                               x.heading_source; roll_angle = x.roll_angle;
                               track_angle_rate = x.track_angle_rate;
                               bds50_t = x.bds50_t; temperature =
                               x.temperature; wind = x.wind; turbulence =
                               x.turbulence; humidity = x.humidity;
                               pressure = x.pressure; timestamp =
                               x.timestamp; position_t = x.position_t;
                               track_t = x.track_t; heading_t = x.heading_t;
                               last_tc = x.last_tc; last_df = x.last_df;
                               adsb_version = x.adsb_version })) (fun _ ->
                               Npos (XI (XO (XI (XO (XO (XO (XO (XI (XO (XO
                               (XO (XO (XO XH))))))))))))))
                               (set (fun r4 -> r4.bds50_t) (fun f ->
                                 let o = fun r4 -> f r4.bds50_t in
                                 (fun x -> { icao = x.icao; cap_ca =
                                 x.cap_ca; cap = x.cap; category =
                                 x.category; reg = x.reg; r_ais = x.r_ais;
                                 r_altitude = x.r_altitude; altitude_gnss_ =
                                 x.altitude_gnss_; altitude_source =
                                 x.altitude_source; selected_altitude =
                                 x.selected_altitude; baro_setting =
                                 x.baro_setting; target_alt_source =
                                 x.target_alt_source; r_squawk = x.r_squawk;
                                 surv_status = x.surv_status; threat =
                                 x.threat; vrate = x.vrate; vrate_source =
                                 x.vrate_source; cpr_lat0 = x.cpr_lat0;
                                 cpr_lat1 = x.cpr_lat1; cpr_lon0 =
                                 x.cpr_lon0; cpr_lon1 = x.cpr_lon1; cpr_t0 =
                                 x.cpr_t0; cpr_t1 = x.cpr_t1; cpr_s0 =
                                 x.cpr_s0; cpr_s1 = x.cpr_s1; lat = x.lat;
                                 lon = x.lon; dist = x.dist; grspeed =
                                 x.grspeed; true_airspeed = x.true_airspeed;
                                 indicated_airspeed = x.indicated_airspeed;
                                 mach = x.mach; ground_mov = x.ground_mov;
                                 turn = x.turn; track = x.track;
                                 track_source = x.track_source; r_heading =
                                 x.r_heading; heading_source =
                                 x.heading_source; roll_angle = x.roll_angle;
                                 track_angle_rate = x.track_angle_rate;
                                 bds50_t = (o x); temperature =
                                 x.temperature; wind = x.wind; turbulence =
                                 x.turbulence; humidity = x.humidity;
                                 pressure = x.pressure; timestamp =
                                 x.timestamp; position_t = x.position_t;
                                 track_t = x.track_t; heading_t =
                                 x.heading_t; last_tc = x.last_tc; last_df =
                                 x.last_df; adsb_version = x.adsb_version }))
                                 (fun _ -> Some r3.timestamp)
                                 (set (fun r4 -> r4.true_airspeed) (fun f ->
                                   let o = fun r4 -> f r4.true_airspeed in
                                   (fun x -> { icao = x.icao; cap_ca =
                                   x.cap_ca; cap = x.cap; category =
                                   x.category; reg = x.reg; r_ais = x.r_ais;
                                   r_altitude = x.r_altitude;
                                   altitude_gnss_ = x.altitude_gnss_;
                                   altitude_source = x.altitude_source;
                                   selected_altitude = x.selected_altitude;
                                   baro_setting = x.baro_setting;
                                   target_alt_source = x.target_alt_source;
                                   r_squawk = x.r_squawk; surv_status =
                                   x.surv_status; threat = x.threat; vrate =
                                   x.vrate; vrate_source = x.vrate_source;
                                   cpr_lat0 = x.cpr_lat0; cpr_lat1 =
                                   x.cpr_lat1; cpr_lon0 = x.cpr_lon0;
                                   cpr_lon1 = x.cpr_lon1; cpr_t0 = x.cpr_t0;
                                   cpr_t1 = x.cpr_t1; cpr_s0 = x.cpr_s0;
                                   cpr_s1 = x.cpr_s1; lat = x.lat; lon =
                                   x.lon; dist = x.dist; grspeed = x.grspeed;
                                   true_airspeed = (o x);
                                   indicated_airspeed = x.indicated_airspeed;
                                   mach = x.mach; ground_mov = x.ground_mov;
                                   turn = x.turn; track = x.track;
                                   track_source = x.track_source; r_heading =
                                   x.r_heading; heading_source =
                                   x.heading_source; roll_angle =
                                   x.roll_angle; track_angle_rate =
                                   x.track_angle_rate; bds50_t = x.bds50_t;
                                   temperature = x.temperature; wind =
                                   x.wind; turbulence = x.turbulence;
                                   humidity = x.humidity; pressure =
                                   x.pressure; timestamp = x.timestamp;
                                   position_t = x.position_t; track_t =
                                   x.track_t; heading_t = x.heading_t;
                                   last_tc = x.last_tc; last_df = x.last_df;
                                   adsb_version = x.adsb_version }))
                                   (fun _ -> v0.b50_tas)
                                   (set (fun r4 -> r4.grspeed) (fun f ->
                                     let o = fun r4 -> f r4.grspeed in
                                     (fun x -> { icao = x.icao; cap_ca =
                                     x.cap_ca; cap = x.cap; category =
                                     x.category; reg = x.reg; r_ais =
                                     x.r_ais; r_altitude = x.r_altitude;
                                     altitude_gnss_ = x.altitude_gnss_;
                                     altitude_source = x.altitude_source;
                                     selected_altitude = x.selected_altitude;
                                     baro_setting = x.baro_setting;
                                     target_alt_source = x.target_alt_source;
                                     r_squawk = x.r_squawk; surv_status =
                                     x.surv_status; threat = x.threat;
                                     vrate = x.vrate; vrate_source =
                                     x.vrate_source; cpr_lat0 = x.cpr_lat0;
                                     cpr_lat1 = x.cpr_lat1; cpr_lon0 =
                                     x.cpr_lon0; cpr_lon1 = x.cpr_lon1;
                                     cpr_t0 = x.cpr_t0; cpr_t1 = x.cpr_t1;
                                     cpr_s0 = x.cpr_s0; cpr_s1 = x.cpr_s1;
                                     lat = x.lat; lon = x.lon; dist = x.dist;
                                     grspeed = (o x); true_airspeed =
                                     x.true_airspeed; indicated_airspeed =
                                     x.indicated_airspeed; mach = x.mach;
                                     ground_mov = x.ground_mov; turn =
                                     x.turn; track = x.track; track_source =
                                     x.track_source; r_heading = x.r_heading;
                                     heading_source = x.heading_source;
                                     roll_angle = x.roll_angle;
                                     track_angle_rate = x.track_angle_rate;
                                     bds50_t = x.bds50_t; temperature =
                                     x.temperature; wind = x.wind;
                                     turbulence = x.turbulence; humidity =
                                     x.humidity; pressure = x.pressure;
                                     timestamp = x.timestamp; position_t =
                                     x.position_t; track_t = x.track_t;
                                     heading_t = x.heading_t; last_tc =
                                     x.last_tc; last_df = x.last_df;
                                     adsb_version = x.adsb_version }))
                                     (fun _ -> v0.b50_gs)
                                     (set (fun r4 -> r4.track_angle_rate)
                                       (fun f ->
                                       let o = fun r4 -> f r4.track_angle_rate
                                       in
                                       (fun x -> { icao = x.icao; cap_ca =
                                       x.cap_ca; cap = x.cap; category =
                                       x.category; reg = x.reg; r_ais =
                                       x.r_ais; r_altitude = x.r_altitude;
                                       altitude_gnss_ = x.altitude_gnss_;
                                       altitude_source = x.altitude_source;
                                       selected_altitude =
                                       x.selected_altitude; baro_setting =
                                       x.baro_setting; target_alt_source =
                                       x.target_alt_source; r_squawk =
                                       x.r_squawk; surv_status =
                                       x.surv_status; threat = x.threat;
                                       vrate = x.vrate; vrate_source =
                                       x.vrate_source; cpr_lat0 = x.cpr_lat0;
                                       cpr_lat1 = x.cpr_lat1; cpr_lon0 =
                                       x.cpr_lon0; cpr_lon1 = x.cpr_lon1;
                                       cpr_t0 = x.cpr_t0; cpr_t1 = x.cpr_t1;
                                       cpr_s0 = x.cpr_s0; cpr_s1 = x.cpr_s1;
                                       lat = x.lat; lon = x.lon; dist =
                                       x.dist; grspeed = x.grspeed;
                                       true_airspeed = x.true_airspeed;
                                       indicated_airspeed =
                                       x.indicated_airspeed; mach = x.mach;
                                       ground_mov = x.ground_mov; turn =
                                       x.turn; track = x.track;
                                       track_source = x.track_source;
                                       r_heading = x.r_heading;
                                       heading_source = x.heading_source;
                                       roll_angle = x.roll_angle;
                                       track_angle_rate = (o x); bds50_t =
                                       x.bds50_t; temperature =
                                       x.temperature; wind = x.wind;
                                       turbulence = x.turbulence; humidity =
                                       x.humidity; pressure = x.pressure;
                                       timestamp = x.timestamp; position_t =
                                       x.position_t; track_t = x.track_t;
                                       heading_t = x.heading_t; last_tc =
                                       x.last_tc; last_df = x.last_df;
                                       adsb_version = x.adsb_version }))
                                       (fun _ -> v0.b50_tar)
                                       (set (fun r4 -> r4.track) (fun f ->
                                         let o = fun r4 -> f r4.track in
                                         (fun x -> { icao = x.icao; cap_ca =
                                         x.cap_ca; cap = x.cap; category =
                                         x.category; reg = x.reg; r_ais =
                                         x.r_ais; r_altitude = x.r_altitude;
                                         altitude_gnss_ = x.altitude_gnss_;
                                         altitude_source = x.altitude_source;
                                         selected_altitude =
                                         x.selected_altitude; baro_setting =
                                         x.baro_setting; target_alt_source =
                                         x.target_alt_source; r_squawk =
                                         x.r_squawk; surv_status =
                                         x.surv_status; threat = x.threat;
                                         vrate = x.vrate; vrate_source =
                                         x.vrate_source; cpr_lat0 =
                                         x.cpr_lat0; cpr_lat1 = x.cpr_lat1;
                                         cpr_lon0 = x.cpr_lon0; cpr_lon1 =
                                         x.cpr_lon1; cpr_t0 = x.cpr_t0;
                                         cpr_t1 = x.cpr_t1; cpr_s0 =
                                         x.cpr_s0; cpr_s1 = x.cpr_s1; lat =
                                         x.lat; lon = x.lon; dist = x.dist;
                                         grspeed = x.grspeed; true_airspeed =
                                         x.true_airspeed;
                                         indicated_airspeed =
                                         x.indicated_airspeed; mach = x.mach;
                                         ground_mov = x.ground_mov; turn =
                                         x.turn; track = (o x);
                                         track_source = x.track_source;
                                         r_heading = x.r_heading;
                                         heading_source = x.heading_source;
                                         roll_angle = x.roll_angle;
                                         track_angle_rate =
                                         x.track_angle_rate; bds50_t =
                                         x.bds50_t; temperature =
                                         x.temperature; wind = x.wind;
                                         turbulence = x.turbulence;
                                         humidity = x.humidity; pressure =
                                         x.pressure; timestamp = x.timestamp;
                                         position_t = x.position_t; track_t =
                                         x.track_t; heading_t = x.heading_t;
                                         last_tc = x.last_tc; last_df =
                                         x.last_df; adsb_version =
                                         x.adsb_version })) (fun _ ->
                                         v0.b50_track)
                                         (set (fun r4 -> r4.roll_angle)
                                           (fun f ->
                                           let o = fun r4 -> f r4.roll_angle
                                           in
                                           (fun x -> { icao = x.icao;
                                           cap_ca = x.cap_ca; cap = x.cap;
                                           category = x.category; reg =
                                           x.reg; r_ais = x.r_ais;
                                           r_altitude = x.r_altitude;
                                           altitude_gnss_ = x.altitude_gnss_;
                                           altitude_source =
                                           x.altitude_source;
                                           selected_altitude =
                                           x.selected_altitude;
                                           baro_setting = x.baro_setting;
                                           target_alt_source =
                                           x.target_alt_source; r_squawk =
                                           x.r_squawk; surv_status =
                                           x.surv_status; threat = x.threat;
                                           vrate = x.vrate; vrate_source =
                                           x.vrate_source; cpr_lat0 =
                                           x.cpr_lat0; cpr_lat1 = x.cpr_lat1;
                                           cpr_lon0 = x.cpr_lon0; cpr_lon1 =
                                           x.cpr_lon1; cpr_t0 = x.cpr_t0;
                                           cpr_t1 = x.cpr_t1; cpr_s0 =
                                           x.cpr_s0; cpr_s1 = x.cpr_s1; lat =
                                           x.lat; lon = x.lon; dist = x.dist;
                                           grspeed = x.grspeed;
                                           true_airspeed = x.true_airspeed;
                                           indicated_airspeed =
                                           x.indicated_airspeed; mach =
                                           x.mach; ground_mov = x.ground_mov;
                                           turn = x.turn; track = x.track;
                                           track_source = x.track_source;
                                           r_heading = x.r_heading;
                                           heading_source = x.heading_source;
                                           roll_angle = (o x);
                                           track_angle_rate =
                                           x.track_angle_rate; bds50_t =
                                           x.bds50_t; temperature =
                                           x.temperature; wind = x.wind;
                                           turbulence = x.turbulence;
                                           humidity = x.humidity; pressure =
                                           x.pressure; timestamp =
                                           x.timestamp; position_t =
                                           x.position_t; track_t = x.track_t;
                                           heading_t = x.heading_t; last_tc =
                                           x.last_tc; last_df = x.last_df;
                                           adsb_version = x.adsb_version }))
                                           (fun _ -> v0.b50_roll) r3)))))))),
                          false)
                      | None -> Ok (r3, true))
               else Ok (r3, zero1)) (fun pat1 ->
              let (r4, zero2) = pat1 in
              bind
                (if (&&) zero2 ((||) relaxed0 r4.cap.c60)
                 then bind (is_bds_6_0 m) (fun v ->
                        match v with
                        | Some v0 ->
                          let r5 =
                            set (fun r5 -> r5.mach) (fun f ->
                              let o = fun r5 -> f r5.mach in
                              (fun x -> { icao = x.icao; cap_ca = x.cap_ca;
                              cap = x.cap; category = x.category; reg =
                              x.reg; r_ais = x.r_ais; r_altitude =
                              x.r_altitude; altitude_gnss_ =
                              x.altitude_gnss_; altitude_source =
                              x.altitude_source; selected_altitude =
                              x.selected_altitude; baro_setting =
                              x.baro_setting; target_alt_source =
                              x.target_alt_source; r_squawk = x.r_squawk;
                              surv_status = x.surv_status; threat = x.threat;
                              vrate = x.vrate; vrate_source = x.vrate_source;
                              cpr_lat0 = x.cpr_lat0; cpr_lat1 = x.cpr_lat1;
                              cpr_lon0 = x.cpr_lon0; cpr_lon1 = x.cpr_lon1;
                              cpr_t0 = x.cpr_t0; cpr_t1 = x.cpr_t1; cpr_s0 =
                              x.cpr_s0; cpr_s1 = x.cpr_s1; lat = x.lat; lon =
                              x.lon; dist = x.dist; grspeed = x.grspeed;
                              true_airspeed = x.true_airspeed;
                              indicated_airspeed = x.indicated_airspeed;
                              mach = (o x); ground_mov = x.ground_mov; turn =
                              x.turn; track = x.track; track_source =
                              x.track_source; r_heading = x.r_heading;
                              heading_source = x.heading_source; roll_angle =
                              x.roll_angle; track_angle_rate =
                              x.track_angle_rate; bds50_t = x.bds50_t;
                              temperature = x.temperature; wind = x.wind;
                              turbulence = x.turbulence; humidity =
                              x.humidity; pressure = x.pressure; timestamp =
                              x.timestamp; position_t = x.position_t;
                              track_t = x.track_t; heading_t = x.heading_t;
                              last_tc = x.last_tc; last_df = x.last_df;
                              adsb_version = x.adsb_version })) (fun _ ->
                              v0.b60_mach)
                              (set (fun r5 -> r5.indicated_airspeed)
                                (fun f ->
                                let o = fun r5 -> f r5.indicated_airspeed in
                                (fun x -> { icao = x.icao; cap_ca = x.cap_ca;
                                cap = x.cap; category = x.category; reg =
                                x.reg; r_ais = x.r_ais; r_altitude =
                                x.r_altitude; altitude_gnss_ =
                                x.altitude_gnss_; altitude_source =
                                x.altitude_source; selected_altitude =
                                x.selected_altitude; baro_setting =
                                x.baro_setting; target_alt_source =
                                x.target_alt_source; r_squawk = x.r_squawk;
                                surv_status = x.surv_status; threat =
                                x.threat; vrate = x.vrate; vrate_source =
                                x.vrate_source; cpr_lat0 = x.cpr_lat0;
                                cpr_lat1 = x.cpr_lat1; cpr_lon0 = x.cpr_lon0;
                                cpr_lon1 = x.cpr_lon1; cpr_t0 = x.cpr_t0;
                                cpr_t1 = x.cpr_t1; cpr_s0 = x.cpr_s0;
                                cpr_s1 = x.cpr_s1; lat = x.lat; lon = x.lon;
                                dist = x.dist; grspeed = x.grspeed;
                                true_airspeed = x.true_airspeed;
                                indicated_airspeed = (o x); mach = x.mach;
                                ground_mov = x.ground_mov; turn = x.turn;
                                track = x.track; track_source =
                                x.track_source; r_heading = x.r_heading;
                                heading_source = x.heading_source;
                                roll_angle = x.roll_angle; track_angle_rate =
                                x.track_angle_rate; bds50_t = x.bds50_t;
                                temperature = x.temperature; wind = x.wind;
                                turbulence = x.turbulence; humidity =
                                x.humidity; pressure = x.pressure;
                                timestamp = x.timestamp; position_t =
                                x.position_t; track_t = x.track_t;
                                heading_t = x.heading_t; last_tc = x.last_tc;
                                last_df = x.last_df; adsb_version =
                                x.adsb_version })) (fun _ -> v0.b60_ias)
                                (set (fun r5 -> r5.r_heading) (fun f ->
                                  let o = fun r5 -> f r5.r_heading in
                                  (fun x -> { icao = x.icao; cap_ca =
                                  x.cap_ca; cap = x.cap; category =
                                  x.category; reg = x.reg; r_ais = x.r_ais;
                                  r_altitude = x.r_altitude; altitude_gnss_ =
                                  x.altitude_gnss_; altitude_source =
                                  x.altitude_source; selected_altitude =
                                  x.selected_altitude; baro_setting =
                                  x.baro_setting; target_alt_source =
                                  x.target_alt_source; r_squawk = x.r_squawk;
                                  surv_status = x.surv_status; threat =
                                  x.threat; vrate = x.vrate; vrate_source =
                                  x.vrate_source; cpr_lat0 = x.cpr_lat0;
                                  cpr_lat1 = x.cpr_lat1; cpr_lon0 =
                                  x.cpr_lon0; cpr_lon1 = x.cpr_lon1; cpr_t0 =
                                  x.cpr_t0; cpr_t1 = x.cpr_t1; cpr_s0 =
                                  x.cpr_s0; cpr_s1 = x.cpr_s1; lat = x.lat;
                                  lon = x.lon; dist = x.dist; grspeed =
                                  x.grspeed; true_airspeed = x.true_airspeed;
                                  indicated_airspeed = x.indicated_airspeed;
                                  mach = x.mach; ground_mov = x.ground_mov;
                                  turn = x.turn; track = x.track;
                                  track_source = x.track_source; r_heading =
                                  (o x); heading_source = x.heading_source;
                                  roll_angle = x.roll_angle;
                                  track_angle_rate = x.track_angle_rate;
                                  bds50_t = x.bds50_t; temperature =
                                  x.temperature; wind = x.wind; turbulence =
                                  x.turbulence; humidity = x.humidity;
                                  pressure = x.pressure; timestamp =
                                  x.timestamp; position_t = x.position_t;
                                  track_t = x.track_t; heading_t =
                                  x.heading_t; last_tc = x.last_tc; last_df =
                                  x.last_df; adsb_version = x.adsb_version }))
                                  (fun _ -> v0.b60_hdg) r4))
                          in
                          let r6 =
                            if is_some v0.b60_baro_rate
                            then set (fun r6 -> r6.vrate) (fun f ->
                                   let o = fun r6 -> f r6.vrate in
                                   (fun x -> { icao = x.icao; cap_ca =
                                   x.cap_ca; cap = x.cap; category =
                                   x.category; reg = x.reg; r_ais = x.r_ais;
                                   r_altitude = x.r_altitude;
                                   altitude_gnss_ = x.altitude_gnss_;
                                   altitude_source = x.altitude_source;
                                   selected_altitude = x.selected_altitude;
                                   baro_setting = x.baro_setting;
                                   target_alt_source = x.target_alt_source;
                                   r_squawk = x.r_squawk; surv_status =
                                   x.surv_status; threat = x.threat; vrate =
                                   (o x); vrate_source = x.vrate_source;
                                   cpr_lat0 = x.cpr_lat0; cpr_lat1 =
                                   x.cpr_lat1; cpr_lon0 = x.cpr_lon0;
                                   cpr_lon1 = x.cpr_lon1; cpr_t0 = x.cpr_t0;
                                   cpr_t1 = x.cpr_t1; cpr_s0 = x.cpr_s0;
                                   cpr_s1 = x.cpr_s1; lat = x.lat; lon =
                                   x.lon; dist = x.dist; grspeed = x.grspeed;
                                   true_airspeed = x.true_airspeed;
                                   indicated_airspeed = x.indicated_airspeed;
                                   mach = x.mach; ground_mov = x.ground_mov;
                                   turn = x.turn; track = x.track;
                                   track_source = x.track_source; r_heading =
                                   x.r_heading; heading_source =
                                   x.heading_source; roll_angle =
                                   x.roll_angle; track_angle_rate =
                                   x.track_angle_rate; bds50_t = x.bds50_t;
                                   temperature = x.temperature; wind =
                                   x.wind; turbulence = x.turbulence;
                                   humidity = x.humidity; pressure =
                                   x.pressure; timestamp = x.timestamp;
                                   position_t = x.position_t; track_t =
                                   x.track_t; heading_t = x.heading_t;
                                   last_tc = x.last_tc; last_df = x.last_df;
                                   adsb_version = x.adsb_version }))
                                   (fun _ -> v0.b60_baro_rate)
                                   (set (fun r6 -> r6.vrate_source) (fun f ->
                                     let n0 = fun r6 -> f r6.vrate_source in
                                     (fun x -> { icao = x.icao; cap_ca =
                                     x.cap_ca; cap = x.cap; category =
                                     x.category; reg = x.reg; r_ais =
                                     x.r_ais; r_altitude = x.r_altitude;
                                     altitude_gnss_ = x.altitude_gnss_;
                                     altitude_source = x.altitude_source;
                                     selected_altitude = x.selected_altitude;
                                     baro_setting = x.baro_setting;
                                     target_alt_source = x.target_alt_source;
                                     r_squawk = x.r_squawk; surv_status =
                                     x.surv_status; threat = x.threat;
                                     vrate = x.vrate; vrate_source = 
                                     (n0 x); cpr_lat0 = x.cpr_lat0;
                                     cpr_lat1 = x.cpr_lat1; cpr_lon0 =
                                     x.cpr_lon0; cpr_lon1 = x.cpr_lon1;
                                     cpr_t0 = x.cpr_t0; cpr_t1 = x.cpr_t1;
                                     cpr_s0 = x.cpr_s0; cpr_s1 = x.cpr_s1;
                                     lat = x.lat; lon = x.lon; dist = x.dist;
                                     grspeed = x.grspeed; true_airspeed =
                                     x.true_airspeed; indicated_airspeed =
                                     x.indicated_airspeed; mach = x.mach;
                                     ground_mov = x.ground_mov; turn =
                                     x.turn; track = x.track; track_source =
                                     x.track_source; r_heading = x.r_heading;
                                     heading_source = x.heading_source;
                                     roll_angle = x.roll_angle;
                                     track_angle_rate = x.track_angle_rate;
                                     bds50_t = x.bds50_t; temperature =
                                     x.temperature; wind = x.wind;
                                     turbulence = x.turbulence; humidity =
                                     x.humidity; pressure = x.pressure;
                                     timestamp = x.timestamp; position_t =
                                     x.position_t; track_t = x.track_t;
                                     heading_t = x.heading_t; last_tc =
                                     x.last_tc; last_df = x.last_df;
                                     adsb_version = x.adsb_version }))
                                     (fun _ -> Npos (XO (XI (XI (XO (XO (XO
                                     (XO (XI (XO (XO (XO (XO (XO
                                     XH)))))))))))))) r5)
                            else set (fun r6 -> r6.vrate) (fun f ->
                                   let o = fun r6 -> f r6.vrate in
                                   (fun x -> { icao = x.icao; cap_ca =
                                   x.cap_ca; cap = x.cap; category =
                                   x.category; reg = x.reg; r_ais = x.r_ais;
                                   r_altitude = x.r_altitude;
                                   altitude_gnss_ = x.altitude_gnss_;
                                   altitude_source = x.altitude_source;
                                   selected_altitude = x.selected_altitude;
                                   baro_setting = x.baro_setting;
                                   target_alt_source = x.target_alt_source;
                                   r_squawk = x.r_squawk; surv_status =
                                   x.surv_status; threat = x.threat; vrate =
                                   (o x); vrate_source = x.vrate_source;
                                   cpr_lat0 = x.cpr_lat0; cpr_lat1 =
                                   x.cpr_lat1; cpr_lon0 = x.cpr_lon0;
                                   cpr_lon1 = x.cpr_lon1; cpr_t0 = x.cpr_t0;
                                   cpr_t1 = x.cpr_t1; cpr_s0 = x.cpr_s0;
                                   cpr_s1 = x.cpr_s1; lat = x.lat; lon =
                                   x.lon; dist = x.dist; grspeed = x.grspeed;
                                   true_airspeed = x.true_airspeed;
                                   indicated_airspeed = x.indicated_airspeed;
                                   mach = x.mach; ground_mov = x.ground_mov;
                                   turn = x.turn; track = x.track;
                                   track_source = x.track_source; r_heading =
                                   x.r_heading; heading_source =
                                   x.heading_source; roll_angle =
                                   x.roll_angle; track_angle_rate =
                                   x.track_angle_rate; bds50_t = x.bds50_t;
                                   temperature = x.temperature; wind =
                                   x.wind; turbulence = x.turbulence;
                                   humidity = x.humidity; pressure =
                                   x.pressure; timestamp = x.timestamp;
                                   position_t = x.position_t; track_t =
                                   x.track_t; heading_t = x.heading_t;
                                   last_tc = x.last_tc; last_df = x.last_df;
                                   adsb_version = x.adsb_version }))
                                   (fun _ -> v0.b60_ivv)
                                   (set (fun r6 -> r6.vrate_source) (fun f ->
                                     let n0 = fun r6 -> f r6.vrate_source in
                                     (fun x -> { icao = x.icao; cap_ca =
                                     x.cap_ca; cap = x.cap; category =
                                     x.category; reg = x.reg; r_ais =
                                     x.r_ais; r_altitude = x.r_altitude;
                                     altitude_gnss_ = x.altitude_gnss_;
                                     altitude_source = x.altitude_source;
                                     selected_altitude = x.selected_altitude;
                                     baro_setting = x.baro_setting;
                                     target_alt_source = x.target_alt_source;
                                     r_squawk = x.r_squawk; surv_status =
                                     x.surv_status; threat = x.threat;
                                     vrate = x.vrate; vrate_source = 
                                     (n0 x); cpr_lat0 = x.cpr_lat0;
                                     cpr_lat1 = x.cpr_lat1; cpr_lon0 =
                                     x.cpr_lon0; cpr_lon1 = x.cpr_lon1;
                                     cpr_t0 = x.cpr_t0; cpr_t1 = x.cpr_t1;
                                     cpr_s0 = x.cpr_s0; cpr_s1 = x.cpr_s1;
                                     lat = x.lat; lon = x.lon; dist = x.dist;
                                     grspeed = x.grspeed; true_airspeed =
                                     x.true_airspeed; indicated_airspeed =
                                     x.indicated_airspeed; mach = x.mach;
                                     ground_mov = x.ground_mov; turn =
                                     x.turn; track = x.track; track_source =
                                     x.track_source; r_heading = x.r_heading;
                                     heading_source = x.heading_source;
                                     roll_angle = x.roll_angle;
                                     track_angle_rate = x.track_angle_rate;
                                     bds50_t = x.bds50_t; temperature =
                                     x.temperature; wind = x.wind;
                                     turbulence = x.turbulence; humidity =
                                     x.humidity; pressure = x.pressure;
                                     timestamp = x.timestamp; position_t =
                                     x.position_t; track_t = x.track_t;
                                     heading_t = x.heading_t; last_tc =
                                     x.last_tc; last_df = x.last_df;
                                     adsb_version = x.adsb_version }))
                                     (fun _ -> Npos (XI (XO (XO (XO (XI (XI
                                     (XI (XO (XO (XO (XO (XO (XO
                                     XH)))))))))))))) r5)
                          in
                          Ok
                          ((set (fun r7 -> r7.heading_t) (fun f ->
                             let o = fun r7 -> f r7.heading_t in
                             (fun x -> { icao = x.icao; cap_ca = x.cap_ca;
                             cap = x.cap; category = x.category; reg = x.reg;
                             r_ais = x.r_ais; r_altitude = x.r_altitude;
                             altitude_gnss_ = x.altitude_gnss_;
                             altitude_source = x.altitude_source;
                             selected_altitude = x.selected_altitude;
                             baro_setting = x.baro_setting;
                             target_alt_source = x.target_alt_source;
                             r_squawk = x.r_squawk; surv_status =
                             x.surv_status; threat = x.threat; vrate =
                             x.vrate; vrate_source = x.vrate_source;
                             cpr_lat0 = x.cpr_lat0; cpr_lat1 = x.cpr_lat1;
                             cpr_lon0 = x.cpr_lon0; cpr_lon1 = x.cpr_lon1;
                             cpr_t0 = x.cpr_t0; cpr_t1 = x.cpr_t1; cpr_s0 =
                             x.cpr_s0; cpr_s1 = x.cpr_s1; lat = x.lat; lon =
                             x.lon; dist = x.dist; grspeed = x.grspeed;
                             true_airspeed = x.true_airspeed;
                             indicated_airspeed = x.indicated_airspeed;
                             mach = x.mach; ground_mov = x.ground_mov; turn =
                             x.turn; track = x.track; track_source =
                             x.track_source; r_heading = x.r_heading;
                             heading_source = x.heading_source; roll_angle =
                             x.roll_angle; track_angle_rate =
                             x.track_angle_rate; bds50_t = x.bds50_t;
                             temperature = x.temperature; wind = x.wind;
                             turbulence = x.turbulence; humidity =
                             x.humidity; pressure = x.pressure; timestamp =
                             x.timestamp; position_t = x.position_t;
                             track_t = x.track_t; heading_t = (o x);
                             last_tc = x.last_tc; last_df = x.last_df;
                             adsb_version = x.adsb_version })) (fun _ -> Some
                             r6.timestamp)
                             (set (fun r7 -> r7.heading_source) (fun f ->
                               let n0 = fun r7 -> f r7.heading_source in
                               (fun x -> { icao = x.icao; cap_ca = x.cap_ca;
                               cap = x.cap; category = x.category; reg =
                               x.reg; r_ais = x.r_ais; r_altitude =
                               x.r_altitude; altitude_gnss_ =
                               x.altitude_gnss_; altitude_source =
                               x.altitude_source; selected_altitude =
                               x.selected_altitude; baro_setting =
                               x.baro_setting; target_alt_source =
                               x.target_alt_source; r_squawk = x.r_squawk;
                               surv_status = x.surv_status; threat =
                               x.threat; vrate = x.vrate; vrate_source =
                               x.vrate_source; cpr_lat0 = x.cpr_lat0;
                               cpr_lat1 = x.cpr_lat1; cpr_lon0 = x.cpr_lon0;
                               cpr_lon1 = x.cpr_lon1; cpr_t0 = x.cpr_t0;
                               cpr_t1 = x.cpr_t1; cpr_s0 = x.cpr_s0; cpr_s1 =
                               x.cpr_s1; lat = x.lat; lon = x.lon; dist =
                               x.dist; grspeed = x.grspeed; true_airspeed =
                               x.true_airspeed; indicated_airspeed =
                               x.indicated_airspeed; mach = x.mach;
                               ground_mov = x.ground_mov; turn = x.turn;
                               track = x.track; track_source =
                               x.track_source; r_heading = x.r_heading;
                               heading_source = (n0 x); roll_angle =
                               x.roll_angle; track_angle_rate =
                               x.track_angle_rate; bds50_t = x.bds50_t;
                               temperature = x.temperature; wind = x.wind;
                               turbulence = x.turbulence; humidity =
                               x.humidity; pressure = x.pressure; timestamp =
                               x.timestamp; position_t = x.position_t;
                               track_t = x.track_t; heading_t = x.heading_t;
                               last_tc = x.last_tc; last_df = x.last_df;
                               adsb_version = x.adsb_version })) (fun _ ->
                               Npos (XO (XI (XI (XO (XO (XO (XO (XI (XO (XO
                               (XO (XO (XO XH)))))))))))))) r6)), false)
                        | None -> Ok (r4, true))
                 else Ok (r4, zero2)) (fun pat2 ->
                let (r5, zero3) = pat2 in
                bind
                  (if zero3
                   then bind (is_bds_4_4 m) (fun v ->
                          match v with
                          | Some v0 ->
                            let r6 =
                              set (fun r6 -> r6.temperature) (fun f ->
                                let o = fun r6 -> f r6.temperature in
                                (fun x -> { icao = x.icao; cap_ca = x.cap_ca;
                                cap = x.cap; category = x.category; reg =
                                x.reg; r_ais = x.r_ais; r_altitude =
                                x.r_altitude; altitude_gnss_ =
                                x.altitude_gnss_; altitude_source =
                                x.altitude_source; selected_altitude =
                                x.selected_altitude; baro_setting =
                                x.baro_setting; target_alt_source =
                                x.target_alt_source; r_squawk = x.r_squawk;
                                surv_status = x.surv_status; threat =
                                x.threat; vrate = x.vrate; vrate_source =
                                x.vrate_source; cpr_lat0 = x.cpr_lat0;
                                cpr_lat1 = x.cpr_lat1; cpr_lon0 = x.cpr_lon0;
                                cpr_lon1 = x.cpr_lon1; cpr_t0 = x.cpr_t0;
                                cpr_t1 = x.cpr_t1; cpr_s0 = x.cpr_s0;
                                cpr_s1 = x.cpr_s1; lat = x.lat; lon = x.lon;
                                dist = x.dist; grspeed = x.grspeed;
                                true_airspeed = x.true_airspeed;
                                indicated_airspeed = x.indicated_airspeed;
                                mach = x.mach; ground_mov = x.ground_mov;
                                turn = x.turn; track = x.track;
                                track_source = x.track_source; r_heading =
                                x.r_heading; heading_source =
                                x.heading_source; roll_angle = x.roll_angle;
                                track_angle_rate = x.track_angle_rate;
                                bds50_t = x.bds50_t; temperature = (o x);
                                wind = x.wind; turbulence = x.turbulence;
                                humidity = x.humidity; pressure = x.pressure;
                                timestamp = x.timestamp; position_t =
                                x.position_t; track_t = x.track_t;
                                heading_t = x.heading_t; last_tc = x.last_tc;
                                last_df = x.last_df; adsb_version =
                                x.adsb_version })) (fun _ -> v0.me_temp) r5
                            in
                            let r7 =
                              if is_some v0.me_wind
                              then set (fun r7 -> r7.wind) (fun f ->
                                     let o = fun r7 -> f r7.wind in
                                     (fun x -> { icao = x.icao; cap_ca =
                                     x.cap_ca; cap = x.cap; category =
                                     x.category; reg = x.reg; r_ais =
                                     x.r_ais; r_altitude = x.r_altitude;
                                     altitude_gnss_ = x.altitude_gnss_;
                                     altitude_source = x.altitude_source;
                                     selected_altitude = x.selected_altitude;
                                     baro_setting = x.baro_setting;
                                     target_alt_source = x.target_alt_source;
                                     r_squawk = x.r_squawk; surv_status =
                                     x.surv_status; threat = x.threat;
                                     vrate = x.vrate; vrate_source =
                                     x.vrate_source; cpr_lat0 = x.cpr_lat0;
                                     cpr_lat1 = x.cpr_lat1; cpr_lon0 =
                                     x.cpr_lon0; cpr_lon1 = x.cpr_lon1;
                                     cpr_t0 = x.cpr_t0; cpr_t1 = x.cpr_t1;
                                     cpr_s0 = x.cpr_s0; cpr_s1 = x.cpr_s1;
                                     lat = x.lat; lon = x.lon; dist = x.dist;
                                     grspeed = x.grspeed; true_airspeed =
                                     x.true_airspeed; indicated_airspeed =
                                     x.indicated_airspeed; mach = x.mach;
                                     ground_mov = x.ground_mov; turn =
                                     x.turn; track = x.track; track_source =
                                     x.track_source; r_heading = x.r_heading;
                                     heading_source = x.heading_source;
                                     roll_angle = x.roll_angle;
                                     track_angle_rate = x.track_angle_rate;
                                     bds50_t = x.bds50_t; temperature =
                                     x.temperature; wind = (o x);
                                     turbulence = x.turbulence; humidity =
                                     x.humidity; pressure = x.pressure;
                                     timestamp = x.timestamp; position_t =
                                     x.position_t; track_t = x.track_t;
                                     heading_t = x.heading_t; last_tc =
                                     x.last_tc; last_df = x.last_df;
                                     adsb_version = x.adsb_version }))
                                     (fun _ -> v0.me_wind) r6
                              else r6
                            in
                            Ok
                            ((set (fun r8 -> r8.pressure) (fun f ->
                               let o = fun r8 -> f r8.pressure in
                               (fun x -> { icao = x.icao; cap_ca = x.cap_ca;
                               cap = x.cap; category = x.category; reg =
                               x.reg; r_ais = x.r_ais; r_altitude =
                               x.r_altitude; altitude_gnss_ =
                               x.altitude_gnss_; altitude_source =
                               x.altitude_source; selected_altitude =
                               x.selected_altitude; baro_setting =
                               x.baro_setting; target_alt_source =
                               x.target_alt_source; r_squawk = x.r_squawk;
                               surv_status = x.surv_status; threat =
                               x.threat; vrate = x.vrate; vrate_source =
                               x.vrate_source; cpr_lat0 = x.cpr_lat0;
                               cpr_lat1 = x.cpr_lat1; cpr_lon0 = x.cpr_lon0;
                               cpr_lon1 = x.cpr_lon1; cpr_t0 = x.cpr_t0;
                               cpr_t1 = x.cpr_t1; cpr_s0 = x.cpr_s0; cpr_s1 =
                               x.cpr_s1; lat = x.lat; lon = x.lon; dist =
                               x.dist; grspeed = x.grspeed; true_airspeed =
                               x.true_airspeed; indicated_airspeed =
                               x.indicated_airspeed; mach = x.mach;
                               ground_mov = x.ground_mov; turn = x.turn;
                               track = x.track; track_source =
                               x.track_source; r_heading = x.r_heading;
                               heading_source = x.heading_source;
                               roll_angle = x.roll_angle; track_angle_rate =
                               x.track_angle_rate; bds50_t = x.bds50_t;
                               temperature = x.temperature; wind = x.wind;
                               turbulence = x.turbulence; humidity =
                               x.humidity; pressure = (o x); timestamp =
                               x.timestamp; position_t = x.position_t;
                               track_t = x.track_t; heading_t = x.heading_t;
                               last_tc = x.last_tc; last_df = x.last_df;
                               adsb_version = x.adsb_version })) (fun _ ->
                               v0.me_pres)
                               (set (fun r8 -> r8.turbulence) (fun f ->
                                 let o = fun r8 -> f r8.turbulence in
                                 (fun x -> { icao = x.icao; cap_ca =
                                 x.cap_ca; cap = x.cap; category =
                                 x.category; reg = x.reg; r_ais = x.r_ais;
                                 r_altitude = x.r_altitude; altitude_gnss_ =
                                 x.altitude_gnss_; altitude_source =
                                 x.altitude_source; selected_altitude =
                                 x.selected_altitude; baro_setting =
                                 x.baro_setting; target_alt_source =
                                 x.target_alt_source; r_squawk = x.r_squawk;
                                 surv_status = x.surv_status; threat =
                                 x.threat; vrate = x.vrate; vrate_source =
                                 x.vrate_source; cpr_lat0 = x.cpr_lat0;
                                 cpr_lat1 = x.cpr_lat1; cpr_lon0 =
                                 x.cpr_lon0; cpr_lon1 = x.cpr_lon1; cpr_t0 =
                                 x.cpr_t0; cpr_t1 = x.cpr_t1; cpr_s0 =
                                 x.cpr_s0; cpr_s1 = x.cpr_s1; lat = x.lat;
                                 lon = x.lon; dist = x.dist; grspeed =
                                 x.grspeed; true_airspeed = x.true_airspeed;
                                 indicated_airspeed = x.indicated_airspeed;
                                 mach = x.mach; ground_mov = x.ground_mov;
                                 turn = x.turn; track = x.track;
                                 track_source = x.track_source; r_heading =
                                 x.r_heading; heading_source =
                                 x.heading_source; roll_angle = x.roll_angle;
                                 track_angle_rate = x.track_angle_rate;
                                 bds50_t = x.bds50_t; temperature =
                                 x.temperature; wind = x.wind; turbulence =
                                 (o x); humidity = x.humidity; pressure =
                                 x.pressure; timestamp = x.timestamp;
                                 position_t = x.position_t; track_t =
                                 x.track_t; heading_t = x.heading_t;
                                 last_tc = x.last_tc; last_df = x.last_df;
                                 adsb_version = x.adsb_version })) (fun _ ->
                                 v0.me_turb)
                                 (set (fun r8 -> r8.humidity) (fun f ->
                                   let o = fun r8 -> f r8.humidity in
                                   (fun x -> { icao = x.icao; cap_ca =
                                   x.cap_ca; cap = x.cap; category =
                                   x.category; reg = x.reg; r_ais = x.r_ais;
                                   r_altitude = x.r_altitude;
                                   altitude_gnss_ = x.altitude_gnss_;
                                   altitude_source = x.altitude_source;
                                   selected_altitude = x.selected_altitude;
                                   baro_setting = x.baro_setting;
                                   target_alt_source = x.target_alt_source;
                                   r_squawk = x.r_squawk; surv_status =
                                   x.surv_status; threat = x.threat; vrate =
                                   x.vrate; vrate_source = x.vrate_source;
                                   cpr_lat0 = x.cpr_lat0; cpr_lat1 =
                                   x.cpr_lat1; cpr_lon0 = x.cpr_lon0;
                                   cpr_lon1 = x.cpr_lon1; cpr_t0 = x.cpr_t0;
                                   cpr_t1 = x.cpr_t1; cpr_s0 = x.cpr_s0;
                                   cpr_s1 = x.cpr_s1; lat = x.lat; lon =
                                   x.lon; dist = x.dist; grspeed = x.grspeed;
                                   true_airspeed = x.true_airspeed;
                                   indicated_airspeed = x.indicated_airspeed;
                                   mach = x.mach; ground_mov = x.ground_mov;
                                   turn = x.turn; track = x.track;
                                   track_source = x.track_source; r_heading =
                                   x.r_heading; heading_source =
                                   x.heading_source; roll_angle =
                                   x.roll_angle; track_angle_rate =
                                   x.track_angle_rate; bds50_t = x.bds50_t;
                                   temperature = x.temperature; wind =
                                   x.wind; turbulence = x.turbulence;
                                   humidity = (o x); pressure = x.pressure;
                                   timestamp = x.timestamp; position_t =
                                   x.position_t; track_t = x.track_t;
                                   heading_t = x.heading_t; last_tc =
                                   x.last_tc; last_df = x.last_df;
                                   adsb_version = x.adsb_version }))
                                   (fun _ -> v0.me_hum) r7))), false)
                          | None -> Ok (r5, true))
                   else Ok (r5, zero3)) (fun pat3 ->
                  let (r6, zero4) = pat3 in
                  if zero4
                  then bind (is_bds_4_5 m) (fun v ->
                         match v with
                         | Some t ->
                           Ok
                             (set (fun r7 -> r7.temperature) (fun f ->
                               let o = fun r7 -> f r7.temperature in
                               (fun x -> { icao = x.icao; cap_ca = x.cap_ca;
                               cap = x.cap; category = x.category; reg =
                               x.reg; r_ais = x.r_ais; r_altitude =
                               x.r_altitude; altitude_gnss_ =
                               x.altitude_gnss_; altitude_source =
                               x.altitude_source; selected_altitude =
                               x.selected_altitude; baro_setting =
                               x.baro_setting; target_alt_source =
                               x.target_alt_source; r_squawk = x.r_squawk;
                               surv_status = x.surv_status; threat =
                               x.threat; vrate = x.vrate; vrate_source =
                               x.vrate_source; cpr_lat0 = x.cpr_lat0;
                               cpr_lat1 = x.cpr_lat1; cpr_lon0 = x.cpr_lon0;
                               cpr_lon1 = x.cpr_lon1; cpr_t0 = x.cpr_t0;
                               cpr_t1 = x.cpr_t1; cpr_s0 = x.cpr_s0; cpr_s1 =
                               x.cpr_s1; lat = x.lat; lon = x.lon; dist =
                               x.dist; grspeed = x.grspeed; true_airspeed =
                               x.true_airspeed; indicated_airspeed =
                               x.indicated_airspeed; mach = x.mach;
                               ground_mov = x.ground_mov; turn = x.turn;
                               track = x.track; track_source =
                               x.track_source; r_heading = x.r_heading;
                               heading_source = x.heading_source;
                               roll_angle = x.roll_angle; track_angle_rate =
                               x.track_angle_rate; bds50_t = x.bds50_t;
                               temperature = (o x); wind = x.wind;
                               turbulence = x.turbulence; humidity =
                               x.humidity; pressure = x.pressure; timestamp =
                               x.timestamp; position_t = x.position_t;
                               track_t = x.track_t; heading_t = x.heading_t;
                               last_tc = x.last_tc; last_df = x.last_df;
                               adsb_version = x.adsb_version })) (fun _ ->
                               Some t) r6)
                         | None -> Ok r6)
                  else Ok r6))))))))

(** val plane_update :
    (q * q) option -> z -> row -> n list -> n -> bool -> row res **)

let plane_update obs now r m df relaxed0 =
  let r0 =
    set (fun r0 -> r0.last_df) (fun f ->
      let n0 = fun r0 -> f r0.last_df in
      (fun x -> { icao = x.icao; cap_ca = x.cap_ca; cap = x.cap; category =
      x.category; reg = x.reg; r_ais = x.r_ais; r_altitude = x.r_altitude;
      altitude_gnss_ = x.altitude_gnss_; altitude_source = x.altitude_source;
      selected_altitude = x.selected_altitude; baro_setting = x.baro_setting;
      target_alt_source = x.target_alt_source; r_squawk = x.r_squawk;
      surv_status = x.surv_status; threat = x.threat; vrate = x.vrate;
      vrate_source = x.vrate_source; cpr_lat0 = x.cpr_lat0; cpr_lat1 =
      x.cpr_lat1; cpr_lon0 = x.cpr_lon0; cpr_lon1 = x.cpr_lon1; cpr_t0 =
      x.cpr_t0; cpr_t1 = x.cpr_t1; cpr_s0 = x.cpr_s0; cpr_s1 = x.cpr_s1;
      lat = x.lat; lon = x.lon; dist = x.dist; grspeed = x.grspeed;
      true_airspeed = x.true_airspeed; indicated_airspeed =
      x.indicated_airspeed; mach = x.mach; ground_mov = x.ground_mov; turn =
      x.turn; track = x.track; track_source = x.track_source; r_heading =
      x.r_heading; heading_source = x.heading_source; roll_angle =
      x.roll_angle; track_angle_rate = x.track_angle_rate; bds50_t =
      x.bds50_t; temperature = x.temperature; wind = x.wind; turbulence =
      x.turbulence; humidity = x.humidity; pressure = x.pressure; timestamp =
      x.timestamp; position_t = x.position_t; track_t = x.track_t;
      heading_t = x.heading_t; last_tc = x.last_tc; last_df = (n0 x);
      adsb_version = x.adsb_version })) (fun _ -> df)
      (set (fun r0 -> r0.timestamp) (fun f ->
        let z0 = fun r0 -> f r0.timestamp in
        (fun x -> { icao = x.icao; cap_ca = x.cap_ca; cap = x.cap; category =
        x.category; reg = x.reg; r_ais = x.r_ais; r_altitude = x.r_altitude;
        altitude_gnss_ = x.altitude_gnss_; altitude_source =
        x.altitude_source; selected_altitude = x.selected_altitude;
        baro_setting = x.baro_setting; target_alt_source =
        x.target_alt_source; r_squawk = x.r_squawk; surv_status =
        x.surv_status; threat = x.threat; vrate = x.vrate; vrate_source =
        x.vrate_source; cpr_lat0 = x.cpr_lat0; cpr_lat1 = x.cpr_lat1;
        cpr_lon0 = x.cpr_lon0; cpr_lon1 = x.cpr_lon1; cpr_t0 = x.cpr_t0;
        cpr_t1 = x.cpr_t1; cpr_s0 = x.cpr_s0; cpr_s1 = x.cpr_s1; lat = x.lat;
        lon = x.lon; dist = x.dist; grspeed = x.grspeed; true_airspeed =
        x.true_airspeed; indicated_airspeed = x.indicated_airspeed; mach =
        x.mach; ground_mov = x.ground_mov; turn = x.turn; track = x.track;
        track_source = x.track_source; r_heading = x.r_heading;
        heading_source = x.heading_source; roll_angle = x.roll_angle;
        track_angle_rate = x.track_angle_rate; bds50_t = x.bds50_t;
        temperature = x.temperature; wind = x.wind; turbulence =
        x.turbulence; humidity = x.humidity; pressure = x.pressure;
        timestamp = (z0 x); position_t = x.position_t; track_t = x.track_t;
        heading_t = x.heading_t; last_tc = x.last_tc; last_df = x.last_df;
        adsb_version = x.adsb_version })) (fun _ -> now) r)
  in
  bind (update_from_bcast r0 m df) (fun r1 ->
    bind
      (if (||) (N.eqb df (Npos (XI (XO (XO (XO XH))))))
            (N.eqb df (Npos (XO (XI (XO (XO XH))))))
       then update_from_ext obs r1 m df
       else Ok r1) (fun r2 ->
      if (&&) ((||) relaxed0 (N.ltb (Npos (XI XH)) r2.cap_ca))
           ((||) (N.eqb df (Npos (XO (XO (XI (XO XH))))))
             (N.eqb df (Npos (XI (XO (XI (XO XH)))))))
      then update_from_mode_s r2 m relaxed0
      else Ok r2))

type srt = { s_df : n option; s_icao : n option; s_squawk : n option;
             s_cap : n option; s_alt : n option }

(** val srt_new : srt **)

let srt_new =
  { s_df = None; s_icao = None; s_squawk = None; s_cap = None; s_alt = None }

(** val srt_from_message : n list -> srt res **)

let srt_from_message m =
  bind (get_downlink_format m) (fun df ->
    match df with
    | Some df0 ->
      bind (get_icao m df0) (fun ic ->
        if N.eqb df0 (Npos (XO (XO XH)))
        then bind (altitude m df0) (fun a -> Ok { s_df = (Some df0); s_icao =
               ic; s_squawk = None; s_cap = None; s_alt = a })
        else if N.eqb df0 (Npos (XI (XO XH)))
             then bind (squawk m) (fun s -> Ok { s_df = (Some df0); s_icao =
                    ic; s_squawk = s; s_cap = None; s_alt = None })
             else if N.eqb df0 (Npos (XI (XI (XO XH))))
                  then bind (get_capability m) (fun c -> Ok { s_df = (Some
                         df0); s_icao = ic; s_squawk = None; s_cap = (Some
                         c); s_alt = None })
                  else Ok { s_df = (Some df0); s_icao = ic; s_squawk = None;
                         s_cap = None; s_alt = None })
    | None -> Ok srt_new)

type ext = { e_df : n option; e_icao : n option; e_cap : n; e_mt : (n * n);
             e_ais : n list option; e_cpr : ((n * n) * n) option;
             e_gm : q option; e_grspeed : n option; e_track : n option;
             e_track_source : n option; e_heading : n option;
             e_altitude : n option; e_alt_delta : z option;
             e_alt_gnss : n option; e_vrate : z option; e_ss : n option;
             e_version : n option }

(** val ext_new : ext **)

let ext_new =
  { e_df = None; e_icao = None; e_cap = N0; e_mt = (N0, N0); e_ais = None;
    e_cpr = None; e_gm = None; e_grspeed = None; e_track = None;
    e_track_source = None; e_heading = None; e_altitude = None; e_alt_delta =
    None; e_alt_gnss = None; e_vrate = None; e_ss = None; e_version = None }

(** val ext_from_message : n list -> ext res **)

let ext_from_message m =
  bind (get_downlink_format m) (fun df ->
    match df with
    | Some df0 ->
      bind (get_icao m df0) (fun ic ->
        bind (get_capability m) (fun c ->
          bind (get_message_type m) (fun mt ->
            let e =
              set (fun e -> e.e_mt) (fun f ->
                let p = fun r -> f r.e_mt in
                (fun x -> { e_df = x.e_df; e_icao = x.e_icao; e_cap =
                x.e_cap; e_mt = (p x); e_ais = x.e_ais; e_cpr = x.e_cpr;
                e_gm = x.e_gm; e_grspeed = x.e_grspeed; e_track = x.e_track;
                e_track_source = x.e_track_source; e_heading = x.e_heading;
                e_altitude = x.e_altitude; e_alt_delta = x.e_alt_delta;
                e_alt_gnss = x.e_alt_gnss; e_vrate = x.e_vrate; e_ss =
                x.e_ss; e_version = x.e_version })) (fun _ -> mt)
                (set (fun e -> e.e_cap) (fun f ->
                  let n0 = fun r -> f r.e_cap in
                  (fun x -> { e_df = x.e_df; e_icao = x.e_icao; e_cap =
                  (n0 x); e_mt = x.e_mt; e_ais = x.e_ais; e_cpr = x.e_cpr;
                  e_gm = x.e_gm; e_grspeed = x.e_grspeed; e_track =
                  x.e_track; e_track_source = x.e_track_source; e_heading =
                  x.e_heading; e_altitude = x.e_altitude; e_alt_delta =
                  x.e_alt_delta; e_alt_gnss = x.e_alt_gnss; e_vrate =
                  x.e_vrate; e_ss = x.e_ss; e_version = x.e_version }))
                  (fun _ -> c)
                  (set (fun e -> e.e_icao) (fun f ->
                    let o = fun r -> f r.e_icao in
                    (fun x -> { e_df = x.e_df; e_icao = (o x); e_cap =
                    x.e_cap; e_mt = x.e_mt; e_ais = x.e_ais; e_cpr = x.e_cpr;
                    e_gm = x.e_gm; e_grspeed = x.e_grspeed; e_track =
                    x.e_track; e_track_source = x.e_track_source; e_heading =
                    x.e_heading; e_altitude = x.e_altitude; e_alt_delta =
                    x.e_alt_delta; e_alt_gnss = x.e_alt_gnss; e_vrate =
                    x.e_vrate; e_ss = x.e_ss; e_version = x.e_version }))
                    (fun _ -> ic)
                    (set (fun e -> e.e_df) (fun f ->
                      let o = fun r -> f r.e_df in
                      (fun x -> { e_df = (o x); e_icao = x.e_icao; e_cap =
                      x.e_cap; e_mt = x.e_mt; e_ais = x.e_ais; e_cpr =
                      x.e_cpr; e_gm = x.e_gm; e_grspeed = x.e_grspeed;
                      e_track = x.e_track; e_track_source = x.e_track_source;
                      e_heading = x.e_heading; e_altitude = x.e_altitude;
                      e_alt_delta = x.e_alt_delta; e_alt_gnss = x.e_alt_gnss;
                      e_vrate = x.e_vrate; e_ss = x.e_ss; e_version =
                      x.e_version })) (fun _ -> Some df0) ext_new)))
            in
            let tc = fst mt in
            let st = snd mt in
            if in_tc (Npos XH) (Npos (XO (XO XH))) tc
            then bind (ais m) (fun a -> Ok
                   (set (fun e0 -> e0.e_ais) (fun f ->
                     let o = fun r -> f r.e_ais in
                     (fun x -> { e_df = x.e_df; e_icao = x.e_icao; e_cap =
                     x.e_cap; e_mt = x.e_mt; e_ais = (o x); e_cpr = x.e_cpr;
                     e_gm = x.e_gm; e_grspeed = x.e_grspeed; e_track =
                     x.e_track; e_track_source = x.e_track_source;
                     e_heading = x.e_heading; e_altitude = x.e_altitude;
                     e_alt_delta = x.e_alt_delta; e_alt_gnss = x.e_alt_gnss;
                     e_vrate = x.e_vrate; e_ss = x.e_ss; e_version =
                     x.e_version })) (fun _ -> a) e))
            else if in_tc (Npos (XI (XO XH))) (Npos (XO (XI (XO (XO XH))))) tc
                 then bind (cpr m) (fun p ->
                        let e0 =
                          set (fun e0 -> e0.e_cpr) (fun f ->
                            let o = fun r -> f r.e_cpr in
                            (fun x -> { e_df = x.e_df; e_icao = x.e_icao;
                            e_cap = x.e_cap; e_mt = x.e_mt; e_ais = x.e_ais;
                            e_cpr = (o x); e_gm = x.e_gm; e_grspeed =
                            x.e_grspeed; e_track = x.e_track;
                            e_track_source = x.e_track_source; e_heading =
                            x.e_heading; e_altitude = x.e_altitude;
                            e_alt_delta = x.e_alt_delta; e_alt_gnss =
                            x.e_alt_gnss; e_vrate = x.e_vrate; e_ss = x.e_ss;
                            e_version = x.e_version })) (fun _ -> p) e
                        in
                        if in_tc (Npos (XI (XO XH))) (Npos (XO (XO (XO XH))))
                             tc
                        then bind (ground_movement m) (fun g ->
                               bind (ground_track m) (fun t -> Ok
                                 (set (fun e1 -> e1.e_track_source) (fun f ->
                                   let o = fun r -> f r.e_track_source in
                                   (fun x -> { e_df = x.e_df; e_icao =
                                   x.e_icao; e_cap = x.e_cap; e_mt = x.e_mt;
                                   e_ais = x.e_ais; e_cpr = x.e_cpr; e_gm =
                                   x.e_gm; e_grspeed = x.e_grspeed; e_track =
                                   x.e_track; e_track_source = (o x);
                                   e_heading = x.e_heading; e_altitude =
                                   x.e_altitude; e_alt_delta = x.e_alt_delta;
                                   e_alt_gnss = x.e_alt_gnss; e_vrate =
                                   x.e_vrate; e_ss = x.e_ss; e_version =
                                   x.e_version })) (fun _ -> Some (Npos (XO
                                   (XO (XO (XO (XI (XI (XI (XO (XO (XO (XO
                                   (XO (XO XH)))))))))))))))
                                   (set (fun e1 -> e1.e_track) (fun f ->
                                     let o = fun r -> f r.e_track in
                                     (fun x -> { e_df = x.e_df; e_icao =
                                     x.e_icao; e_cap = x.e_cap; e_mt =
                                     x.e_mt; e_ais = x.e_ais; e_cpr =
                                     x.e_cpr; e_gm = x.e_gm; e_grspeed =
                                     x.e_grspeed; e_track = (o x);
                                     e_track_source = x.e_track_source;
                                     e_heading = x.e_heading; e_altitude =
                                     x.e_altitude; e_alt_delta =
                                     x.e_alt_delta; e_alt_gnss =
                                     x.e_alt_gnss; e_vrate = x.e_vrate;
                                     e_ss = x.e_ss; e_version = x.e_version }))
                                     (fun _ -> t)
                                     (set (fun e1 -> e1.e_gm) (fun f ->
                                       let o = fun r -> f r.e_gm in
                                       (fun x -> { e_df = x.e_df; e_icao =
                                       x.e_icao; e_cap = x.e_cap; e_mt =
                                       x.e_mt; e_ais = x.e_ais; e_cpr =
                                       x.e_cpr; e_gm = (o x); e_grspeed =
                                       x.e_grspeed; e_track = x.e_track;
                                       e_track_source = x.e_track_source;
                                       e_heading = x.e_heading; e_altitude =
                                       x.e_altitude; e_alt_delta =
                                       x.e_alt_delta; e_alt_gnss =
                                       x.e_alt_gnss; e_vrate = x.e_vrate;
                                       e_ss = x.e_ss; e_version =
                                       x.e_version })) (fun _ -> g) e0)))))
                        else if in_tc (Npos (XI (XO (XO XH)))) (Npos (XO (XI
                                  (XO (XO XH))))) tc
                             then bind (altitude m df0) (fun a ->
                                    bind (surveillance_status m) (fun s -> Ok
                                      (set (fun e1 -> e1.e_ss) (fun f ->
                                        let o = fun r -> f r.e_ss in
                                        (fun x -> { e_df = x.e_df; e_icao =
                                        x.e_icao; e_cap = x.e_cap; e_mt =
                                        x.e_mt; e_ais = x.e_ais; e_cpr =
                                        x.e_cpr; e_gm = x.e_gm; e_grspeed =
                                        x.e_grspeed; e_track = x.e_track;
                                        e_track_source = x.e_track_source;
                                        e_heading = x.e_heading; e_altitude =
                                        x.e_altitude; e_alt_delta =
                                        x.e_alt_delta; e_alt_gnss =
                                        x.e_alt_gnss; e_vrate = x.e_vrate;
                                        e_ss = (o x); e_version =
                                        x.e_version })) (fun _ -> Some s)
                                        (set (fun e1 -> e1.e_altitude)
                                          (fun f ->
                                          let o = fun r -> f r.e_altitude in
                                          (fun x -> { e_df = x.e_df; e_icao =
                                          x.e_icao; e_cap = x.e_cap; e_mt =
                                          x.e_mt; e_ais = x.e_ais; e_cpr =
                                          x.e_cpr; e_gm = x.e_gm; e_grspeed =
                                          x.e_grspeed; e_track = x.e_track;
                                          e_track_source = x.e_track_source;
                                          e_heading = x.e_heading;
                                          e_altitude = (o x); e_alt_delta =
                                          x.e_alt_delta; e_alt_gnss =
                                          x.e_alt_gnss; e_vrate = x.e_vrate;
                                          e_ss = x.e_ss; e_version =
                                          x.e_version })) (fun _ -> a) e0))))
                             else Ok e0)
                 else if N.eqb tc (Npos (XI (XI (XO (XO XH)))))
                      then bind (vertical_rate m) (fun v ->
                             bind (altitude_delta m) (fun d ->
                               let e0 =
                                 set (fun e0 -> e0.e_alt_delta) (fun f ->
                                   let o = fun r -> f r.e_alt_delta in
                                   (fun x -> { e_df = x.e_df; e_icao =
                                   x.e_icao; e_cap = x.e_cap; e_mt = x.e_mt;
                                   e_ais = x.e_ais; e_cpr = x.e_cpr; e_gm =
                                   x.e_gm; e_grspeed = x.e_grspeed; e_track =
                                   x.e_track; e_track_source =
                                   x.e_track_source; e_heading = x.e_heading;
                                   e_altitude = x.e_altitude; e_alt_delta =
                                   (o x); e_alt_gnss = x.e_alt_gnss;
                                   e_vrate = x.e_vrate; e_ss = x.e_ss;
                                   e_version = x.e_version })) (fun _ -> d)
                                   (set (fun e0 -> e0.e_vrate) (fun f ->
                                     let o = fun r -> f r.e_vrate in
                                     (fun x -> { e_df = x.e_df; e_icao =
                                     x.e_icao; e_cap = x.e_cap; e_mt =
                                     x.e_mt; e_ais = x.e_ais; e_cpr =
                                     x.e_cpr; e_gm = x.e_gm; e_grspeed =
                                     x.e_grspeed; e_track = x.e_track;
                                     e_track_source = x.e_track_source;
                                     e_heading = x.e_heading; e_altitude =
                                     x.e_altitude; e_alt_delta =
                                     x.e_alt_delta; e_alt_gnss =
                                     x.e_alt_gnss; e_vrate = (o x); e_ss =
                                     x.e_ss; e_version = x.e_version }))
                                     (fun _ -> v) e)
                               in
                               if N.eqb st (Npos XH)
                               then bind (track_and_groundspeed m false)
                                      (fun pat ->
                                      let (t, g) = pat in
                                      Ok
                                      (set (fun e1 -> e1.e_track_source)
                                        (fun f ->
                                        let o = fun r -> f r.e_track_source in
                                        (fun x -> { e_df = x.e_df; e_icao =
                                        x.e_icao; e_cap = x.e_cap; e_mt =
                                        x.e_mt; e_ais = x.e_ais; e_cpr =
                                        x.e_cpr; e_gm = x.e_gm; e_grspeed =
                                        x.e_grspeed; e_track = x.e_track;
                                        e_track_source = (o x); e_heading =
                                        x.e_heading; e_altitude =
                                        x.e_altitude; e_alt_delta =
                                        x.e_alt_delta; e_alt_gnss =
                                        x.e_alt_gnss; e_vrate = x.e_vrate;
                                        e_ss = x.e_ss; e_version =
                                        x.e_version })) (fun _ -> Some (Npos
                                        (XI (XO (XO (XO (XO (XO (XO (XI (XO
                                        (XO (XO (XO (XO XH)))))))))))))))
                                        (set (fun e1 -> e1.e_grspeed)
                                          (fun f ->
                                          let o = fun r -> f r.e_grspeed in
                                          (fun x -> { e_df = x.e_df; e_icao =
                                          x.e_icao; e_cap = x.e_cap; e_mt =
                                          x.e_mt; e_ais = x.e_ais; e_cpr =
                                          x.e_cpr; e_gm = x.e_gm; e_grspeed =
                                          (o x); e_track = x.e_track;
                                          e_track_source = x.e_track_source;
                                          e_heading = x.e_heading;
                                          e_altitude = x.e_altitude;
                                          e_alt_delta = x.e_alt_delta;
                                          e_alt_gnss = x.e_alt_gnss;
                                          e_vrate = x.e_vrate; e_ss = x.e_ss;
                                          e_version = x.e_version }))
                                          (fun _ -> g)
                                          (set (fun e1 -> e1.e_track)
                                            (fun f ->
                                            let o = fun r -> f r.e_track in
                                            (fun x -> { e_df = x.e_df;
                                            e_icao = x.e_icao; e_cap =
                                            x.e_cap; e_mt = x.e_mt; e_ais =
                                            x.e_ais; e_cpr = x.e_cpr; e_gm =
                                            x.e_gm; e_grspeed = x.e_grspeed;
                                            e_track = (o x); e_track_source =
                                            x.e_track_source; e_heading =
                                            x.e_heading; e_altitude =
                                            x.e_altitude; e_alt_delta =
                                            x.e_alt_delta; e_alt_gnss =
                                            x.e_alt_gnss; e_vrate =
                                            x.e_vrate; e_ss = x.e_ss;
                                            e_version = x.e_version }))
                                            (fun _ -> t) e0))))
                               else if N.eqb st (Npos (XO XH))
                                    then bind (track_and_groundspeed m true)
                                           (fun pat ->
                                           let (t, g) = pat in
                                           Ok
                                           (set (fun e1 -> e1.e_track_source)
                                             (fun f ->
                                             let o = fun r ->
                                               f r.e_track_source
                                             in
                                             (fun x -> { e_df = x.e_df;
                                             e_icao = x.e_icao; e_cap =
                                             x.e_cap; e_mt = x.e_mt; e_ais =
                                             x.e_ais; e_cpr = x.e_cpr; e_gm =
                                             x.e_gm; e_grspeed = x.e_grspeed;
                                             e_track = x.e_track;
                                             e_track_source = (o x);
                                             e_heading = x.e_heading;
                                             e_altitude = x.e_altitude;
                                             e_alt_delta = x.e_alt_delta;
                                             e_alt_gnss = x.e_alt_gnss;
                                             e_vrate = x.e_vrate; e_ss =
                                             x.e_ss; e_version =
                                             x.e_version })) (fun _ -> Some
                                             (Npos (XO (XI (XO (XO (XO (XO
                                             (XO (XI (XO (XO (XO (XO (XO
                                             XH)))))))))))))))
                                             (set (fun e1 -> e1.e_grspeed)
                                               (fun f ->
                                               let o = fun r -> f r.e_grspeed
                                               in
                                               (fun x -> { e_df = x.e_df;
                                               e_icao = x.e_icao; e_cap =
                                               x.e_cap; e_mt = x.e_mt;
                                               e_ais = x.e_ais; e_cpr =
                                               x.e_cpr; e_gm = x.e_gm;
                                               e_grspeed = (o x); e_track =
                                               x.e_track; e_track_source =
                                               x.e_track_source; e_heading =
                                               x.e_heading; e_altitude =
                                               x.e_altitude; e_alt_delta =
                                               x.e_alt_delta; e_alt_gnss =
                                               x.e_alt_gnss; e_vrate =
                                               x.e_vrate; e_ss = x.e_ss;
                                               e_version = x.e_version }))
                                               (fun _ -> g)
                                               (set (fun e1 -> e1.e_track)
                                                 (fun f ->
                                                 let o = fun r -> f r.e_track
                                                 in
                                                 (fun x -> { e_df = x.e_df;
                                                 e_icao = x.e_icao; e_cap =
                                                 x.e_cap; e_mt = x.e_mt;
                                                 e_ais = x.e_ais; e_cpr =
                                                 x.e_cpr; e_gm = x.e_gm;
                                                 e_grspeed = x.e_grspeed;
                                                 e_track = (o x);
                                                 e_track_source =
                                                 x.e_track_source;
                                                 e_heading = x.e_heading;
                                                 e_altitude = x.e_altitude;
                                                 e_alt_delta = x.e_alt_delta;
                                                 e_alt_gnss = x.e_alt_gnss;
                                                 e_vrate = x.e_vrate; e_ss =
                                                 x.e_ss; e_version =
                                                 x.e_version })) (fun _ -> t)
                                                 e0))))
                                    else if (||) (N.eqb st (Npos (XI XH)))
                                              (N.eqb st (Npos (XO (XO XH))))
                                         then bind (heading m) (fun h -> Ok
                                                (set (fun e1 -> e1.e_heading)
                                                  (fun f ->
                                                  let o = fun r ->
                                                    f r.e_heading
                                                  in
                                                  (fun x -> { e_df = x.e_df;
                                                  e_icao = x.e_icao; e_cap =
                                                  x.e_cap; e_mt = x.e_mt;
                                                  e_ais = x.e_ais; e_cpr =
                                                  x.e_cpr; e_gm = x.e_gm;
                                                  e_grspeed = x.e_grspeed;
                                                  e_track = x.e_track;
                                                  e_track_source =
                                                  x.e_track_source;
                                                  e_heading = (o x);
                                                  e_altitude = x.e_altitude;
                                                  e_alt_delta =
                                                  x.e_alt_delta; e_alt_gnss =
                                                  x.e_alt_gnss; e_vrate =
                                                  x.e_vrate; e_ss = x.e_ss;
                                                  e_version = x.e_version }))
                                                  (fun _ -> h) e0))
                                         else Ok e0))
                      else if in_tc (Npos (XO (XO (XI (XO XH))))) (Npos (XO
                                (XI (XI (XO XH))))) tc
                           then bind (altitude_gnss m) (fun g ->
                                  bind (surveillance_status m) (fun s -> Ok
                                    (set (fun e0 -> e0.e_ss) (fun f ->
                                      let o = fun r -> f r.e_ss in
                                      (fun x -> { e_df = x.e_df; e_icao =
                                      x.e_icao; e_cap = x.e_cap; e_mt =
                                      x.e_mt; e_ais = x.e_ais; e_cpr =
                                      x.e_cpr; e_gm = x.e_gm; e_grspeed =
                                      x.e_grspeed; e_track = x.e_track;
                                      e_track_source = x.e_track_source;
                                      e_heading = x.e_heading; e_altitude =
                                      x.e_altitude; e_alt_delta =
                                      x.e_alt_delta; e_alt_gnss =
                                      x.e_alt_gnss; e_vrate = x.e_vrate;
                                      e_ss = (o x); e_version = x.e_version }))
                                      (fun _ -> Some s)
                                      (set (fun e0 -> e0.e_alt_gnss)
                                        (fun f ->
                                        let o = fun r -> f r.e_alt_gnss in
                                        (fun x -> { e_df = x.e_df; e_icao =
                                        x.e_icao; e_cap = x.e_cap; e_mt =
                                        x.e_mt; e_ais = x.e_ais; e_cpr =
                                        x.e_cpr; e_gm = x.e_gm; e_grspeed =
                                        x.e_grspeed; e_track = x.e_track;
                                        e_track_source = x.e_track_source;
                                        e_heading = x.e_heading; e_altitude =
                                        x.e_altitude; e_alt_delta =
                                        x.e_alt_delta; e_alt_gnss = (o x);
                                        e_vrate = x.e_vrate; e_ss = x.e_ss;
                                        e_version = x.e_version })) (fun _ ->
                                        g) e))))
                           else if N.eqb tc (Npos (XI (XI (XI (XI XH)))))
                                then bind (version m) (fun v -> Ok
                                       (set (fun e0 -> e0.e_version)
                                         (fun f ->
                                         let o = fun r -> f r.e_version in
                                         (fun x -> { e_df = x.e_df; e_icao =
                                         x.e_icao; e_cap = x.e_cap; e_mt =
                                         x.e_mt; e_ais = x.e_ais; e_cpr =
                                         x.e_cpr; e_gm = x.e_gm; e_grspeed =
                                         x.e_grspeed; e_track = x.e_track;
                                         e_track_source = x.e_track_source;
                                         e_heading = x.e_heading;
                                         e_altitude = x.e_altitude;
                                         e_alt_delta = x.e_alt_delta;
                                         e_alt_gnss = x.e_alt_gnss; e_vrate =
                                         x.e_vrate; e_ss = x.e_ss;
                                         e_version = (o x) })) (fun _ -> v) e))
                                else Ok e)))
    | None -> Ok ext_new)

(** val mds_from_message : n list -> (n option * n option) res **)

let mds_from_message m =
  bind (get_downlink_format m) (fun df ->
    bind
      (match df with
       | Some df0 ->
         bind (get_icao m df0) (fun ic ->
           bind (altitude m df0) (fun _ -> Ok ((Some df0), ic)))
       | None -> Ok (None, None)) (fun pat ->
      let (dfo, ic) = pat in
      bind (bds m) (fun b ->
        bind
          (if (&&) (N.eqb (fst b) (Npos (XO XH))) (N.eqb (snd b) N0)
           then bind (ais m) (fun _ -> Ok ())
           else Ok ()) (fun _ ->
          bind
            (if (&&) (N.eqb (fst b) (Npos (XI XH))) (N.eqb (snd b) N0)
             then bind (threat_encounter m) (fun _ -> Ok ())
             else Ok ()) (fun _ ->
            let zero = (&&) (N.eqb (fst b) N0) (N.eqb (snd b) N0) in
            bind
              (if zero
               then bind (is_bds_1_7 m) (fun c -> Ok (negb (is_some c)))
               else Ok false) (fun zero0 ->
              bind
                (if zero0
                 then bind (is_bds_4_0 m) (fun c -> Ok (negb (is_some c)))
                 else Ok false) (fun zero1 ->
                bind
                  (if zero1
                   then bind (is_bds_5_0 m) (fun c -> Ok (negb (is_some c)))
                   else Ok false) (fun zero2 ->
                  bind
                    (if zero2
                     then bind (is_bds_6_0 m) (fun c -> Ok (negb (is_some c)))
                     else Ok false) (fun zero3 ->
                    bind
                      (if zero3
                       then bind (is_bds_4_4 m) (fun c -> Ok
                              (negb (is_some c)))
                       else Ok false) (fun zero4 ->
                      bind
                        (if zero4
                         then bind (is_bds_4_5 m) (fun _ -> Ok ())
                         else Ok ()) (fun _ -> Ok (dfo, ic))))))))))))

type downlink =
| DSrt of srt
| DExt of ext
| DMds of n option * n option

(** val df_from_message : n list -> downlink option res **)

let df_from_message m =
  bind (get_downlink_format m) (fun df ->
    match df with
    | Some v ->
      if N.leb v (Npos (XO (XO (XO (XO XH)))))
      then bind (srt_from_message m) (fun s -> Ok (Some (DSrt s)))
      else if N.eqb v (Npos (XI (XO (XO (XO XH)))))
           then bind (ext_from_message m) (fun e -> Ok (Some (DExt e)))
           else if (||) (N.eqb v (Npos (XO (XO (XI (XO XH))))))
                     (N.eqb v (Npos (XI (XO (XI (XO XH))))))
                then bind (mds_from_message m) (fun pat ->
                       let (d, i) = pat in Ok (Some (DMds (d, i))))
                else Ok (Some (DSrt srt_new))
    | None -> Ok None)

(** val amend_cpr : (q * q) option -> row -> ext -> row **)

let amend_cpr obs r e =
  match e.e_cpr with
  | Some c -> store_cpr obs r (fst e.e_mt) c
  | None -> r

(** val ochar : n option -> n **)

let ochar = function
| Some c -> c
| None -> sP

(** val amend_from_ext_19 : row -> ext -> row **)

let amend_from_ext_19 r e =
  let r0 =
    set (fun r0 -> r0.vrate_source) (fun f ->
      let n0 = fun r0 -> f r0.vrate_source in
      (fun x -> { icao = x.icao; cap_ca = x.cap_ca; cap = x.cap; category =
      x.category; reg = x.reg; r_ais = x.r_ais; r_altitude = x.r_altitude;
      altitude_gnss_ = x.altitude_gnss_; altitude_source = x.altitude_source;
      selected_altitude = x.selected_altitude; baro_setting = x.baro_setting;
      target_alt_source = x.target_alt_source; r_squawk = x.r_squawk;
      surv_status = x.surv_status; threat = x.threat; vrate = x.vrate;
      vrate_source = (n0 x); cpr_lat0 = x.cpr_lat0; cpr_lat1 = x.cpr_lat1;
      cpr_lon0 = x.cpr_lon0; cpr_lon1 = x.cpr_lon1; cpr_t0 = x.cpr_t0;
      cpr_t1 = x.cpr_t1; cpr_s0 = x.cpr_s0; cpr_s1 = x.cpr_s1; lat = x.lat;
      lon = x.lon; dist = x.dist; grspeed = x.grspeed; true_airspeed =
      x.true_airspeed; indicated_airspeed = x.indicated_airspeed; mach =
      x.mach; ground_mov = x.ground_mov; turn = x.turn; track = x.track;
      track_source = x.track_source; r_heading = x.r_heading;
      heading_source = x.heading_source; roll_angle = x.roll_angle;
      track_angle_rate = x.track_angle_rate; bds50_t = x.bds50_t;
      temperature = x.temperature; wind = x.wind; turbulence = x.turbulence;
      humidity = x.humidity; pressure = x.pressure; timestamp = x.timestamp;
      position_t = x.position_t; track_t = x.track_t; heading_t =
      x.heading_t; last_tc = x.last_tc; last_df = x.last_df; adsb_version =
      x.adsb_version })) (fun _ -> sP)
      (set (fun r0 -> r0.vrate) (fun f ->
        let o = fun r0 -> f r0.vrate in
        (fun x -> { icao = x.icao; cap_ca = x.cap_ca; cap = x.cap; category =
        x.category; reg = x.reg; r_ais = x.r_ais; r_altitude = x.r_altitude;
        altitude_gnss_ = x.altitude_gnss_; altitude_source =
        x.altitude_source; selected_altitude = x.selected_altitude;
        baro_setting = x.baro_setting; target_alt_source =
        x.target_alt_source; r_squawk = x.r_squawk; surv_status =
        x.surv_status; threat = x.threat; vrate = (o x); vrate_source =
        x.vrate_source; cpr_lat0 = x.cpr_lat0; cpr_lat1 = x.cpr_lat1;
        cpr_lon0 = x.cpr_lon0; cpr_lon1 = x.cpr_lon1; cpr_t0 = x.cpr_t0;
        cpr_t1 = x.cpr_t1; cpr_s0 = x.cpr_s0; cpr_s1 = x.cpr_s1; lat = x.lat;
        lon = x.lon; dist = x.dist; grspeed = x.grspeed; true_airspeed =
        x.true_airspeed; indicated_airspeed = x.indicated_airspeed; mach =
        x.mach; ground_mov = x.ground_mov; turn = x.turn; track = x.track;
        track_source = x.track_source; r_heading = x.r_heading;
        heading_source = x.heading_source; roll_angle = x.roll_angle;
        track_angle_rate = x.track_angle_rate; bds50_t = x.bds50_t;
        temperature = x.temperature; wind = x.wind; turbulence =
        x.turbulence; humidity = x.humidity; pressure = x.pressure;
        timestamp = x.timestamp; position_t = x.position_t; track_t =
        x.track_t; heading_t = x.heading_t; last_tc = x.last_tc; last_df =
        x.last_df; adsb_version = x.adsb_version })) (fun _ -> e.e_vrate) r)
  in
  let r1 =
    match e.e_alt_delta with
    | Some d ->
      (match r0.r_altitude with
       | Some alt ->
         set (fun r1 -> r1.altitude_gnss_) (fun f ->
           let o = fun r1 -> f r1.altitude_gnss_ in
           (fun x -> { icao = x.icao; cap_ca = x.cap_ca; cap = x.cap;
           category = x.category; reg = x.reg; r_ais = x.r_ais; r_altitude =
           x.r_altitude; altitude_gnss_ = (o x); altitude_source =
           x.altitude_source; selected_altitude = x.selected_altitude;
           baro_setting = x.baro_setting; target_alt_source =
           x.target_alt_source; r_squawk = x.r_squawk; surv_status =
           x.surv_status; threat = x.threat; vrate = x.vrate; vrate_source =
           x.vrate_source; cpr_lat0 = x.cpr_lat0; cpr_lat1 = x.cpr_lat1;
           cpr_lon0 = x.cpr_lon0; cpr_lon1 = x.cpr_lon1; cpr_t0 = x.cpr_t0;
           cpr_t1 = x.cpr_t1; cpr_s0 = x.cpr_s0; cpr_s1 = x.cpr_s1; lat =
           x.lat; lon = x.lon; dist = x.dist; grspeed = x.grspeed;
           true_airspeed = x.true_airspeed; indicated_airspeed =
           x.indicated_airspeed; mach = x.mach; ground_mov = x.ground_mov;
           turn = x.turn; track = x.track; track_source = x.track_source;
           r_heading = x.r_heading; heading_source = x.heading_source;
           roll_angle = x.roll_angle; track_angle_rate = x.track_angle_rate;
           bds50_t = x.bds50_t; temperature = x.temperature; wind = x.wind;
           turbulence = x.turbulence; humidity = x.humidity; pressure =
           x.pressure; timestamp = x.timestamp; position_t = x.position_t;
           track_t = x.track_t; heading_t = x.heading_t; last_tc = x.last_tc;
           last_df = x.last_df; adsb_version = x.adsb_version })) (fun _ ->
           Some (gnss_of alt d)) r0
       | None -> r0)
    | None -> r0
  in
  let st = snd e.e_mt in
  if N.eqb st (Npos XH)
  then set (fun r2 -> r2.track_source) (fun f ->
         let n0 = fun r2 -> f r2.track_source in
         (fun x -> { icao = x.icao; cap_ca = x.cap_ca; cap = x.cap;
         category = x.category; reg = x.reg; r_ais = x.r_ais; r_altitude =
         x.r_altitude; altitude_gnss_ = x.altitude_gnss_; altitude_source =
         x.altitude_source; selected_altitude = x.selected_altitude;
         baro_setting = x.baro_setting; target_alt_source =
         x.target_alt_source; r_squawk = x.r_squawk; surv_status =
         x.surv_status; threat = x.threat; vrate = x.vrate; vrate_source =
         x.vrate_source; cpr_lat0 = x.cpr_lat0; cpr_lat1 = x.cpr_lat1;
         cpr_lon0 = x.cpr_lon0; cpr_lon1 = x.cpr_lon1; cpr_t0 = x.cpr_t0;
         cpr_t1 = x.cpr_t1; cpr_s0 = x.cpr_s0; cpr_s1 = x.cpr_s1; lat =
         x.lat; lon = x.lon; dist = x.dist; grspeed = x.grspeed;
         true_airspeed = x.true_airspeed; indicated_airspeed =
         x.indicated_airspeed; mach = x.mach; ground_mov = x.ground_mov;
         turn = x.turn; track = x.track; track_source = (n0 x); r_heading =
         x.r_heading; heading_source = x.heading_source; roll_angle =
         x.roll_angle; track_angle_rate = x.track_angle_rate; bds50_t =
         x.bds50_t; temperature = x.temperature; wind = x.wind; turbulence =
         x.turbulence; humidity = x.humidity; pressure = x.pressure;
         timestamp = x.timestamp; position_t = x.position_t; track_t =
         x.track_t; heading_t = x.heading_t; last_tc = x.last_tc; last_df =
         x.last_df; adsb_version = x.adsb_version })) (fun _ -> Npos (XI (XO
         (XO (XO (XO (XO (XO (XI (XO (XO (XO (XO (XO XH))))))))))))))
         (set (fun r2 -> r2.grspeed) (fun f ->
           let o = fun r2 -> f r2.grspeed in
           (fun x -> { icao = x.icao; cap_ca = x.cap_ca; cap = x.cap;
           category = x.category; reg = x.reg; r_ais = x.r_ais; r_altitude =
           x.r_altitude; altitude_gnss_ = x.altitude_gnss_; altitude_source =
           x.altitude_source; selected_altitude = x.selected_altitude;
           baro_setting = x.baro_setting; target_alt_source =
           x.target_alt_source; r_squawk = x.r_squawk; surv_status =
           x.surv_status; threat = x.threat; vrate = x.vrate; vrate_source =
           x.vrate_source; cpr_lat0 = x.cpr_lat0; cpr_lat1 = x.cpr_lat1;
           cpr_lon0 = x.cpr_lon0; cpr_lon1 = x.cpr_lon1; cpr_t0 = x.cpr_t0;
           cpr_t1 = x.cpr_t1; cpr_s0 = x.cpr_s0; cpr_s1 = x.cpr_s1; lat =
           x.lat; lon = x.lon; dist = x.dist; grspeed = (o x);
           true_airspeed = x.true_airspeed; indicated_airspeed =
           x.indicated_airspeed; mach = x.mach; ground_mov = x.ground_mov;
           turn = x.turn; track = x.track; track_source = x.track_source;
           r_heading = x.r_heading; heading_source = x.heading_source;
           roll_angle = x.roll_angle; track_angle_rate = x.track_angle_rate;
           bds50_t = x.bds50_t; temperature = x.temperature; wind = x.wind;
           turbulence = x.turbulence; humidity = x.humidity; pressure =
           x.pressure; timestamp = x.timestamp; position_t = x.position_t;
           track_t = x.track_t; heading_t = x.heading_t; last_tc = x.last_tc;
           last_df = x.last_df; adsb_version = x.adsb_version })) (fun _ ->
           e.e_grspeed)
           (set (fun r2 -> r2.track) (fun f ->
             let o = fun r2 -> f r2.track in
             (fun x -> { icao = x.icao; cap_ca = x.cap_ca; cap = x.cap;
             category = x.category; reg = x.reg; r_ais = x.r_ais;
             r_altitude = x.r_altitude; altitude_gnss_ = x.altitude_gnss_;
             altitude_source = x.altitude_source; selected_altitude =
             x.selected_altitude; baro_setting = x.baro_setting;
             target_alt_source = x.target_alt_source; r_squawk = x.r_squawk;
             surv_status = x.surv_status; threat = x.threat; vrate = x.vrate;
             vrate_source = x.vrate_source; cpr_lat0 = x.cpr_lat0; cpr_lat1 =
             x.cpr_lat1; cpr_lon0 = x.cpr_lon0; cpr_lon1 = x.cpr_lon1;
             cpr_t0 = x.cpr_t0; cpr_t1 = x.cpr_t1; cpr_s0 = x.cpr_s0;
             cpr_s1 = x.cpr_s1; lat = x.lat; lon = x.lon; dist = x.dist;
             grspeed = x.grspeed; true_airspeed = x.true_airspeed;
             indicated_airspeed = x.indicated_airspeed; mach = x.mach;
             ground_mov = x.ground_mov; turn = x.turn; track = (o x);
             track_source = x.track_source; r_heading = x.r_heading;
             heading_source = x.heading_source; roll_angle = x.roll_angle;
             track_angle_rate = x.track_angle_rate; bds50_t = x.bds50_t;
             temperature = x.temperature; wind = x.wind; turbulence =
             x.turbulence; humidity = x.humidity; pressure = x.pressure;
             timestamp = x.timestamp; position_t = x.position_t; track_t =
             x.track_t; heading_t = x.heading_t; last_tc = x.last_tc;
             last_df = x.last_df; adsb_version = x.adsb_version })) (fun _ ->
             e.e_track) r1))
  else if N.eqb st (Npos (XO XH))
       then set (fun r2 -> r2.track_source) (fun f ->
              let n0 = fun r2 -> f r2.track_source in
              (fun x -> { icao = x.icao; cap_ca = x.cap_ca; cap = x.cap;
              category = x.category; reg = x.reg; r_ais = x.r_ais;
              r_altitude = x.r_altitude; altitude_gnss_ = x.altitude_gnss_;
              altitude_source = x.altitude_source; selected_altitude =
              x.selected_altitude; baro_setting = x.baro_setting;
              target_alt_source = x.target_alt_source; r_squawk = x.r_squawk;
              surv_status = x.surv_status; threat = x.threat; vrate =
              x.vrate; vrate_source = x.vrate_source; cpr_lat0 = x.cpr_lat0;
              cpr_lat1 = x.cpr_lat1; cpr_lon0 = x.cpr_lon0; cpr_lon1 =
              x.cpr_lon1; cpr_t0 = x.cpr_t0; cpr_t1 = x.cpr_t1; cpr_s0 =
              x.cpr_s0; cpr_s1 = x.cpr_s1; lat = x.lat; lon = x.lon; dist =
              x.dist; grspeed = x.grspeed; true_airspeed = x.true_airspeed;
              indicated_airspeed = x.indicated_airspeed; mach = x.mach;
              ground_mov = x.ground_mov; turn = x.turn; track = x.track;
              track_source = (n0 x); r_heading = x.r_heading;
              heading_source = x.heading_source; roll_angle = x.roll_angle;
              track_angle_rate = x.track_angle_rate; bds50_t = x.bds50_t;
              temperature = x.temperature; wind = x.wind; turbulence =
              x.turbulence; humidity = x.humidity; pressure = x.pressure;
              timestamp = x.timestamp; position_t = x.position_t; track_t =
              x.track_t; heading_t = x.heading_t; last_tc = x.last_tc;
              last_df = x.last_df; adsb_version = x.adsb_version }))
              (fun _ -> Npos (XO (XI (XO (XO (XO (XO (XO (XI (XO (XO (XO (XO
              (XO XH))))))))))))))
              (set (fun r2 -> r2.grspeed) (fun f ->
                let o = fun r2 -> f r2.grspeed in
                (fun x -> { icao = x.icao; cap_ca = x.cap_ca; cap = x.cap;
                category = x.category; reg = x.reg; r_ais = x.r_ais;
                r_altitude = x.r_altitude; altitude_gnss_ = x.altitude_gnss_;
                altitude_source = x.altitude_source; selected_altitude =
                x.selected_altitude; baro_setting = x.baro_setting;
                target_alt_source = x.target_alt_source; r_squawk =
                x.r_squawk; surv_status = x.surv_status; threat = x.threat;
                vrate = x.vrate; vrate_source = x.vrate_source; cpr_lat0 =
                x.cpr_lat0; cpr_lat1 = x.cpr_lat1; cpr_lon0 = x.cpr_lon0;
                cpr_lon1 = x.cpr_lon1; cpr_t0 = x.cpr_t0; cpr_t1 = x.cpr_t1;
                cpr_s0 = x.cpr_s0; cpr_s1 = x.cpr_s1; lat = x.lat; lon =
                x.lon; dist = x.dist; grspeed = (o x); true_airspeed =
                x.true_airspeed; indicated_airspeed = x.indicated_airspeed;
                mach = x.mach; ground_mov = x.ground_mov; turn = x.turn;
                track = x.track; track_source = x.track_source; r_heading =
                x.r_heading; heading_source = x.heading_source; roll_angle =
                x.roll_angle; track_angle_rate = x.track_angle_rate;
                bds50_t = x.bds50_t; temperature = x.temperature; wind =
                x.wind; turbulence = x.turbulence; humidity = x.humidity;
                pressure = x.pressure; timestamp = x.timestamp; position_t =
                x.position_t; track_t = x.track_t; heading_t = x.heading_t;
                last_tc = x.last_tc; last_df = x.last_df; adsb_version =
                x.adsb_version })) (fun _ -> e.e_grspeed)
                (set (fun r2 -> r2.track) (fun f ->
                  let o = fun r2 -> f r2.track in
                  (fun x -> { icao = x.icao; cap_ca = x.cap_ca; cap = x.cap;
                  category = x.category; reg = x.reg; r_ais = x.r_ais;
                  r_altitude = x.r_altitude; altitude_gnss_ =
                  x.altitude_gnss_; altitude_source = x.altitude_source;
                  selected_altitude = x.selected_altitude; baro_setting =
                  x.baro_setting; target_alt_source = x.target_alt_source;
                  r_squawk = x.r_squawk; surv_status = x.surv_status;
                  threat = x.threat; vrate = x.vrate; vrate_source =
                  x.vrate_source; cpr_lat0 = x.cpr_lat0; cpr_lat1 =
                  x.cpr_lat1; cpr_lon0 = x.cpr_lon0; cpr_lon1 = x.cpr_lon1;
                  cpr_t0 = x.cpr_t0; cpr_t1 = x.cpr_t1; cpr_s0 = x.cpr_s0;
                  cpr_s1 = x.cpr_s1; lat = x.lat; lon = x.lon; dist = x.dist;
                  grspeed = x.grspeed; true_airspeed = x.true_airspeed;
                  indicated_airspeed = x.indicated_airspeed; mach = x.mach;
                  ground_mov = x.ground_mov; turn = x.turn; track = (o x);
                  track_source = x.track_source; r_heading = x.r_heading;
                  heading_source = x.heading_source; roll_angle =
                  x.roll_angle; track_angle_rate = x.track_angle_rate;
                  bds50_t = x.bds50_t; temperature = x.temperature; wind =
                  x.wind; turbulence = x.turbulence; humidity = x.humidity;
                  pressure = x.pressure; timestamp = x.timestamp;
                  position_t = x.position_t; track_t = x.track_t; heading_t =
                  x.heading_t; last_tc = x.last_tc; last_df = x.last_df;
                  adsb_version = x.adsb_version })) (fun _ -> e.e_track) r1))
       else if (||) (N.eqb st (Npos (XI XH))) (N.eqb st (Npos (XO (XO XH))))
            then set (fun r2 -> r2.altitude_source) (fun f ->
                   let n0 = fun r2 -> f r2.altitude_source in
                   (fun x -> { icao = x.icao; cap_ca = x.cap_ca; cap = x.cap;
                   category = x.category; reg = x.reg; r_ais = x.r_ais;
                   r_altitude = x.r_altitude; altitude_gnss_ =
                   x.altitude_gnss_; altitude_source = (n0 x);
                   selected_altitude = x.selected_altitude; baro_setting =
                   x.baro_setting; target_alt_source = x.target_alt_source;
                   r_squawk = x.r_squawk; surv_status = x.surv_status;
                   threat = x.threat; vrate = x.vrate; vrate_source =
                   x.vrate_source; cpr_lat0 = x.cpr_lat0; cpr_lat1 =
                   x.cpr_lat1; cpr_lon0 = x.cpr_lon0; cpr_lon1 = x.cpr_lon1;
                   cpr_t0 = x.cpr_t0; cpr_t1 = x.cpr_t1; cpr_s0 = x.cpr_s0;
                   cpr_s1 = x.cpr_s1; lat = x.lat; lon = x.lon; dist =
                   x.dist; grspeed = x.grspeed; true_airspeed =
                   x.true_airspeed; indicated_airspeed =
                   x.indicated_airspeed; mach = x.mach; ground_mov =
                   x.ground_mov; turn = x.turn; track = x.track;
                   track_source = x.track_source; r_heading = x.r_heading;
                   heading_source = x.heading_source; roll_angle =
                   x.roll_angle; track_angle_rate = x.track_angle_rate;
                   bds50_t = x.bds50_t; temperature = x.temperature; wind =
                   x.wind; turbulence = x.turbulence; humidity = x.humidity;
                   pressure = x.pressure; timestamp = x.timestamp;
                   position_t = x.position_t; track_t = x.track_t;
                   heading_t = x.heading_t; last_tc = x.last_tc; last_df =
                   x.last_df; adsb_version = x.adsb_version })) (fun _ ->
                   Npos (XO (XI (XO (XO (XO XH))))))
                   (set (fun r2 -> r2.heading_source) (fun f ->
                     let n0 = fun r2 -> f r2.heading_source in
                     (fun x -> { icao = x.icao; cap_ca = x.cap_ca; cap =
                     x.cap; category = x.category; reg = x.reg; r_ais =
                     x.r_ais; r_altitude = x.r_altitude; altitude_gnss_ =
                     x.altitude_gnss_; altitude_source = x.altitude_source;
                     selected_altitude = x.selected_altitude; baro_setting =
                     x.baro_setting; target_alt_source = x.target_alt_source;
                     r_squawk = x.r_squawk; surv_status = x.surv_status;
                     threat = x.threat; vrate = x.vrate; vrate_source =
                     x.vrate_source; cpr_lat0 = x.cpr_lat0; cpr_lat1 =
                     x.cpr_lat1; cpr_lon0 = x.cpr_lon0; cpr_lon1 =
                     x.cpr_lon1; cpr_t0 = x.cpr_t0; cpr_t1 = x.cpr_t1;
                     cpr_s0 = x.cpr_s0; cpr_s1 = x.cpr_s1; lat = x.lat; lon =
                     x.lon; dist = x.dist; grspeed = x.grspeed;
                     true_airspeed = x.true_airspeed; indicated_airspeed =
                     x.indicated_airspeed; mach = x.mach; ground_mov =
                     x.ground_mov; turn = x.turn; track = x.track;
                     track_source = x.track_source; r_heading = x.r_heading;
                     heading_source = (n0 x); roll_angle = x.roll_angle;
                     track_angle_rate = x.track_angle_rate; bds50_t =
                     x.bds50_t; temperature = x.temperature; wind = x.wind;
                     turbulence = x.turbulence; humidity = x.humidity;
                     pressure = x.pressure; timestamp = x.timestamp;
                     position_t = x.position_t; track_t = x.track_t;
                     heading_t = x.heading_t; last_tc = x.last_tc; last_df =
                     x.last_df; adsb_version = x.adsb_version })) (fun _ ->
                     Npos (XI (XI (XO (XO (XO (XO (XO (XI (XO (XO (XO (XO (XO
                     XH))))))))))))))
                     (set (fun r2 -> r2.r_heading) (fun f ->
                       let o = fun r2 -> f r2.r_heading in
                       (fun x -> { icao = x.icao; cap_ca = x.cap_ca; cap =
                       x.cap; category = x.category; reg = x.reg; r_ais =
                       x.r_ais; r_altitude = x.r_altitude; altitude_gnss_ =
                       x.altitude_gnss_; altitude_source = x.altitude_source;
                       selected_altitude = x.selected_altitude;
                       baro_setting = x.baro_setting; target_alt_source =
                       x.target_alt_source; r_squawk = x.r_squawk;
                       surv_status = x.surv_status; threat = x.threat;
                       vrate = x.vrate; vrate_source = x.vrate_source;
                       cpr_lat0 = x.cpr_lat0; cpr_lat1 = x.cpr_lat1;
                       cpr_lon0 = x.cpr_lon0; cpr_lon1 = x.cpr_lon1; cpr_t0 =
                       x.cpr_t0; cpr_t1 = x.cpr_t1; cpr_s0 = x.cpr_s0;
                       cpr_s1 = x.cpr_s1; lat = x.lat; lon = x.lon; dist =
                       x.dist; grspeed = x.grspeed; true_airspeed =
                       x.true_airspeed; indicated_airspeed =
                       x.indicated_airspeed; mach = x.mach; ground_mov =
                       x.ground_mov; turn = x.turn; track = x.track;
                       track_source = x.track_source; r_heading = (o x);
                       heading_source = x.heading_source; roll_angle =
                       x.roll_angle; track_angle_rate = x.track_angle_rate;
                       bds50_t = x.bds50_t; temperature = x.temperature;
                       wind = x.wind; turbulence = x.turbulence; humidity =
                       x.humidity; pressure = x.pressure; timestamp =
                       x.timestamp; position_t = x.position_t; track_t =
                       x.track_t; heading_t = x.heading_t; last_tc =
                       x.last_tc; last_df = x.last_df; adsb_version =
                       x.adsb_version })) (fun _ -> e.e_heading) r1))
            else r1

(** val update_from_ext_dl : (q * q) option -> row -> ext -> row **)

let update_from_ext_dl obs r e =
  if is_some e.e_icao
  then let tc = fst e.e_mt in
       let r0 =
         set (fun r0 -> r0.last_tc) (fun f ->
           let n0 = fun r0 -> f r0.last_tc in
           (fun x -> { icao = x.icao; cap_ca = x.cap_ca; cap = x.cap;
           category = x.category; reg = x.reg; r_ais = x.r_ais; r_altitude =
           x.r_altitude; altitude_gnss_ = x.altitude_gnss_; altitude_source =
           x.altitude_source; selected_altitude = x.selected_altitude;
           baro_setting = x.baro_setting; target_alt_source =
           x.target_alt_source; r_squawk = x.r_squawk; surv_status =
           x.surv_status; threat = x.threat; vrate = x.vrate; vrate_source =
           x.vrate_source; cpr_lat0 = x.cpr_lat0; cpr_lat1 = x.cpr_lat1;
           cpr_lon0 = x.cpr_lon0; cpr_lon1 = x.cpr_lon1; cpr_t0 = x.cpr_t0;
           cpr_t1 = x.cpr_t1; cpr_s0 = x.cpr_s0; cpr_s1 = x.cpr_s1; lat =
           x.lat; lon = x.lon; dist = x.dist; grspeed = x.grspeed;
           true_airspeed = x.true_airspeed; indicated_airspeed =
           x.indicated_airspeed; mach = x.mach; ground_mov = x.ground_mov;
           turn = x.turn; track = x.track; track_source = x.track_source;
           r_heading = x.r_heading; heading_source = x.heading_source;
           roll_angle = x.roll_angle; track_angle_rate = x.track_angle_rate;
           bds50_t = x.bds50_t; temperature = x.temperature; wind = x.wind;
           turbulence = x.turbulence; humidity = x.humidity; pressure =
           x.pressure; timestamp = x.timestamp; position_t = x.position_t;
           track_t = x.track_t; heading_t = x.heading_t; last_tc = (n0 x);
           last_df = x.last_df; adsb_version = x.adsb_version })) (fun _ ->
           tc) r
       in
       if in_tc (Npos XH) (Npos (XO (XO XH))) tc
       then if is_some e.e_ais
            then set (fun r1 -> r1.category) (fun f ->
                   let p = fun r1 -> f r1.category in
                   (fun x -> { icao = x.icao; cap_ca = x.cap_ca; cap = x.cap;
                   category = (p x); reg = x.reg; r_ais = x.r_ais;
                   r_altitude = x.r_altitude; altitude_gnss_ =
                   x.altitude_gnss_; altitude_source = x.altitude_source;
                   selected_altitude = x.selected_altitude; baro_setting =
                   x.baro_setting; target_alt_source = x.target_alt_source;
                   r_squawk = x.r_squawk; surv_status = x.surv_status;
                   threat = x.threat; vrate = x.vrate; vrate_source =
                   x.vrate_source; cpr_lat0 = x.cpr_lat0; cpr_lat1 =
                   x.cpr_lat1; cpr_lon0 = x.cpr_lon0; cpr_lon1 = x.cpr_lon1;
                   cpr_t0 = x.cpr_t0; cpr_t1 = x.cpr_t1; cpr_s0 = x.cpr_s0;
                   cpr_s1 = x.cpr_s1; lat = x.lat; lon = x.lon; dist =
                   x.dist; grspeed = x.grspeed; true_airspeed =
                   x.true_airspeed; indicated_airspeed =
                   x.indicated_airspeed; mach = x.mach; ground_mov =
                   x.ground_mov; turn = x.turn; track = x.track;
                   track_source = x.track_source; r_heading = x.r_heading;
                   heading_source = x.heading_source; roll_angle =
                   x.roll_angle; track_angle_rate = x.track_angle_rate;
                   bds50_t = x.bds50_t; temperature = x.temperature; wind =
                   x.wind; turbulence = x.turbulence; humidity = x.humidity;
                   pressure = x.pressure; timestamp = x.timestamp;
                   position_t = x.position_t; track_t = x.track_t;
                   heading_t = x.heading_t; last_tc = x.last_tc; last_df =
                   x.last_df; adsb_version = x.adsb_version })) (fun _ ->
                   e.e_mt)
                   (set (fun r1 -> r1.r_ais) (fun f ->
                     let o = fun r1 -> f r1.r_ais in
                     (fun x -> { icao = x.icao; cap_ca = x.cap_ca; cap =
                     x.cap; category = x.category; reg = x.reg; r_ais =
                     (o x); r_altitude = x.r_altitude; altitude_gnss_ =
                     x.altitude_gnss_; altitude_source = x.altitude_source;
                     selected_altitude = x.selected_altitude; baro_setting =
                     x.baro_setting; target_alt_source = x.target_alt_source;
                     r_squawk = x.r_squawk; surv_status = x.surv_status;
                     threat = x.threat; vrate = x.vrate; vrate_source =
                     x.vrate_source; cpr_lat0 = x.cpr_lat0; cpr_lat1 =
                     x.cpr_lat1; cpr_lon0 = x.cpr_lon0; cpr_lon1 =
                     x.cpr_lon1; cpr_t0 = x.cpr_t0; cpr_t1 = x.cpr_t1;
                     cpr_s0 = x.cpr_s0; cpr_s1 = x.cpr_s1; lat = x.lat; lon =
                     x.lon; dist = x.dist; grspeed = x.grspeed;
                     true_airspeed = x.true_airspeed; indicated_airspeed =
                     x.indicated_airspeed; mach = x.mach; ground_mov =
                     x.ground_mov; turn = x.turn; track = x.track;
                     track_source = x.track_source; r_heading = x.r_heading;
                     heading_source = x.heading_source; roll_angle =
                     x.roll_angle; track_angle_rate = x.track_angle_rate;
                     bds50_t = x.bds50_t; temperature = x.temperature; wind =
                     x.wind; turbulence = x.turbulence; humidity =
                     x.humidity; pressure = x.pressure; timestamp =
                     x.timestamp; position_t = x.position_t; track_t =
                     x.track_t; heading_t = x.heading_t; last_tc = x.last_tc;
                     last_df = x.last_df; adsb_version = x.adsb_version }))
                     (fun _ -> e.e_ais) r0)
            else r0
       else if in_tc (Npos (XI (XO XH))) (Npos (XO (XO (XO XH)))) tc
            then amend_cpr obs
                   (set (fun r1 -> r1.track_source) (fun f ->
                     let n0 = fun r1 -> f r1.track_source in
                     (fun x -> { icao = x.icao; cap_ca = x.cap_ca; cap =
                     x.cap; category = x.category; reg = x.reg; r_ais =
                     x.r_ais; r_altitude = x.r_altitude; altitude_gnss_ =
                     x.altitude_gnss_; altitude_source = x.altitude_source;
                     selected_altitude = x.selected_altitude; baro_setting =
                     x.baro_setting; target_alt_source = x.target_alt_source;
                     r_squawk = x.r_squawk; surv_status = x.surv_status;
                     threat = x.threat; vrate = x.vrate; vrate_source =
                     x.vrate_source; cpr_lat0 = x.cpr_lat0; cpr_lat1 =
                     x.cpr_lat1; cpr_lon0 = x.cpr_lon0; cpr_lon1 =
                     x.cpr_lon1; cpr_t0 = x.cpr_t0; cpr_t1 = x.cpr_t1;
                     cpr_s0 = x.cpr_s0; cpr_s1 = x.cpr_s1; lat = x.lat; lon =
                     x.lon; dist = x.dist; grspeed = x.grspeed;
                     true_airspeed = x.true_airspeed; indicated_airspeed =
                     x.indicated_airspeed; mach = x.mach; ground_mov =
                     x.ground_mov; turn = x.turn; track = x.track;
                     track_source = (n0 x); r_heading = x.r_heading;
                     heading_source = x.heading_source; roll_angle =
                     x.roll_angle; track_angle_rate = x.track_angle_rate;
                     bds50_t = x.bds50_t; temperature = x.temperature; wind =
                     x.wind; turbulence = x.turbulence; humidity =
                     x.humidity; pressure = x.pressure; timestamp =
                     x.timestamp; position_t = x.position_t; track_t =
                     x.track_t; heading_t = x.heading_t; last_tc = x.last_tc;
                     last_df = x.last_df; adsb_version = x.adsb_version }))
                     (fun _ -> ochar e.e_track_source)
                     (set (fun r1 -> r1.track) (fun f ->
                       let o = fun r1 -> f r1.track in
                       (fun x -> { icao = x.icao; cap_ca = x.cap_ca; cap =
                       x.cap; category = x.category; reg = x.reg; r_ais =
                       x.r_ais; r_altitude = x.r_altitude; altitude_gnss_ =
                       x.altitude_gnss_; altitude_source = x.altitude_source;
                       selected_altitude = x.selected_altitude;
                       baro_setting = x.baro_setting; target_alt_source =
                       x.target_alt_source; r_squawk = x.r_squawk;
                       surv_status = x.surv_status; threat = x.threat;
                       vrate = x.vrate; vrate_source = x.vrate_source;
                       cpr_lat0 = x.cpr_lat0; cpr_lat1 = x.cpr_lat1;
                       cpr_lon0 = x.cpr_lon0; cpr_lon1 = x.cpr_lon1; cpr_t0 =
                       x.cpr_t0; cpr_t1 = x.cpr_t1; cpr_s0 = x.cpr_s0;
                       cpr_s1 = x.cpr_s1; lat = x.lat; lon = x.lon; dist =
                       x.dist; grspeed = x.grspeed; true_airspeed =
                       x.true_airspeed; indicated_airspeed =
                       x.indicated_airspeed; mach = x.mach; ground_mov =
                       x.ground_mov; turn = x.turn; track = (o x);
                       track_source = x.track_source; r_heading =
                       x.r_heading; heading_source = x.heading_source;
                       roll_angle = x.roll_angle; track_angle_rate =
                       x.track_angle_rate; bds50_t = x.bds50_t; temperature =
                       x.temperature; wind = x.wind; turbulence =
                       x.turbulence; humidity = x.humidity; pressure =
                       x.pressure; timestamp = x.timestamp; position_t =
                       x.position_t; track_t = x.track_t; heading_t =
                       x.heading_t; last_tc = x.last_tc; last_df = x.last_df;
                       adsb_version = x.adsb_version })) (fun _ -> e.e_track)
                       (set (fun r1 -> r1.altitude_source) (fun f ->
                         let n0 = fun r1 -> f r1.altitude_source in
                         (fun x -> { icao = x.icao; cap_ca = x.cap_ca; cap =
                         x.cap; category = x.category; reg = x.reg; r_ais =
                         x.r_ais; r_altitude = x.r_altitude; altitude_gnss_ =
                         x.altitude_gnss_; altitude_source = (n0 x);
                         selected_altitude = x.selected_altitude;
                         baro_setting = x.baro_setting; target_alt_source =
                         x.target_alt_source; r_squawk = x.r_squawk;
                         surv_status = x.surv_status; threat = x.threat;
                         vrate = x.vrate; vrate_source = x.vrate_source;
                         cpr_lat0 = x.cpr_lat0; cpr_lat1 = x.cpr_lat1;
                         cpr_lon0 = x.cpr_lon0; cpr_lon1 = x.cpr_lon1;
                         cpr_t0 = x.cpr_t0; cpr_t1 = x.cpr_t1; cpr_s0 =
                         x.cpr_s0; cpr_s1 = x.cpr_s1; lat = x.lat; lon =
                         x.lon; dist = x.dist; grspeed = x.grspeed;
                         true_airspeed = x.true_airspeed;
                         indicated_airspeed = x.indicated_airspeed; mach =
                         x.mach; ground_mov = x.ground_mov; turn = x.turn;
                         track = x.track; track_source = x.track_source;
                         r_heading = x.r_heading; heading_source =
                         x.heading_source; roll_angle = x.roll_angle;
                         track_angle_rate = x.track_angle_rate; bds50_t =
                         x.bds50_t; temperature = x.temperature; wind =
                         x.wind; turbulence = x.turbulence; humidity =
                         x.humidity; pressure = x.pressure; timestamp =
                         x.timestamp; position_t = x.position_t; track_t =
                         x.track_t; heading_t = x.heading_t; last_tc =
                         x.last_tc; last_df = x.last_df; adsb_version =
                         x.adsb_version })) (fun _ -> Npos (XO (XO (XO (XO
                         (XI (XI (XI (XO (XO (XO (XO (XO (XO XH))))))))))))))
                         (set (fun r1 -> r1.r_altitude) (fun f ->
                           let o = fun r1 -> f r1.r_altitude in
                           (fun x -> { icao = x.icao; cap_ca = x.cap_ca;
                           cap = x.cap; category = x.category; reg = x.reg;
                           r_ais = x.r_ais; r_altitude = (o x);
                           altitude_gnss_ = x.altitude_gnss_;
                           altitude_source = x.altitude_source;
                           selected_altitude = x.selected_altitude;
                           baro_setting = x.baro_setting; target_alt_source =
                           x.target_alt_source; r_squawk = x.r_squawk;
                           surv_status = x.surv_status; threat = x.threat;
                           vrate = x.vrate; vrate_source = x.vrate_source;
                           cpr_lat0 = x.cpr_lat0; cpr_lat1 = x.cpr_lat1;
                           cpr_lon0 = x.cpr_lon0; cpr_lon1 = x.cpr_lon1;
                           cpr_t0 = x.cpr_t0; cpr_t1 = x.cpr_t1; cpr_s0 =
                           x.cpr_s0; cpr_s1 = x.cpr_s1; lat = x.lat; lon =
                           x.lon; dist = x.dist; grspeed = x.grspeed;
                           true_airspeed = x.true_airspeed;
                           indicated_airspeed = x.indicated_airspeed; mach =
                           x.mach; ground_mov = x.ground_mov; turn = x.turn;
                           track = x.track; track_source = x.track_source;
                           r_heading = x.r_heading; heading_source =
                           x.heading_source; roll_angle = x.roll_angle;
                           track_angle_rate = x.track_angle_rate; bds50_t =
                           x.bds50_t; temperature = x.temperature; wind =
                           x.wind; turbulence = x.turbulence; humidity =
                           x.humidity; pressure = x.pressure; timestamp =
                           x.timestamp; position_t = x.position_t; track_t =
                           x.track_t; heading_t = x.heading_t; last_tc =
                           x.last_tc; last_df = x.last_df; adsb_version =
                           x.adsb_version })) (fun _ -> e.e_altitude)
                           (set (fun r1 -> r1.ground_mov) (fun f ->
                             let o = fun r1 -> f r1.ground_mov in
                             (fun x -> { icao = x.icao; cap_ca = x.cap_ca;
                             cap = x.cap; category = x.category; reg = x.reg;
                             r_ais = x.r_ais; r_altitude = x.r_altitude;
                             altitude_gnss_ = x.altitude_gnss_;
                             altitude_source = x.altitude_source;
                             selected_altitude = x.selected_altitude;
                             baro_setting = x.baro_setting;
                             target_alt_source = x.target_alt_source;
                             r_squawk = x.r_squawk; surv_status =
                             x.surv_status; threat = x.threat; vrate =
                             x.vrate; vrate_source = x.vrate_source;
                             cpr_lat0 = x.cpr_lat0; cpr_lat1 = x.cpr_lat1;
                             cpr_lon0 = x.cpr_lon0; cpr_lon1 = x.cpr_lon1;
                             cpr_t0 = x.cpr_t0; cpr_t1 = x.cpr_t1; cpr_s0 =
                             x.cpr_s0; cpr_s1 = x.cpr_s1; lat = x.lat; lon =
                             x.lon; dist = x.dist; grspeed = x.grspeed;
                             true_airspeed = x.true_airspeed;
                             indicated_airspeed = x.indicated_airspeed;
                             mach = x.mach; ground_mov = (o x); turn =
                             x.turn; track = x.track; track_source =
                             x.track_source; r_heading = x.r_heading;
                             heading_source = x.heading_source; roll_angle =
                             x.roll_angle; track_angle_rate =
                             x.track_angle_rate; bds50_t = x.bds50_t;
                             temperature = x.temperature; wind = x.wind;
                             turbulence = x.turbulence; humidity =
                             x.humidity; pressure = x.pressure; timestamp =
                             x.timestamp; position_t = x.position_t;
                             track_t = x.track_t; heading_t = x.heading_t;
                             last_tc = x.last_tc; last_df = x.last_df;
                             adsb_version = x.adsb_version })) (fun _ ->
                             e.e_gm) r0))))) e
            else if in_tc (Npos (XI (XO (XO XH)))) (Npos (XO (XI (XO (XO
                      XH))))) tc
                 then amend_cpr obs
                        (set (fun r1 -> r1.surv_status) (fun f ->
                          let n0 = fun r1 -> f r1.surv_status in
                          (fun x -> { icao = x.icao; cap_ca = x.cap_ca; cap =
                          x.cap; category = x.category; reg = x.reg; r_ais =
                          x.r_ais; r_altitude = x.r_altitude;
                          altitude_gnss_ = x.altitude_gnss_;
                          altitude_source = x.altitude_source;
                          selected_altitude = x.selected_altitude;
                          baro_setting = x.baro_setting; target_alt_source =
                          x.target_alt_source; r_squawk = x.r_squawk;
                          surv_status = (n0 x); threat = x.threat; vrate =
                          x.vrate; vrate_source = x.vrate_source; cpr_lat0 =
                          x.cpr_lat0; cpr_lat1 = x.cpr_lat1; cpr_lon0 =
                          x.cpr_lon0; cpr_lon1 = x.cpr_lon1; cpr_t0 =
                          x.cpr_t0; cpr_t1 = x.cpr_t1; cpr_s0 = x.cpr_s0;
                          cpr_s1 = x.cpr_s1; lat = x.lat; lon = x.lon; dist =
                          x.dist; grspeed = x.grspeed; true_airspeed =
                          x.true_airspeed; indicated_airspeed =
                          x.indicated_airspeed; mach = x.mach; ground_mov =
                          x.ground_mov; turn = x.turn; track = x.track;
                          track_source = x.track_source; r_heading =
                          x.r_heading; heading_source = x.heading_source;
                          roll_angle = x.roll_angle; track_angle_rate =
                          x.track_angle_rate; bds50_t = x.bds50_t;
                          temperature = x.temperature; wind = x.wind;
                          turbulence = x.turbulence; humidity = x.humidity;
                          pressure = x.pressure; timestamp = x.timestamp;
                          position_t = x.position_t; track_t = x.track_t;
                          heading_t = x.heading_t; last_tc = x.last_tc;
                          last_df = x.last_df; adsb_version =
                          x.adsb_version })) (fun _ -> ochar e.e_ss)
                          (set (fun r1 -> r1.altitude_source) (fun f ->
                            let n0 = fun r1 -> f r1.altitude_source in
                            (fun x -> { icao = x.icao; cap_ca = x.cap_ca;
                            cap = x.cap; category = x.category; reg = x.reg;
                            r_ais = x.r_ais; r_altitude = x.r_altitude;
                            altitude_gnss_ = x.altitude_gnss_;
                            altitude_source = (n0 x); selected_altitude =
                            x.selected_altitude; baro_setting =
                            x.baro_setting; target_alt_source =
                            x.target_alt_source; r_squawk = x.r_squawk;
                            surv_status = x.surv_status; threat = x.threat;
                            vrate = x.vrate; vrate_source = x.vrate_source;
                            cpr_lat0 = x.cpr_lat0; cpr_lat1 = x.cpr_lat1;
                            cpr_lon0 = x.cpr_lon0; cpr_lon1 = x.cpr_lon1;
                            cpr_t0 = x.cpr_t0; cpr_t1 = x.cpr_t1; cpr_s0 =
                            x.cpr_s0; cpr_s1 = x.cpr_s1; lat = x.lat; lon =
                            x.lon; dist = x.dist; grspeed = x.grspeed;
                            true_airspeed = x.true_airspeed;
                            indicated_airspeed = x.indicated_airspeed; mach =
                            x.mach; ground_mov = x.ground_mov; turn = x.turn;
                            track = x.track; track_source = x.track_source;
                            r_heading = x.r_heading; heading_source =
                            x.heading_source; roll_angle = x.roll_angle;
                            track_angle_rate = x.track_angle_rate; bds50_t =
                            x.bds50_t; temperature = x.temperature; wind =
                            x.wind; turbulence = x.turbulence; humidity =
                            x.humidity; pressure = x.pressure; timestamp =
                            x.timestamp; position_t = x.position_t; track_t =
                            x.track_t; heading_t = x.heading_t; last_tc =
                            x.last_tc; last_df = x.last_df; adsb_version =
                            x.adsb_version })) (fun _ -> sP)
                            (set (fun r1 -> r1.r_altitude) (fun f ->
                              let o = fun r1 -> f r1.r_altitude in
                              (fun x -> { icao = x.icao; cap_ca = x.cap_ca;
                              cap = x.cap; category = x.category; reg =
                              x.reg; r_ais = x.r_ais; r_altitude = (o x);
                              altitude_gnss_ = x.altitude_gnss_;
                              altitude_source = x.altitude_source;
                              selected_altitude = x.selected_altitude;
                              baro_setting = x.baro_setting;
                              target_alt_source = x.target_alt_source;
                              r_squawk = x.r_squawk; surv_status =
                              x.surv_status; threat = x.threat; vrate =
                              x.vrate; vrate_source = x.vrate_source;
                              cpr_lat0 = x.cpr_lat0; cpr_lat1 = x.cpr_lat1;
                              cpr_lon0 = x.cpr_lon0; cpr_lon1 = x.cpr_lon1;
                              cpr_t0 = x.cpr_t0; cpr_t1 = x.cpr_t1; cpr_s0 =
                              x.cpr_s0; cpr_s1 = x.cpr_s1; lat = x.lat; lon =
                              x.lon; dist = x.dist; grspeed = x.grspeed;
                              true_airspeed = x.true_airspeed;
                              indicated_airspeed = x.indicated_airspeed;
                              mach = x.mach; ground_mov = x.ground_mov;
                              turn = x.turn; track = x.track; track_source =
                              x.track_source; r_heading = x.r_heading;
                              heading_source = x.heading_source; roll_angle =
                              x.roll_angle; track_angle_rate =
                              x.track_angle_rate; bds50_t = x.bds50_t;
                              temperature = x.temperature; wind = x.wind;
                              turbulence = x.turbulence; humidity =
                              x.humidity; pressure = x.pressure; timestamp =
                              x.timestamp; position_t = x.position_t;
                              track_t = x.track_t; heading_t = x.heading_t;
                              last_tc = x.last_tc; last_df = x.last_df;
                              adsb_version = x.adsb_version })) (fun _ ->
                              e.e_altitude) r0))) e
                 else if N.eqb tc (Npos (XI (XI (XO (XO XH)))))
                      then amend_from_ext_19 r0 e
                      else if in_tc (Npos (XO (XO (XI (XO XH))))) (Npos (XO
                                (XI (XI (XO XH))))) tc
                           then set (fun r1 -> r1.surv_status) (fun f ->
                                  let n0 = fun r1 -> f r1.surv_status in
                                  (fun x -> { icao = x.icao; cap_ca =
                                  x.cap_ca; cap = x.cap; category =
                                  x.category; reg = x.reg; r_ais = x.r_ais;
                                  r_altitude = x.r_altitude; altitude_gnss_ =
                                  x.altitude_gnss_; altitude_source =
                                  x.altitude_source; selected_altitude =
                                  x.selected_altitude; baro_setting =
                                  x.baro_setting; target_alt_source =
                                  x.target_alt_source; r_squawk = x.r_squawk;
                                  surv_status = (n0 x); threat = x.threat;
                                  vrate = x.vrate; vrate_source =
                                  x.vrate_source; cpr_lat0 = x.cpr_lat0;
                                  cpr_lat1 = x.cpr_lat1; cpr_lon0 =
                                  x.cpr_lon0; cpr_lon1 = x.cpr_lon1; cpr_t0 =
                                  x.cpr_t0; cpr_t1 = x.cpr_t1; cpr_s0 =
                                  x.cpr_s0; cpr_s1 = x.cpr_s1; lat = x.lat;
                                  lon = x.lon; dist = x.dist; grspeed =
                                  x.grspeed; true_airspeed = x.true_airspeed;
                                  indicated_airspeed = x.indicated_airspeed;
                                  mach = x.mach; ground_mov = x.ground_mov;
                                  turn = x.turn; track = x.track;
                                  track_source = x.track_source; r_heading =
                                  x.r_heading; heading_source =
                                  x.heading_source; roll_angle =
                                  x.roll_angle; track_angle_rate =
                                  x.track_angle_rate; bds50_t = x.bds50_t;
                                  temperature = x.temperature; wind = x.wind;
                                  turbulence = x.turbulence; humidity =
                                  x.humidity; pressure = x.pressure;
                                  timestamp = x.timestamp; position_t =
                                  x.position_t; track_t = x.track_t;
                                  heading_t = x.heading_t; last_tc =
                                  x.last_tc; last_df = x.last_df;
                                  adsb_version = x.adsb_version })) (fun _ ->
                                  ochar e.e_ss)
                                  (set (fun r1 -> r1.altitude_gnss_)
                                    (fun f ->
                                    let o = fun r1 -> f r1.altitude_gnss_ in
                                    (fun x -> { icao = x.icao; cap_ca =
                                    x.cap_ca; cap = x.cap; category =
                                    x.category; reg = x.reg; r_ais = x.r_ais;
                                    r_altitude = x.r_altitude;
                                    altitude_gnss_ = (o x); altitude_source =
                                    x.altitude_source; selected_altitude =
                                    x.selected_altitude; baro_setting =
                                    x.baro_setting; target_alt_source =
                                    x.target_alt_source; r_squawk =
                                    x.r_squawk; surv_status = x.surv_status;
                                    threat = x.threat; vrate = x.vrate;
                                    vrate_source = x.vrate_source; cpr_lat0 =
                                    x.cpr_lat0; cpr_lat1 = x.cpr_lat1;
                                    cpr_lon0 = x.cpr_lon0; cpr_lon1 =
                                    x.cpr_lon1; cpr_t0 = x.cpr_t0; cpr_t1 =
                                    x.cpr_t1; cpr_s0 = x.cpr_s0; cpr_s1 =
                                    x.cpr_s1; lat = x.lat; lon = x.lon;
                                    dist = x.dist; grspeed = x.grspeed;
                                    true_airspeed = x.true_airspeed;
                                    indicated_airspeed =
                                    x.indicated_airspeed; mach = x.mach;
                                    ground_mov = x.ground_mov; turn = x.turn;
                                    track = x.track; track_source =
                                    x.track_source; r_heading = x.r_heading;
                                    heading_source = x.heading_source;
                                    roll_angle = x.roll_angle;
                                    track_angle_rate = x.track_angle_rate;
                                    bds50_t = x.bds50_t; temperature =
                                    x.temperature; wind = x.wind;
                                    turbulence = x.turbulence; humidity =
                                    x.humidity; pressure = x.pressure;
                                    timestamp = x.timestamp; position_t =
                                    x.position_t; track_t = x.track_t;
                                    heading_t = x.heading_t; last_tc =
                                    x.last_tc; last_df = x.last_df;
                                    adsb_version = x.adsb_version }))
                                    (fun _ -> e.e_alt_gnss) r0)
                           else if N.eqb tc (Npos (XI (XI (XI (XI XH)))))
                                then set (fun r1 -> r1.adsb_version)
                                       (fun f ->
                                       let o = fun r1 -> f r1.adsb_version in
                                       (fun x -> { icao = x.icao; cap_ca =
                                       x.cap_ca; cap = x.cap; category =
                                       x.category; reg = x.reg; r_ais =
                                       x.r_ais; r_altitude = x.r_altitude;
                                       altitude_gnss_ = x.altitude_gnss_;
                                       altitude_source = x.altitude_source;
                                       selected_altitude =
                                       x.selected_altitude; baro_setting =
                                       x.baro_setting; target_alt_source =
                                       x.target_alt_source; r_squawk =
                                       x.r_squawk; surv_status =
                                       x.surv_status; threat = x.threat;
                                       vrate = x.vrate; vrate_source =
                                       x.vrate_source; cpr_lat0 = x.cpr_lat0;
                                       cpr_lat1 = x.cpr_lat1; cpr_lon0 =
                                       x.cpr_lon0; cpr_lon1 = x.cpr_lon1;
                                       cpr_t0 = x.cpr_t0; cpr_t1 = x.cpr_t1;
                                       cpr_s0 = x.cpr_s0; cpr_s1 = x.cpr_s1;
                                       lat = x.lat; lon = x.lon; dist =
                                       x.dist; grspeed = x.grspeed;
                                       true_airspeed = x.true_airspeed;
                                       indicated_airspeed =
                                       x.indicated_airspeed; mach = x.mach;
                                       ground_mov = x.ground_mov; turn =
                                       x.turn; track = x.track;
                                       track_source = x.track_source;
                                       r_heading = x.r_heading;
                                       heading_source = x.heading_source;
                                       roll_angle = x.roll_angle;
                                       track_angle_rate = x.track_angle_rate;
                                       bds50_t = x.bds50_t; temperature =
                                       x.temperature; wind = x.wind;
                                       turbulence = x.turbulence; humidity =
                                       x.humidity; pressure = x.pressure;
                                       timestamp = x.timestamp; position_t =
                                       x.position_t; track_t = x.track_t;
                                       heading_t = x.heading_t; last_tc =
                                       x.last_tc; last_df = x.last_df;
                                       adsb_version = (o x) })) (fun _ ->
                                       e.e_version) r0
                                else r0
  else r

(** val update_from_srt_dl : row -> srt -> row **)

let update_from_srt_dl r s =
  if is_some s.s_icao
  then let r0 =
         match s.s_df with
         | Some n0 ->
           (match n0 with
            | N0 -> r
            | Npos p ->
              (match p with
               | XO p0 ->
                 (match p0 with
                  | XO p1 ->
                    (match p1 with
                     | XH ->
                       (match s.s_alt with
                        | Some _ ->
                          set (fun r0 -> r0.altitude_source) (fun f ->
                            let n1 = fun r0 -> f r0.altitude_source in
                            (fun x -> { icao = x.icao; cap_ca = x.cap_ca;
                            cap = x.cap; category = x.category; reg = x.reg;
                            r_ais = x.r_ais; r_altitude = x.r_altitude;
                            altitude_gnss_ = x.altitude_gnss_;
                            altitude_source = (n1 x); selected_altitude =
                            x.selected_altitude; baro_setting =
                            x.baro_setting; target_alt_source =
                            x.target_alt_source; r_squawk = x.r_squawk;
                            surv_status = x.surv_status; threat = x.threat;
                            vrate = x.vrate; vrate_source = x.vrate_source;
                            cpr_lat0 = x.cpr_lat0; cpr_lat1 = x.cpr_lat1;
                            cpr_lon0 = x.cpr_lon0; cpr_lon1 = x.cpr_lon1;
                            cpr_t0 = x.cpr_t0; cpr_t1 = x.cpr_t1; cpr_s0 =
                            x.cpr_s0; cpr_s1 = x.cpr_s1; lat = x.lat; lon =
                            x.lon; dist = x.dist; grspeed = x.grspeed;
                            true_airspeed = x.true_airspeed;
                            indicated_airspeed = x.indicated_airspeed; mach =
                            x.mach; ground_mov = x.ground_mov; turn = x.turn;
                            track = x.track; track_source = x.track_source;
                            r_heading = x.r_heading; heading_source =
                            x.heading_source; roll_angle = x.roll_angle;
                            track_angle_rate = x.track_angle_rate; bds50_t =
                            x.bds50_t; temperature = x.temperature; wind =
                            x.wind; turbulence = x.turbulence; humidity =
                            x.humidity; pressure = x.pressure; timestamp =
                            x.timestamp; position_t = x.position_t; track_t =
                            x.track_t; heading_t = x.heading_t; last_tc =
                            x.last_tc; last_df = x.last_df; adsb_version =
                            x.adsb_version })) (fun _ -> sP)
                            (set (fun r0 -> r0.r_altitude) (fun f ->
                              let o = fun r0 -> f r0.r_altitude in
                              (fun x -> { icao = x.icao; cap_ca = x.cap_ca;
                              cap = x.cap; category = x.category; reg =
                              x.reg; r_ais = x.r_ais; r_altitude = (o x);
                              altitude_gnss_ = x.altitude_gnss_;
                              altitude_source = x.altitude_source;
                              selected_altitude = x.selected_altitude;
                              baro_setting = x.baro_setting;
                              target_alt_source = x.target_alt_source;
                              r_squawk = x.r_squawk; surv_status =
                              x.surv_status; threat = x.threat; vrate =
                              x.vrate; vrate_source = x.vrate_source;
                              cpr_lat0 = x.cpr_lat0; cpr_lat1 = x.cpr_lat1;
                              cpr_lon0 = x.cpr_lon0; cpr_lon1 = x.cpr_lon1;
                              cpr_t0 = x.cpr_t0; cpr_t1 = x.cpr_t1; cpr_s0 =
                              x.cpr_s0; cpr_s1 = x.cpr_s1; lat = x.lat; lon =
                              x.lon; dist = x.dist; grspeed = x.grspeed;
                              true_airspeed = x.true_airspeed;
                              indicated_airspeed = x.indicated_airspeed;
                              mach = x.mach; ground_mov = x.ground_mov;
                              turn = x.turn; track = x.track; track_source =
                              x.track_source; r_heading = x.r_heading;
                              heading_source = x.heading_source; roll_angle =
                              x.roll_angle; track_angle_rate =
                              x.track_angle_rate; bds50_t = x.bds50_t;
                              temperature = x.temperature; wind = x.wind;
                              turbulence = x.turbulence; humidity =
                              x.humidity; pressure = x.pressure; timestamp =
                              x.timestamp; position_t = x.position_t;
                              track_t = x.track_t; heading_t = x.heading_t;
                              last_tc = x.last_tc; last_df = x.last_df;
                              adsb_version = x.adsb_version })) (fun _ ->
                              s.s_alt) r)
                        | None -> r)
                     | _ -> r)
                  | _ -> r)
               | _ -> r))
         | None -> r
       in
       let r1 =
         match s.s_df with
         | Some n0 ->
           (match n0 with
            | N0 -> r0
            | Npos p ->
              (match p with
               | XI p0 ->
                 (match p0 with
                  | XO p1 ->
                    (match p1 with
                     | XH ->
                       (match s.s_squawk with
                        | Some _ ->
                          set (fun r1 -> r1.r_squawk) (fun f ->
                            let o = fun r1 -> f r1.r_squawk in
                            (fun x -> { icao = x.icao; cap_ca = x.cap_ca;
                            cap = x.cap; category = x.category; reg = x.reg;
                            r_ais = x.r_ais; r_altitude = x.r_altitude;
                            altitude_gnss_ = x.altitude_gnss_;
                            altitude_source = x.altitude_source;
                            selected_altitude = x.selected_altitude;
                            baro_setting = x.baro_setting;
                            target_alt_source = x.target_alt_source;
                            r_squawk = (o x); surv_status = x.surv_status;
                            threat = x.threat; vrate = x.vrate;
                            vrate_source = x.vrate_source; cpr_lat0 =
                            x.cpr_lat0; cpr_lat1 = x.cpr_lat1; cpr_lon0 =
                            x.cpr_lon0; cpr_lon1 = x.cpr_lon1; cpr_t0 =
                            x.cpr_t0; cpr_t1 = x.cpr_t1; cpr_s0 = x.cpr_s0;
                            cpr_s1 = x.cpr_s1; lat = x.lat; lon = x.lon;
                            dist = x.dist; grspeed = x.grspeed;
                            true_airspeed = x.true_airspeed;
                            indicated_airspeed = x.indicated_airspeed; mach =
                            x.mach; ground_mov = x.ground_mov; turn = x.turn;
                            track = x.track; track_source = x.track_source;
                            r_heading = x.r_heading; heading_source =
                            x.heading_source; roll_angle = x.roll_angle;
                            track_angle_rate = x.track_angle_rate; bds50_t =
                            x.bds50_t; temperature = x.temperature; wind =
                            x.wind; turbulence = x.turbulence; humidity =
                            x.humidity; pressure = x.pressure; timestamp =
                            x.timestamp; position_t = x.position_t; track_t =
                            x.track_t; heading_t = x.heading_t; last_tc =
                            x.last_tc; last_df = x.last_df; adsb_version =
                            x.adsb_version })) (fun _ -> s.s_squawk) r0
                        | None -> r0)
                     | _ -> r0)
                  | _ -> r0)
               | _ -> r0))
         | None -> r0
       in
       (match s.s_df with
        | Some n0 ->
          (match n0 with
           | N0 -> r1
           | Npos p ->
             (match p with
              | XI p0 ->
                (match p0 with
                 | XI p1 ->
                   (match p1 with
                    | XO p2 ->
                      (match p2 with
                       | XH ->
                         (match s.s_cap with
                          | Some v ->
                            set (fun r2 -> r2.cap_ca) (fun f ->
                              let n1 = fun r2 -> f r2.cap_ca in
                              (fun x -> { icao = x.icao; cap_ca = (n1 x);
                              cap = x.cap; category = x.category; reg =
                              x.reg; r_ais = x.r_ais; r_altitude =
                              x.r_altitude; altitude_gnss_ =
                              x.altitude_gnss_; altitude_source =
                              x.altitude_source; selected_altitude =
                              x.selected_altitude; baro_setting =
                              x.baro_setting; target_alt_source =
                              x.target_alt_source; r_squawk = x.r_squawk;
                              surv_status = x.surv_status; threat = x.threat;
                              vrate = x.vrate; vrate_source = x.vrate_source;
                              cpr_lat0 = x.cpr_lat0; cpr_lat1 = x.cpr_lat1;
                              cpr_lon0 = x.cpr_lon0; cpr_lon1 = x.cpr_lon1;
                              cpr_t0 = x.cpr_t0; cpr_t1 = x.cpr_t1; cpr_s0 =
                              x.cpr_s0; cpr_s1 = x.cpr_s1; lat = x.lat; lon =
                              x.lon; dist = x.dist; grspeed = x.grspeed;
                              true_airspeed = x.true_airspeed;
                              indicated_airspeed = x.indicated_airspeed;
                              mach = x.mach; ground_mov = x.ground_mov;
                              turn = x.turn; track = x.track; track_source =
                              x.track_source; r_heading = x.r_heading;
                              heading_source = x.heading_source; roll_angle =
                              x.roll_angle; track_angle_rate =
                              x.track_angle_rate; bds50_t = x.bds50_t;
                              temperature = x.temperature; wind = x.wind;
                              turbulence = x.turbulence; humidity =
                              x.humidity; pressure = x.pressure; timestamp =
                              x.timestamp; position_t = x.position_t;
                              track_t = x.track_t; heading_t = x.heading_t;
                              last_tc = x.last_tc; last_df = x.last_df;
                              adsb_version = x.adsb_version })) (fun _ -> v)
                              r1
                          | None -> r1)
                       | _ -> r1)
                    | _ -> r1)
                 | _ -> r1)
              | _ -> r1))
        | None -> r1)
  else r

(** val dl_df : downlink -> n option **)

let dl_df = function
| DSrt s -> s.s_df
| DExt e -> e.e_df
| DMds (df, _) -> df

(** val update_from_downlink :
    (q * q) option -> z -> row -> downlink -> row **)

let update_from_downlink obs now r d =
  let r0 =
    set (fun r0 -> r0.timestamp) (fun f ->
      let z0 = fun r0 -> f r0.timestamp in
      (fun x -> { icao = x.icao; cap_ca = x.cap_ca; cap = x.cap; category =
      x.category; reg = x.reg; r_ais = x.r_ais; r_altitude = x.r_altitude;
      altitude_gnss_ = x.altitude_gnss_; altitude_source = x.altitude_source;
      selected_altitude = x.selected_altitude; baro_setting = x.baro_setting;
      target_alt_source = x.target_alt_source; r_squawk = x.r_squawk;
      surv_status = x.surv_status; threat = x.threat; vrate = x.vrate;
      vrate_source = x.vrate_source; cpr_lat0 = x.cpr_lat0; cpr_lat1 =
      x.cpr_lat1; cpr_lon0 = x.cpr_lon0; cpr_lon1 = x.cpr_lon1; cpr_t0 =
      x.cpr_t0; cpr_t1 = x.cpr_t1; cpr_s0 = x.cpr_s0; cpr_s1 = x.cpr_s1;
      lat = x.lat; lon = x.lon; dist = x.dist; grspeed = x.grspeed;
      true_airspeed = x.true_airspeed; indicated_airspeed =
      x.indicated_airspeed; mach = x.mach; ground_mov = x.ground_mov; turn =
      x.turn; track = x.track; track_source = x.track_source; r_heading =
      x.r_heading; heading_source = x.heading_source; roll_angle =
      x.roll_angle; track_angle_rate = x.track_angle_rate; bds50_t =
      x.bds50_t; temperature = x.temperature; wind = x.wind; turbulence =
      x.turbulence; humidity = x.humidity; pressure = x.pressure; timestamp =
      (z0 x); position_t = x.position_t; track_t = x.track_t; heading_t =
      x.heading_t; last_tc = x.last_tc; last_df = x.last_df; adsb_version =
      x.adsb_version })) (fun _ -> now) r
  in
  let r1 =
    match dl_df d with
    | Some df ->
      set (fun r1 -> r1.last_df) (fun f ->
        let n0 = fun r1 -> f r1.last_df in
        (fun x -> { icao = x.icao; cap_ca = x.cap_ca; cap = x.cap; category =
        x.category; reg = x.reg; r_ais = x.r_ais; r_altitude = x.r_altitude;
        altitude_gnss_ = x.altitude_gnss_; altitude_source =
        x.altitude_source; selected_altitude = x.selected_altitude;
        baro_setting = x.baro_setting; target_alt_source =
        x.target_alt_source; r_squawk = x.r_squawk; surv_status =
        x.surv_status; threat = x.threat; vrate = x.vrate; vrate_source =
        x.vrate_source; cpr_lat0 = x.cpr_lat0; cpr_lat1 = x.cpr_lat1;
        cpr_lon0 = x.cpr_lon0; cpr_lon1 = x.cpr_lon1; cpr_t0 = x.cpr_t0;
        cpr_t1 = x.cpr_t1; cpr_s0 = x.cpr_s0; cpr_s1 = x.cpr_s1; lat = x.lat;
        lon = x.lon; dist = x.dist; grspeed = x.grspeed; true_airspeed =
        x.true_airspeed; indicated_airspeed = x.indicated_airspeed; mach =
        x.mach; ground_mov = x.ground_mov; turn = x.turn; track = x.track;
        track_source = x.track_source; r_heading = x.r_heading;
        heading_source = x.heading_source; roll_angle = x.roll_angle;
        track_angle_rate = x.track_angle_rate; bds50_t = x.bds50_t;
        temperature = x.temperature; wind = x.wind; turbulence =
        x.turbulence; humidity = x.humidity; pressure = x.pressure;
        timestamp = x.timestamp; position_t = x.position_t; track_t =
        x.track_t; heading_t = x.heading_t; last_tc = x.last_tc; last_df =
        (n0 x); adsb_version = x.adsb_version })) (fun _ -> df) r0
    | None -> r0
  in
  (match d with
   | DSrt s -> update_from_srt_dl r1 s
   | DExt e -> update_from_ext_dl obs r1 e
   | DMds (_, ic) ->
     (match ic with
      | Some v ->
        set (fun r2 -> r2.icao) (fun f ->
          let n0 = fun r2 -> f r2.icao in
          (fun x -> { icao = (n0 x); cap_ca = x.cap_ca; cap = x.cap;
          category = x.category; reg = x.reg; r_ais = x.r_ais; r_altitude =
          x.r_altitude; altitude_gnss_ = x.altitude_gnss_; altitude_source =
          x.altitude_source; selected_altitude = x.selected_altitude;
          baro_setting = x.baro_setting; target_alt_source =
          x.target_alt_source; r_squawk = x.r_squawk; surv_status =
          x.surv_status; threat = x.threat; vrate = x.vrate; vrate_source =
          x.vrate_source; cpr_lat0 = x.cpr_lat0; cpr_lat1 = x.cpr_lat1;
          cpr_lon0 = x.cpr_lon0; cpr_lon1 = x.cpr_lon1; cpr_t0 = x.cpr_t0;
          cpr_t1 = x.cpr_t1; cpr_s0 = x.cpr_s0; cpr_s1 = x.cpr_s1; lat =
          x.lat; lon = x.lon; dist = x.dist; grspeed = x.grspeed;
          true_airspeed = x.true_airspeed; indicated_airspeed =
          x.indicated_airspeed; mach = x.mach; ground_mov = x.ground_mov;
          turn = x.turn; track = x.track; track_source = x.track_source;
          r_heading = x.r_heading; heading_source = x.heading_source;
          roll_angle = x.roll_angle; track_angle_rate = x.track_angle_rate;
          bds50_t = x.bds50_t; temperature = x.temperature; wind = x.wind;
          turbulence = x.turbulence; humidity = x.humidity; pressure =
          x.pressure; timestamp = x.timestamp; position_t = x.position_t;
          track_t = x.track_t; heading_t = x.heading_t; last_tc = x.last_tc;
          last_df = x.last_df; adsb_version = x.adsb_version })) (fun _ -> v)
          r1
      | None -> r1))

(** val row_from_downlink : (q * q) option -> z -> downlink -> n -> row **)

let row_from_downlink obs now d a =
  update_from_downlink obs now
    (set (fun r -> r.reg) (fun f ->
      let s = fun r -> f r.reg in
      (fun x -> { icao = x.icao; cap_ca = x.cap_ca; cap = x.cap; category =
      x.category; reg = (s x); r_ais = x.r_ais; r_altitude = x.r_altitude;
      altitude_gnss_ = x.altitude_gnss_; altitude_source = x.altitude_source;
      selected_altitude = x.selected_altitude; baro_setting = x.baro_setting;
      target_alt_source = x.target_alt_source; r_squawk = x.r_squawk;
      surv_status = x.surv_status; threat = x.threat; vrate = x.vrate;
      vrate_source = x.vrate_source; cpr_lat0 = x.cpr_lat0; cpr_lat1 =
      x.cpr_lat1; cpr_lon0 = x.cpr_lon0; cpr_lon1 = x.cpr_lon1; cpr_t0 =
      x.cpr_t0; cpr_t1 = x.cpr_t1; cpr_s0 = x.cpr_s0; cpr_s1 = x.cpr_s1;
      lat = x.lat; lon = x.lon; dist = x.dist; grspeed = x.grspeed;
      true_airspeed = x.true_airspeed; indicated_airspeed =
      x.indicated_airspeed; mach = x.mach; ground_mov = x.ground_mov; turn =
      x.turn; track = x.track; track_source = x.track_source; r_heading =
      x.r_heading; heading_source = x.heading_source; roll_angle =
      x.roll_angle; track_angle_rate = x.track_angle_rate; bds50_t =
      x.bds50_t; temperature = x.temperature; wind = x.wind; turbulence =
      x.turbulence; humidity = x.humidity; pressure = x.pressure; timestamp =
      x.timestamp; position_t = x.position_t; track_t = x.track_t;
      heading_t = x.heading_t; last_tc = x.last_tc; last_df = x.last_df;
      adsb_version = x.adsb_version })) (fun _ -> icao_to_country a)
      (set (fun r -> r.icao) (fun f ->
        let n0 = fun r -> f r.icao in
        (fun x -> { icao = (n0 x); cap_ca = x.cap_ca; cap = x.cap; category =
        x.category; reg = x.reg; r_ais = x.r_ais; r_altitude = x.r_altitude;
        altitude_gnss_ = x.altitude_gnss_; altitude_source =
        x.altitude_source; selected_altitude = x.selected_altitude;
        baro_setting = x.baro_setting; target_alt_source =
        x.target_alt_source; r_squawk = x.r_squawk; surv_status =
        x.surv_status; threat = x.threat; vrate = x.vrate; vrate_source =
        x.vrate_source; cpr_lat0 = x.cpr_lat0; cpr_lat1 = x.cpr_lat1;
        cpr_lon0 = x.cpr_lon0; cpr_lon1 = x.cpr_lon1; cpr_t0 = x.cpr_t0;
        cpr_t1 = x.cpr_t1; cpr_s0 = x.cpr_s0; cpr_s1 = x.cpr_s1; lat = x.lat;
        lon = x.lon; dist = x.dist; grspeed = x.grspeed; true_airspeed =
        x.true_airspeed; indicated_airspeed = x.indicated_airspeed; mach =
        x.mach; ground_mov = x.ground_mov; turn = x.turn; track = x.track;
        track_source = x.track_source; r_heading = x.r_heading;
        heading_source = x.heading_source; roll_angle = x.roll_angle;
        track_angle_rate = x.track_angle_rate; bds50_t = x.bds50_t;
        temperature = x.temperature; wind = x.wind; turbulence =
        x.turbulence; humidity = x.humidity; pressure = x.pressure;
        timestamp = x.timestamp; position_t = x.position_t; track_t =
        x.track_t; heading_t = x.heading_t; last_tc = x.last_tc; last_df =
        x.last_df; adsb_version = x.adsb_version })) (fun _ -> a)
        (row_new now))) d

(** val row_from_message :
    (q * q) option -> z -> n list -> n -> n -> bool -> row res **)

let row_from_message obs now m df a relaxed0 =
  plane_update obs now
    (set (fun r -> r.reg) (fun f ->
      let s = fun r -> f r.reg in
      (fun x -> { icao = x.icao; cap_ca = x.cap_ca; cap = x.cap; category =
      x.category; reg = (s x); r_ais = x.r_ais; r_altitude = x.r_altitude;
      altitude_gnss_ = x.altitude_gnss_; altitude_source = x.altitude_source;
      selected_altitude = x.selected_altitude; baro_setting = x.baro_setting;
      target_alt_source = x.target_alt_source; r_squawk = x.r_squawk;
      surv_status = x.surv_status; threat = x.threat; vrate = x.vrate;
      vrate_source = x.vrate_source; cpr_lat0 = x.cpr_lat0; cpr_lat1 =
      x.cpr_lat1; cpr_lon0 = x.cpr_lon0; cpr_lon1 = x.cpr_lon1; cpr_t0 =
      x.cpr_t0; cpr_t1 = x.cpr_t1; cpr_s0 = x.cpr_s0; cpr_s1 = x.cpr_s1;
      lat = x.lat; lon = x.lon; dist = x.dist; grspeed = x.grspeed;
      true_airspeed = x.true_airspeed; indicated_airspeed =
      x.indicated_airspeed; mach = x.mach; ground_mov = x.ground_mov; turn =
      x.turn; track = x.track; track_source = x.track_source; r_heading =
      x.r_heading; heading_source = x.heading_source; roll_angle =
      x.roll_angle; track_angle_rate = x.track_angle_rate; bds50_t =
      x.bds50_t; temperature = x.temperature; wind = x.wind; turbulence =
      x.turbulence; humidity = x.humidity; pressure = x.pressure; timestamp =
      x.timestamp; position_t = x.position_t; track_t = x.track_t;
      heading_t = x.heading_t; last_tc = x.last_tc; last_df = x.last_df;
      adsb_version = x.adsb_version })) (fun _ -> icao_to_country a)
      (set (fun r -> r.icao) (fun f ->
        let n0 = fun r -> f r.icao in
        (fun x -> { icao = (n0 x); cap_ca = x.cap_ca; cap = x.cap; category =
        x.category; reg = x.reg; r_ais = x.r_ais; r_altitude = x.r_altitude;
        altitude_gnss_ = x.altitude_gnss_; altitude_source =
        x.altitude_source; selected_altitude = x.selected_altitude;
        baro_setting = x.baro_setting; target_alt_source =
        x.target_alt_source; r_squawk = x.r_squawk; surv_status =
        x.surv_status; threat = x.threat; vrate = x.vrate; vrate_source =
        x.vrate_source; cpr_lat0 = x.cpr_lat0; cpr_lat1 = x.cpr_lat1;
        cpr_lon0 = x.cpr_lon0; cpr_lon1 = x.cpr_lon1; cpr_t0 = x.cpr_t0;
        cpr_t1 = x.cpr_t1; cpr_s0 = x.cpr_s0; cpr_s1 = x.cpr_s1; lat = x.lat;
        lon = x.lon; dist = x.dist; grspeed = x.grspeed; true_airspeed =
        x.true_airspeed; indicated_airspeed = x.indicated_airspeed; mach =
        x.mach; ground_mov = x.ground_mov; turn = x.turn; track = x.track;
        track_source = x.track_source; r_heading = x.r_heading;
        heading_source = x.heading_source; roll_angle = x.roll_angle;
        track_angle_rate = x.track_angle_rate; bds50_t = x.bds50_t;
        temperature = x.temperature; wind = x.wind; turbulence =
        x.turbulence; humidity = x.humidity; pressure = x.pressure;
        timestamp = x.timestamp; position_t = x.position_t; track_t =
        x.track_t; heading_t = x.heading_t; last_tc = x.last_tc; last_df =
        x.last_df; adsb_version = x.adsb_version })) (fun _ -> a)
        (row_new now))) m df relaxed0

(** val cont : n -> bool **)

let cont b =
  (&&) (N.leb (Npos (XO (XO (XO (XO (XO (XO (XO XH)))))))) b)
    (N.leb b (Npos (XI (XI (XI (XI (XI (XI (XO XH)))))))))

(** val inr : n -> n -> n -> bool **)

let inr lo hi b =
  (&&) (N.leb lo b) (N.leb b hi)

(** val valid_utf8 : n list -> bool **)

let rec valid_utf8 = function
| [] -> true
| b0 :: t ->
  if N.ltb b0 (Npos (XO (XO (XO (XO (XO (XO (XO XH))))))))
  then valid_utf8 t
  else if inr (Npos (XO (XI (XO (XO (XO (XO (XI XH)))))))) (Npos (XI (XI (XI
            (XI (XI (XO (XI XH)))))))) b0
       then (match t with
             | [] -> false
             | b1 :: t1 -> (&&) (cont b1) (valid_utf8 t1))
       else if N.eqb b0 (Npos (XO (XO (XO (XO (XO (XI (XI XH))))))))
            then (match t with
                  | [] -> false
                  | b1 :: l0 ->
                    (match l0 with
                     | [] -> false
                     | b2 :: t2 ->
                       (&&)
                         ((&&)
                           (inr (Npos (XO (XO (XO (XO (XO (XI (XO XH))))))))
                             (Npos (XI (XI (XI (XI (XI (XI (XO XH)))))))) b1)
                           (cont b2)) (valid_utf8 t2)))
            else if (||)
                      (inr (Npos (XI (XO (XO (XO (XO (XI (XI XH)))))))) (Npos
                        (XO (XO (XI (XI (XO (XI (XI XH)))))))) b0)
                      (inr (Npos (XO (XI (XI (XI (XO (XI (XI XH)))))))) (Npos
                        (XI (XI (XI (XI (XO (XI (XI XH)))))))) b0)
                 then (match t with
                       | [] -> false
                       | b1 :: l0 ->
                         (match l0 with
                          | [] -> false
                          | b2 :: t2 ->
                            (&&) ((&&) (cont b1) (cont b2)) (valid_utf8 t2)))
                 else if N.eqb b0 (Npos (XI (XO (XI (XI (XO (XI (XI XH))))))))
                      then (match t with
                            | [] -> false
                            | b1 :: l0 ->
                              (match l0 with
                               | [] -> false
                               | b2 :: t2 ->
                                 (&&)
                                   ((&&)
                                     (inr (Npos (XO (XO (XO (XO (XO (XO (XO
                                       XH)))))))) (Npos (XI (XI (XI (XI (XI
                                       (XO (XO XH)))))))) b1) (cont b2))
                                   (valid_utf8 t2)))
                      else if N.eqb b0 (Npos (XO (XO (XO (XO (XI (XI (XI
                                XH))))))))
                           then (match t with
                                 | [] -> false
                                 | b1 :: l0 ->
                                   (match l0 with
                                    | [] -> false
                                    | b2 :: l1 ->
                                      (match l1 with
                                       | [] -> false
                                       | b3 :: t3 ->
                                         (&&)
                                           ((&&)
                                             ((&&)
                                               (inr (Npos (XO (XO (XO (XO (XI
                                                 (XO (XO XH)))))))) (Npos (XI
                                                 (XI (XI (XI (XI (XI (XO
                                                 XH)))))))) b1) (cont b2))
                                             (cont b3)) (valid_utf8 t3))))
                           else if inr (Npos (XI (XO (XO (XO (XI (XI (XI
                                     XH)))))))) (Npos (XI (XI (XO (XO (XI (XI
                                     (XI XH)))))))) b0
                                then (match t with
                                      | [] -> false
                                      | b1 :: l0 ->
                                        (match l0 with
                                         | [] -> false
                                         | b2 :: l1 ->
                                           (match l1 with
                                            | [] -> false
                                            | b3 :: t3 ->
                                              (&&)
                                                ((&&)
                                                  ((&&) (cont b1) (cont b2))
                                                  (cont b3)) (valid_utf8 t3))))
                                else if N.eqb b0 (Npos (XO (XO (XI (XO (XI
                                          (XI (XI XH))))))))
                                     then (match t with
                                           | [] -> false
                                           | b1 :: l0 ->
                                             (match l0 with
                                              | [] -> false
                                              | b2 :: l1 ->
                                                (match l1 with
                                                 | [] -> false
                                                 | b3 :: t3 ->
                                                   (&&)
                                                     ((&&)
                                                       ((&&)
                                                         (inr (Npos (XO (XO
                                                           (XO (XO (XO (XO
                                                           (XO XH))))))))
                                                           (Npos (XI (XI (XI
                                                           (XI (XO (XO (XO
                                                           XH)))))))) b1)
                                                         (cont b2)) (cont b3))
                                                     (valid_utf8 t3))))
                                     else false

(** val split_lf : n list -> n list -> n list list **)

let rec split_lf bs cur =
  match bs with
  | [] -> (match cur with
           | [] -> []
           | _ :: _ -> (rev_append cur []) :: [])
  | b :: t ->
    if N.eqb b (Npos (XO (XI (XO XH))))
    then (rev_append cur []) :: (split_lf t [])
    else split_lf t (b :: cur)

(** val strip_cr : n list -> n list **)

let strip_cr l =
  match rev_append l [] with
  | [] -> l
  | n0 :: r ->
    (match n0 with
     | N0 -> l
     | Npos p ->
       (match p with
        | XI p0 ->
          (match p0 with
           | XO p1 ->
             (match p1 with
              | XI p2 -> (match p2 with
                          | XH -> rev_append r []
                          | _ -> l)
              | _ -> l)
           | _ -> l)
        | _ -> l))

(** val text_lines : n list -> n list option list **)

let text_lines bs =
  map (fun l -> if valid_utf8 l then Some (strip_cr l) else None)
    (split_lf bs [])

type opts = { use_update : bool; relaxed : bool; filter_df : n list option;
              count_df : bool; display_info : n list; order_by : n list list;
              update_s : z; delete_after : z; observer : (q * q) option }

type table = (n * row) list

(** val lookup : table -> n -> row option **)

let rec lookup t a =
  match t with
  | [] -> None
  | p :: t' -> let (k, r) = p in if N.eqb k a then Some r else lookup t' a

(** val upsert : table -> n -> row -> table **)

let rec upsert t a r =
  match t with
  | [] -> (a, r) :: []
  | p :: t' ->
    let (k, r0) = p in
    if N.eqb k a then (k, r) :: t' else (k, r0) :: (upsert t' a r)

(** val update_aircraft :
    opts -> z -> table -> downlink -> n list -> n -> n -> table res **)

let update_aircraft o now t d m df a =
  match lookup t a with
  | Some r ->
    if (&&) (N.ltb df (Npos (XO (XO (XI (XO XH)))))) (negb o.use_update)
    then Ok (upsert t a (update_from_downlink o.observer now r d))
    else bind (plane_update o.observer now r m df o.relaxed) (fun r' -> Ok
           (upsert t a r'))
  | None -> Ok (upsert t a (row_from_downlink o.observer now d a))

type counters = { df_count : (n * z) list; cleanup_count : n; refresh_ts : z }

(** val bump : (n * z) list -> n -> (n * z) list **)

let rec bump c df =
  match c with
  | [] -> (df, (Zpos XH)) :: []
  | p :: t ->
    let (k, v) = p in
    if N.eqb k df
    then (k, (Z.add v (Zpos XH))) :: t
    else if N.ltb df k
         then (df, (Zpos XH)) :: ((k, v) :: t)
         else (k, v) :: (bump t df)

(** val counters_new : z -> z -> counters **)

let counters_new now update =
  { df_count = []; cleanup_count = N0; refresh_ts =
    (Z.add now
      (Z.mul update (Zpos (XO (XO (XO (XI (XO (XI (XI (XI (XI XH)))))))))))) }

(** val cleanup : table -> counters -> z -> z -> table * counters **)

let cleanup t c now delete_after0 =
  if N.ltb (Npos (XO (XI (XO XH)))) c.cleanup_count
  then let t0 =
         filter (fun pat ->
           let (_, r) = pat in
           Z.ltb (num_seconds now r.timestamp) delete_after0) t
       in
       let cc = N0 in
       (t0, { df_count = c.df_count; cleanup_count = (N.add cc (Npos XH));
       refresh_ts = c.refresh_ts })
  else let cc = c.cleanup_count in
       (t, { df_count = c.df_count; cleanup_count = (N.add cc (Npos XH));
       refresh_ts = c.refresh_ts })

(** val quiet : opts -> bool **)

let quiet o =
  existsb (fun c -> N.eqb c (Npos (XI (XO (XO (XO (XI (XO XH))))))))
    o.display_info

type state = { tbl : table; cnt : counters }

type line_outcome =
| Skipped
| Applied of n * n

(** val step_line :
    opts -> z -> state -> n list -> ((state * bool) * line_outcome) res **)

let step_line o now s line =
  bind (get_message line) (fun mo ->
    match mo with
    | Some m ->
      bind (get_downlink_format m) (fun dfo ->
        match dfo with
        | Some df ->
          bind (get_icao m df) (fun ao ->
            match ao with
            | Some a ->
              if match o.filter_df with
                 | Some only -> forallb (fun x -> negb (N.eqb x df)) only
                 | None -> false
              then Ok ((s, false), Skipped)
              else let c = s.cnt in
                   let c0 =
                     if o.count_df
                     then { df_count = (bump c.df_count df); cleanup_count =
                            c.cleanup_count; refresh_ts = c.refresh_ts }
                     else c
                   in
                   bind (df_from_message m) (fun d ->
                     bind
                       (match d with
                        | Some d0 ->
                          bind (update_aircraft o now s.tbl d0 m df a)
                            (fun t -> Ok (cleanup t c0 now o.delete_after))
                        | None -> Ok (s.tbl, c0)) (fun pat ->
                       let (t, c1) = pat in
                       let refresh =
                         (&&) (negb (quiet o))
                           (Z.ltb o.update_s (num_seconds now c1.refresh_ts))
                       in
                       let c2 =
                         if refresh
                         then { df_count = c1.df_count; cleanup_count =
                                c1.cleanup_count; refresh_ts = now }
                         else c1
                       in
                       Ok (({ tbl = t; cnt = c2 }, refresh), (Applied (df,
                       a)))))
            | None -> Ok ((s, false), Skipped))
        | None -> Ok ((s, false), Skipped))
    | None -> Ok ((s, false), Skipped))

(** val step :
    opts -> z -> state -> n list option -> ((state * bool) * line_outcome) res **)

let step o now s = function
| Some line -> step_line o now s line
| None -> Ok ((s, false), Skipped)

(** val run_lines : opts -> z -> state -> n list option list -> state res **)

let rec run_lines o now s = function
| [] -> Ok s
| l :: t ->
  bind (step o now s l) (fun pat ->
    let (p, _) = pat in let (s', _) = p in run_lines o now s' t)

(** val read_lines : opts -> z -> table -> n list -> table res **)

let read_lines o now t bs =
  bind
    (run_lines o now { tbl = t; cnt = (counters_new now o.update_s) }
      (text_lines bs)) (fun s -> Ok s.tbl)

(** val insert_by : ('a1 -> z) -> 'a1 -> 'a1 list -> 'a1 list **)

let rec insert_by key x l = match l with
| [] -> x :: []
| y :: t -> if Z.ltb (key x) (key y) then x :: l else y :: (insert_by key x t)

(** val stable_sort : ('a1 -> z) -> 'a1 list -> 'a1 list **)

let stable_sort key l =
  fold_left (fun acc x -> insert_by key x acc) l []

(** val qtrunc : q -> z **)

let qtrunc q0 =
  Z.quot q0.qnum (Zpos q0.qden)

(** val okey : n option -> z **)

let okey = function
| Some v -> Z.of_N v
| None -> Zneg XH

type sort_action =
| SortBy of (row -> z) * bool
| NoSort

(** val sort_action_of : (row -> z) -> n -> sort_action **)

let sort_action_of dkey = function
| N0 -> NoSort
| Npos p ->
  (match p with
   | XI p0 ->
     (match p0 with
      | XI p1 ->
        (match p1 with
         | XI p2 ->
           (match p2 with
            | XO p3 ->
              (match p3 with
               | XI p4 ->
                 (match p4 with
                  | XO p5 ->
                    (match p5 with
                     | XH -> SortBy ((fun r -> qtrunc r.lon), false)
                     | _ -> NoSort)
                  | _ -> NoSort)
               | _ -> NoSort)
            | _ -> NoSort)
         | XO p2 ->
           (match p2 with
            | XO p3 ->
              (match p3 with
               | XI p4 ->
                 (match p4 with
                  | XI p5 ->
                    (match p5 with
                     | XH -> SortBy ((fun r -> okey r.r_squawk), false)
                     | _ -> NoSort)
                  | XO p5 ->
                    (match p5 with
                     | XH -> SortBy ((fun r -> Z.opp (qtrunc r.lat)), false)
                     | _ -> NoSort)
                  | XH -> NoSort)
               | XO p4 ->
                 (match p4 with
                  | XI p5 ->
                    (match p5 with
                     | XH ->
                       SortBy ((fun r ->
                         Z.add
                           (Z.mul (Z.of_N (fst r.category)) (Zpos (XO (XO (XO
                             (XO (XO (XO (XO (XO (XO (XO (XO (XO (XO (XO (XO
                             (XO (XO (XO (XO (XO (XO (XO (XO (XO (XO (XO (XO
                             (XO (XO (XO (XO (XO
                             XH))))))))))))))))))))))))))))))))))
                           (Z.of_N (snd r.category))), false)
                     | _ -> NoSort)
                  | XO p5 ->
                    (match p5 with
                     | XH ->
                       SortBy ((fun r ->
                         Z.opp
                           (Z.of_N
                             (N.coq_lor (N.shiftl (fst r.category) (Npos XH))
                               (snd r.category)))), false)
                     | _ -> NoSort)
                  | XH -> NoSort)
               | XH -> NoSort)
            | _ -> NoSort)
         | XH -> NoSort)
      | XO p1 ->
        (match p1 with
         | XI p2 ->
           (match p2 with
            | XO p3 ->
              (match p3 with
               | XO p4 ->
                 (match p4 with
                  | XO p5 ->
                    (match p5 with
                     | XH -> SortBy ((fun r -> Z.opp (qtrunc r.lon)), false)
                     | _ -> NoSort)
                  | _ -> NoSort)
               | _ -> NoSort)
            | _ -> NoSort)
         | XO p2 ->
           (match p2 with
            | XO p3 ->
              (match p3 with
               | XO p4 ->
                 (match p4 with
                  | XI p5 ->
                    (match p5 with
                     | XH -> SortBy ((fun r -> okey r.r_altitude), false)
                     | _ -> NoSort)
                  | XO p5 ->
                    (match p5 with
                     | XH -> SortBy ((fun r -> okey r.r_altitude), true)
                     | _ -> NoSort)
                  | XH -> NoSort)
               | _ -> NoSort)
            | _ -> NoSort)
         | XH -> NoSort)
      | XH -> NoSort)
   | XO p0 ->
     (match p0 with
      | XI p1 ->
        (match p1 with
         | XI p2 ->
           (match p2 with
            | XI p3 ->
              (match p3 with
               | XO p4 ->
                 (match p4 with
                  | XO p5 ->
                    (match p5 with
                     | XH -> SortBy ((fun r -> qtrunc r.lat), false)
                     | _ -> NoSort)
                  | _ -> NoSort)
               | _ -> NoSort)
            | XO p3 ->
              (match p3 with
               | XI p4 ->
                 (match p4 with
                  | XI p5 ->
                    (match p5 with
                     | XH ->
                       SortBy ((fun r ->
                         match r.vrate with
                         | Some v -> v
                         | None -> Z0), false)
                     | _ -> NoSort)
                  | XO p5 ->
                    (match p5 with
                     | XH ->
                       SortBy ((fun r ->
                         Z.opp (match r.vrate with
                                | Some v -> v
                                | None -> Z0)), false)
                     | _ -> NoSort)
                  | XH -> NoSort)
               | _ -> NoSort)
            | XH -> NoSort)
         | _ -> NoSort)
      | XO p1 ->
        (match p1 with
         | XI p2 ->
           (match p2 with
            | XO p3 ->
              (match p3 with
               | XO p4 ->
                 (match p4 with
                  | XI p5 ->
                    (match p5 with
                     | XH -> SortBy (dkey, false)
                     | _ -> NoSort)
                  | XO p5 ->
                    (match p5 with
                     | XH -> SortBy (dkey, true)
                     | _ -> NoSort)
                  | XH -> NoSort)
               | _ -> NoSort)
            | _ -> NoSort)
         | _ -> NoSort)
      | XH -> NoSort)
   | XH -> NoSort)

(** val apply_sort : (row -> z) -> (n * row) list -> n -> (n * row) list **)

let apply_sort dkey l c =
  match sort_action_of dkey c with
  | SortBy (key, rv) ->
    let s = stable_sort (fun p -> key (snd p)) l in if rv then rev s else s
  | NoSort -> l

(** val print_order : (row -> z) -> n list list -> table -> (n * row) list **)

let print_order dkey order_by0 t =
  fold_left (apply_sort dkey) (concat order_by0)
    (stable_sort (fun p -> Z.of_N (fst p)) t)

type bytes = n list

(** val str : string -> bytes **)

let rec str = function
| EmptyString -> []
| String (c, t) -> (n_of_ascii c) :: (str t)

(** val dec_go : nat -> n -> bytes -> bytes **)

let rec dec_go fuel n0 acc =
  match fuel with
  | O -> acc
  | S f ->
    let acc' =
      (N.add (Npos (XO (XO (XO (XO (XI XH))))))
        (N.modulo n0 (Npos (XO (XI (XO XH)))))) :: acc
    in
    if N.ltb n0 (Npos (XO (XI (XO XH))))
    then acc'
    else dec_go f (N.div n0 (Npos (XO (XI (XO XH))))) acc'

(** val dec : n -> bytes **)

let dec n0 =
  dec_go (S (S (S (S (S (S (S (S (S (S (S (S (S (S (S (S (S (S (S (S (S (S (S
    (S (S (S (S (S (S (S (S (S (S (S (S (S (S (S (S (S (S (S (S (S (S (S (S
    (S (S (S (S (S (S (S (S (S (S (S (S (S (S (S (S (S (S (S (S (S (S (S (S
    (S (S (S (S (S (S (S (S (S (S (S (S (S (S (S (S (S (S (S (S (S (S (S (S
    (S (S (S (S (S (S (S (S (S (S (S (S (S (S (S (S (S (S (S (S (S (S (S (S
    (S (S (S (S (S (S (S (S (S (S (S (S (S (S (S (S (S (S (S (S (S (S (S (S
    (S (S (S (S (S (S (S (S (S (S (S (S (S (S (S (S (S (S (S (S (S (S (S (S
    (S (S (S (S (S (S (S (S (S (S (S (S (S (S (S (S (S (S (S (S (S (S (S (S
    (S (S (S (S (S (S (S (S (S (S (S (S (S (S (S (S (S (S (S (S (S (S (S (S
    (S (S (S (S (S (S (S (S (S (S (S (S (S (S (S (S (S (S (S (S (S (S (S (S
    (S (S (S (S (S (S (S (S (S (S (S (S (S (S (S (S (S (S (S (S (S (S (S (S
    (S (S (S (S (S (S (S (S (S (S (S (S (S (S (S (S (S (S (S (S (S (S (S (S
    (S (S (S (S (S (S (S (S (S (S (S (S (S (S (S (S (S (S (S (S (S (S (S (S
    (S (S (S (S (S (S (S (S (S (S (S (S (S (S (S (S (S (S (S (S (S (S (S (S
    (S (S (S (S (S (S (S (S (S (S (S (S (S (S (S (S (S (S (S (S (S (S (S (S
    (S (S (S (S (S (S (S (S (S (S (S (S (S (S (S (S (S (S (S (S (S (S (S (S
    (S (S (S (S (S (S (S (S (S (S (S (S (S (S (S (S (S
    O))))))))))))))))))))))))))))))))))))))))))))))))))))))))))))))))))))))))))))))))))))))))))))))))))))))))))))))))))))))))))))))))))))))))))))))))))))))))))))))))))))))))))))))))))))))))))))))))))))))))))))))))))))))))))))))))))))))))))))))))))))))))))))))))))))))))))))))))))))))))))))))))))))))))))))))))))))))))))))))))))))))))))))))))))))))))))))))))))))))))))))))))))))))))))))))))))))))))))))))))
    n0 []

(** val decz : z -> bytes **)

let decz z0 = match z0 with
| Zneg p -> (Npos (XI (XO (XI (XI (XO XH)))))) :: (dec (Npos p))
| _ -> dec (Z.to_N z0)

(** val hexdigit : n -> n **)

let hexdigit d =
  if N.ltb d (Npos (XO (XI (XO XH))))
  then N.add (Npos (XO (XO (XO (XO (XI XH)))))) d
  else N.add (Npos (XI (XI (XI (XO (XI XH)))))) d

(** val hex_go : nat -> n -> bytes -> bytes **)

let rec hex_go k n0 acc =
  match k with
  | O -> acc
  | S k' ->
    hex_go k' (N.div n0 (Npos (XO (XO (XO (XO XH))))))
      ((hexdigit (N.modulo n0 (Npos (XO (XO (XO (XO XH))))))) :: acc)

(** val hex6 : n -> bytes **)

let hex6 n0 =
  if N.ltb n0 (Npos (XO (XO (XO (XO (XO (XO (XO (XO (XO (XO (XO (XO (XO (XO
       (XO (XO (XO (XO (XO (XO (XO (XO (XO (XO XH)))))))))))))))))))))))))
  then hex_go (S (S (S (S (S (S O)))))) n0 []
  else hex_go (S (S (S (S (S (S (S (S O)))))))) n0 []

(** val qstr : q -> bytes **)

let qstr q0 =
  let q1 = qred q0 in
  app (decz q1.qnum)
    (app ((Npos (XI (XI (XI (XI (XO XH)))))) :: []) (dec (Npos q1.qden)))

(** val oN : n option -> bytes **)

let oN = function
| Some n0 -> dec n0
| None -> (Npos (XI (XO (XI (XI (XO XH)))))) :: []

(** val oZ : z option -> bytes **)

let oZ = function
| Some n0 -> decz n0
| None -> (Npos (XI (XO (XI (XI (XO XH)))))) :: []

(** val oQ : q option -> bytes **)

let oQ = function
| Some n0 -> qstr n0
| None -> (Npos (XI (XO (XI (XI (XO XH)))))) :: []

(** val bit : bool -> bytes **)

let bit = function
| true -> (Npos (XI (XO (XO (XO (XI XH)))))) :: []
| false -> (Npos (XO (XO (XO (XO (XI XH)))))) :: []

(** val age : z -> z -> bytes **)

let age now t =
  decz (num_seconds now t)

(** val oage : z -> z option -> bytes **)

let oage now = function
| Some t0 -> age now t0
| None -> (Npos (XI (XO (XI (XI (XO XH)))))) :: []

(** val kv : string -> bytes -> bytes **)

let kv k v =
  app (str k)
    (app ((Npos (XI (XO (XI (XI (XI XH)))))) :: [])
      (app v ((Npos (XO (XO (XO (XO (XO XH)))))) :: [])))

(** val dump_row : z -> row -> bytes **)

let dump_row now r =
  app
    (kv (String ((Ascii (true, false, false, true, false, true, true,
      false)), (String ((Ascii (true, true, false, false, false, true, true,
      false)), (String ((Ascii (true, false, false, false, false, true, true,
      false)), (String ((Ascii (true, true, true, true, false, true, true,
      false)), EmptyString)))))))) (hex6 r.icao))
    (app
      (kv (String ((Ascii (true, true, false, false, false, true, true,
        false)), (String ((Ascii (true, false, false, false, false, true,
        true, false)), EmptyString)))) (dec r.cap_ca))
      (app
        (kv (String ((Ascii (true, true, false, false, false, true, true,
          false)), (String ((Ascii (false, true, true, false, false, true,
          true, false)), EmptyString)))) (dec r.cap.c_flags))
        (app
          (kv (String ((Ascii (true, true, false, false, false, true, true,
            false)), (String ((Ascii (false, true, false, false, false, true,
            true, false)), EmptyString))))
            (app (bit r.cap.c20)
              (app (bit r.cap.c40)
                (app (bit r.cap.c44) (app (bit r.cap.c50) (bit r.cap.c60))))))
          (app
            (kv (String ((Ascii (true, true, false, false, false, true, true,
              false)), (String ((Ascii (true, false, false, false, false,
              true, true, false)), (String ((Ascii (false, false, true,
              false, true, true, true, false)), EmptyString))))))
              (app (dec (fst r.category))
                (app ((Npos (XO (XI (XI (XI (XO XH)))))) :: [])
                  (dec (snd r.category)))))
            (app
              (kv (String ((Ascii (false, true, false, false, true, true,
                true, false)), (String ((Ascii (true, false, true, false,
                false, true, true, false)), (String ((Ascii (true, true,
                true, false, false, true, true, false)), EmptyString))))))
                (match r.reg with
                 | EmptyString -> (Npos (XI (XO (XI (XI (XO XH)))))) :: []
                 | String (a, s0) -> str (String (a, s0))))
              (app
                (kv (String ((Ascii (true, false, false, false, false, true,
                  true, false)), (String ((Ascii (true, false, false, true,
                  false, true, true, false)), (String ((Ascii (true, true,
                  false, false, true, true, true, false)), EmptyString))))))
                  (match r.r_ais with
                   | Some s ->
                     app ((Npos (XO (XI (XO (XO (XO XH)))))) :: [])
                       (app s ((Npos (XO (XI (XO (XO (XO XH)))))) :: []))
                   | None -> (Npos (XI (XO (XI (XI (XO XH)))))) :: []))
                (app
                  (kv (String ((Ascii (true, false, false, false, false,
                    true, true, false)), (String ((Ascii (false, false, true,
                    true, false, true, true, false)), (String ((Ascii (false,
                    false, true, false, true, true, true, false)),
                    EmptyString)))))) (oN r.r_altitude))
                  (app
                    (kv (String ((Ascii (true, false, false, false, false,
                      true, true, false)), (String ((Ascii (false, false,
                      true, true, false, true, true, false)), (String ((Ascii
                      (false, false, true, false, true, true, true, false)),
                      (String ((Ascii (true, true, true, false, false, true,
                      true, false)), EmptyString))))))))
                      (oN r.altitude_gnss_))
                    (app
                      (kv (String ((Ascii (true, false, false, false, false,
                        true, true, false)), (String ((Ascii (false, false,
                        true, true, false, true, true, false)), (String
                        ((Ascii (false, false, true, false, true, true, true,
                        false)), (String ((Ascii (true, true, false, false,
                        true, true, true, false)), EmptyString))))))))
                        (dec r.altitude_source))
                      (app
                        (kv (String ((Ascii (true, true, false, false, true,
                          true, true, false)), (String ((Ascii (true, false,
                          true, false, false, true, true, false)), (String
                          ((Ascii (false, false, true, true, false, true,
                          true, false)), (String ((Ascii (true, false, false,
                          false, false, true, true, false)),
                          EmptyString)))))))) (oN r.selected_altitude))
                        (app
                          (kv (String ((Ascii (false, true, false, false,
                            false, true, true, false)), (String ((Ascii
                            (true, false, false, false, false, true, true,
                            false)), (String ((Ascii (false, true, false,
                            false, true, true, true, false)), (String ((Ascii
                            (true, true, true, true, false, true, true,
                            false)), EmptyString)))))))) (oN r.baro_setting))
                          (app
                            (kv (String ((Ascii (false, false, true, false,
                              true, true, true, false)), (String ((Ascii
                              (true, false, false, false, false, true, true,
                              false)), (String ((Ascii (true, true, false,
                              false, true, true, true, false)), (String
                              ((Ascii (true, true, true, true, true, false,
                              true, false)), EmptyString))))))))
                              (dec r.target_alt_source))
                            (app
                              (kv (String ((Ascii (true, true, false, false,
                                true, true, true, false)), (String ((Ascii
                                (true, false, false, false, true, true, true,
                                false)), EmptyString)))) (oN r.r_squawk))
                              (app
                                (kv (String ((Ascii (true, true, false,
                                  false, true, true, true, false)), (String
                                  ((Ascii (true, true, false, false, true,
                                  true, true, false)), EmptyString))))
                                  (dec r.surv_status))
                                (app
                                  (kv (String ((Ascii (false, false, true,
                                    false, true, true, true, false)), (String
                                    ((Ascii (true, false, true, false, false,
                                    true, true, false)), EmptyString))))
                                    (oN r.threat))
                                  (app
                                    (kv (String ((Ascii (false, true, true,
                                      false, true, true, true, false)),
                                      (String ((Ascii (false, true, false,
                                      false, true, true, true, false)),
                                      EmptyString)))) (oZ r.vrate))
                                    (app
                                      (kv (String ((Ascii (false, true, true,
                                        false, true, true, true, false)),
                                        (String ((Ascii (false, true, false,
                                        false, true, true, true, false)),
                                        (String ((Ascii (true, true, false,
                                        false, true, true, true, false)),
                                        EmptyString))))))
                                        (dec r.vrate_source))
                                      (app
                                        (kv (String ((Ascii (true, true,
                                          false, false, false, true, true,
                                          false)), (String ((Ascii (false,
                                          false, true, true, false, true,
                                          true, false)), (String ((Ascii
                                          (false, false, false, false, true,
                                          true, false, false)),
                                          EmptyString)))))) (dec r.cpr_lat0))
                                        (app
                                          (kv (String ((Ascii (true, true,
                                            false, false, false, true, true,
                                            false)), (String ((Ascii (false,
                                            false, true, true, false, true,
                                            true, false)), (String ((Ascii
                                            (true, false, false, false, true,
                                            true, false, false)),
                                            EmptyString))))))
                                            (dec r.cpr_lat1))
                                          (app
                                            (kv (String ((Ascii (true, true,
                                              false, false, false, true,
                                              true, false)), (String ((Ascii
                                              (true, true, true, true, false,
                                              true, true, false)), (String
                                              ((Ascii (false, false, false,
                                              false, true, true, false,
                                              false)), EmptyString))))))
                                              (dec r.cpr_lon0))
                                            (app
                                              (kv (String ((Ascii (true,
                                                true, false, false, false,
                                                true, true, false)), (String
                                                ((Ascii (true, true, true,
                                                true, false, true, true,
                                                false)), (String ((Ascii
                                                (true, false, false, false,
                                                true, true, false, false)),
                                                EmptyString))))))
                                                (dec r.cpr_lon1))
                                              (app
                                                (kv (String ((Ascii (true,
                                                  true, false, false, false,
                                                  true, true, false)),
                                                  (String ((Ascii (true,
                                                  true, false, false, true,
                                                  true, true, false)),
                                                  EmptyString))))
                                                  (app (bit r.cpr_s0)
                                                    (bit r.cpr_s1)))
                                                (app
                                                  (kv (String ((Ascii (true,
                                                    true, false, false,
                                                    false, true, true,
                                                    false)), (String ((Ascii
                                                    (false, false, true,
                                                    false, true, true, true,
                                                    false)), (String ((Ascii
                                                    (false, false, false,
                                                    false, true, true, false,
                                                    false)),
                                                    EmptyString))))))
                                                    (age now r.cpr_t0))
                                                  (app
                                                    (kv (String ((Ascii
                                                      (true, true, false,
                                                      false, false, true,
                                                      true, false)), (String
                                                      ((Ascii (false, false,
                                                      true, false, true,
                                                      true, true, false)),
                                                      (String ((Ascii (true,
                                                      false, false, false,
                                                      true, true, false,
                                                      false)),
                                                      EmptyString))))))
                                                      (age now r.cpr_t1))
                                                    (app
                                                      (kv (String ((Ascii
                                                        (false, false, true,
                                                        true, false, true,
                                                        true, false)),
                                                        (String ((Ascii
                                                        (true, false, false,
                                                        false, false, true,
                                                        true, false)),
                                                        (String ((Ascii
                                                        (false, false, true,
                                                        false, true, true,
                                                        true, false)),
                                                        EmptyString))))))
                                                        (qstr r.lat))
                                                      (app
                                                        (kv (String ((Ascii
                                                          (false, false,
                                                          true, true, false,
                                                          true, true,
                                                          false)), (String
                                                          ((Ascii (true,
                                                          true, true, true,
                                                          false, true, true,
                                                          false)), (String
                                                          ((Ascii (false,
                                                          true, true, true,
                                                          false, true, true,
                                                          false)),
                                                          EmptyString))))))
                                                          (qstr r.lon))
                                                        (app
                                                          (kv (String ((Ascii
                                                            (false, false,
                                                            true, false,
                                                            false, true,
                                                            true, false)),
                                                            (String ((Ascii
                                                            (true, false,
                                                            false, true,
                                                            false, true,
                                                            true, false)),
                                                            (String ((Ascii
                                                            (true, true,
                                                            false, false,
                                                            true, true, true,
                                                            false)), (String
                                                            ((Ascii (false,
                                                            false, true,
                                                            false, true,
                                                            true, true,
                                                            false)),
                                                            EmptyString))))))))
                                                            (match r.dist with
                                                             | Some p ->
                                                               let (p0, d) = p
                                                               in
                                                               let (p1, c) =
                                                                 p0
                                                               in
                                                               let (a, b) = p1
                                                               in
                                                               app
                                                                 (str (String
                                                                   ((Ascii
                                                                   (false,
                                                                   false,
                                                                   true,
                                                                   false,
                                                                   false,
                                                                   false,
                                                                   true,
                                                                   false)),
                                                                   (String
                                                                   ((Ascii
                                                                   (false,
                                                                   true,
                                                                   false,
                                                                   true,
                                                                   true,
                                                                   true,
                                                                   false,
                                                                   false)),
                                                                   EmptyString)))))
                                                                 (app
                                                                   (qstr a)
                                                                   (app
                                                                    ((Npos
                                                                    (XI (XI
                                                                    (XO (XI
                                                                    (XI
                                                                    XH)))))) :: [])
                                                                    (app
                                                                    (qstr b)
                                                                    (app
                                                                    ((Npos
                                                                    (XI (XI
                                                                    (XO (XI
                                                                    (XI
                                                                    XH)))))) :: [])
                                                                    (app
                                                                    (qstr c)
                                                                    (app
                                                                    ((Npos
                                                                    (XI (XI
                                                                    (XO (XI
                                                                    (XI
                                                                    XH)))))) :: [])
                                                                    (qstr d)))))))
                                                             | None ->
                                                               (Npos (XI (XO
                                                                 (XI (XI (XO
                                                                 XH)))))) :: []))
                                                          (app
                                                            (kv (String
                                                              ((Ascii (true,
                                                              true, true,
                                                              false, false,
                                                              true, true,
                                                              false)),
                                                              (String ((Ascii
                                                              (true, true,
                                                              false, false,
                                                              true, true,
                                                              true, false)),
                                                              EmptyString))))
                                                              (oN r.grspeed))
                                                            (app
                                                              (kv (String
                                                                ((Ascii
                                                                (false,
                                                                false, true,
                                                                false, true,
                                                                true, true,
                                                                false)),
                                                                (String
                                                                ((Ascii
                                                                (true, false,
                                                                false, false,
                                                                false, true,
                                                                true,
                                                                false)),
                                                                (String
                                                                ((Ascii
                                                                (true, true,
                                                                false, false,
                                                                true, true,
                                                                true,
                                                                false)),
                                                                EmptyString))))))
                                                                (oN
                                                                  r.true_airspeed))
                                                              (app
                                                                (kv (String
                                                                  ((Ascii
                                                                  (true,
                                                                  false,
                                                                  false,
                                                                  true,
                                                                  false,
                                                                  true, true,
                                                                  false)),
                                                                  (String
                                                                  ((Ascii
                                                                  (true,
                                                                  false,
                                                                  false,
                                                                  false,
                                                                  false,
                                                                  true, true,
                                                                  false)),
                                                                  (String
                                                                  ((Ascii
                                                                  (true,
                                                                  true,
                                                                  false,
                                                                  false,
                                                                  true, true,
                                                                  true,
                                                                  false)),
                                                                  EmptyString))))))
                                                                  (oN
                                                                    r.indicated_airspeed))
                                                                (app
                                                                  (kv (String
                                                                    ((Ascii
                                                                    (true,
                                                                    false,
                                                                    true,
                                                                    true,
                                                                    false,
                                                                    true,
                                                                    true,
                                                                    false)),
                                                                    (String
                                                                    ((Ascii
                                                                    (true,
                                                                    false,
                                                                    false,
                                                                    false,
                                                                    false,
                                                                    true,
                                                                    true,
                                                                    false)),
                                                                    (String
                                                                    ((Ascii
                                                                    (true,
                                                                    true,
                                                                    false,
                                                                    false,
                                                                    false,
                                                                    true,
                                                                    true,
                                                                    false)),
                                                                    (String
                                                                    ((Ascii
                                                                    (false,
                                                                    false,
                                                                    false,
                                                                    true,
                                                                    false,
                                                                    true,
                                                                    true,
                                                                    false)),
                                                                    EmptyString))))))))
                                                                    (oQ
                                                                    r.mach))
                                                                  (app
                                                                    (kv
                                                                    (String
                                                                    ((Ascii
                                                                    (true,
                                                                    true,
                                                                    true,
                                                                    false,
                                                                    false,
                                                                    true,
                                                                    true,
                                                                    false)),
                                                                    (String
                                                                    ((Ascii
                                                                    (true,
                                                                    false,
                                                                    true,
                                                                    true,
                                                                    false,
                                                                    true,
                                                                    true,
                                                                    false)),
                                                                    EmptyString))))
                                                                    (oQ
                                                                    r.ground_mov))
                                                                    (app
                                                                    (kv
                                                                    (String
                                                                    ((Ascii
                                                                    (false,
                                                                    false,
                                                                    true,
                                                                    false,
                                                                    true,
                                                                    true,
                                                                    true,
                                                                    false)),
                                                                    (String
                                                                    ((Ascii
                                                                    (true,
                                                                    false,
                                                                    true,
                                                                    false,
                                                                    true,
                                                                    true,
                                                                    true,
                                                                    false)),
                                                                    (String
                                                                    ((Ascii
                                                                    (false,
                                                                    true,
                                                                    false,
                                                                    false,
                                                                    true,
                                                                    true,
                                                                    true,
                                                                    false)),
                                                                    (String
                                                                    ((Ascii
                                                                    (false,
                                                                    true,
                                                                    true,
                                                                    true,
                                                                    false,
                                                                    true,
                                                                    true,
                                                                    false)),
                                                                    EmptyString))))))))
                                                                    (dec
                                                                    r.turn))
                                                                    (app
                                                                    (kv
                                                                    (String
                                                                    ((Ascii
                                                                    (false,
                                                                    false,
                                                                    true,
                                                                    false,
                                                                    true,
                                                                    true,
                                                                    true,
                                                                    false)),
                                                                    (String
                                                                    ((Ascii
                                                                    (false,
                                                                    true,
                                                                    false,
                                                                    false,
                                                                    true,
                                                                    true,
                                                                    true,
                                                                    false)),
                                                                    (String
                                                                    ((Ascii
                                                                    (true,
                                                                    true,
                                                                    false,
                                                                    true,
                                                                    false,
                                                                    true,
                                                                    true,
                                                                    false)),
                                                                    EmptyString))))))
                                                                    (oN
                                                                    r.track))
                                                                    (app
                                                                    (kv
                                                                    (String
                                                                    ((Ascii
                                                                    (false,
                                                                    false,
                                                                    true,
                                                                    false,
                                                                    true,
                                                                    true,
                                                                    true,
                                                                    false)),
                                                                    (String
                                                                    ((Ascii
                                                                    (false,
                                                                    true,
                                                                    false,
                                                                    false,
                                                                    true,
                                                                    true,
                                                                    true,
                                                                    false)),
                                                                    (String
                                                                    ((Ascii
                                                                    (true,
                                                                    true,
                                                                    false,
                                                                    true,
                                                                    false,
                                                                    true,
                                                                    true,
                                                                    false)),
                                                                    (String
                                                                    ((Ascii
                                                                    (true,
                                                                    true,
                                                                    false,
                                                                    false,
                                                                    true,
                                                                    true,
                                                                    true,
                                                                    false)),
                                                                    EmptyString))))))))
                                                                    (dec
                                                                    r.track_source))
                                                                    (app
                                                                    (kv
                                                                    (String
                                                                    ((Ascii
                                                                    (false,
                                                                    false,
                                                                    false,
                                                                    true,
                                                                    false,
                                                                    true,
                                                                    true,
                                                                    false)),
                                                                    (String
                                                                    ((Ascii
                                                                    (false,
                                                                    false,
                                                                    true,
                                                                    false,
                                                                    false,
                                                                    true,
                                                                    true,
                                                                    false)),
                                                                    (String
                                                                    ((Ascii
                                                                    (true,
                                                                    true,
                                                                    true,
                                                                    false,
                                                                    false,
                                                                    true,
                                                                    true,
                                                                    false)),
                                                                    EmptyString))))))
                                                                    (oN
                                                                    r.r_heading))
                                                                    (app
                                                                    (kv
                                                                    (String
                                                                    ((Ascii
                                                                    (false,
                                                                    false,
                                                                    false,
                                                                    true,
                                                                    false,
                                                                    true,
                                                                    true,
                                                                    false)),
                                                                    (String
                                                                    ((Ascii
                                                                    (false,
                                                                    false,
                                                                    true,
                                                                    false,
                                                                    false,
                                                                    true,
                                                                    true,
                                                                    false)),
                                                                    (String
                                                                    ((Ascii
                                                                    (true,
                                                                    true,
                                                                    true,
                                                                    false,
                                                                    false,
                                                                    true,
                                                                    true,
                                                                    false)),
                                                                    (String
                                                                    ((Ascii
                                                                    (true,
                                                                    true,
                                                                    false,
                                                                    false,
                                                                    true,
                                                                    true,
                                                                    true,
                                                                    false)),
                                                                    EmptyString))))))))
                                                                    (dec
                                                                    r.heading_source))
                                                                    (app
                                                                    (kv
                                                                    (String
                                                                    ((Ascii
                                                                    (false,
                                                                    true,
                                                                    false,
                                                                    false,
                                                                    true,
                                                                    true,
                                                                    true,
                                                                    false)),
                                                                    (String
                                                                    ((Ascii
                                                                    (true,
                                                                    true,
                                                                    true,
                                                                    true,
                                                                    false,
                                                                    true,
                                                                    true,
                                                                    false)),
                                                                    (String
                                                                    ((Ascii
                                                                    (false,
                                                                    false,
                                                                    true,
                                                                    true,
                                                                    false,
                                                                    true,
                                                                    true,
                                                                    false)),
                                                                    (String
                                                                    ((Ascii
                                                                    (false,
                                                                    false,
                                                                    true,
                                                                    true,
                                                                    false,
                                                                    true,
                                                                    true,
                                                                    false)),
                                                                    EmptyString))))))))
                                                                    (oZ
                                                                    r.roll_angle))
                                                                    (app
                                                                    (kv
                                                                    (String
                                                                    ((Ascii
                                                                    (false,
                                                                    false,
                                                                    true,
                                                                    false,
                                                                    true,
                                                                    true,
                                                                    true,
                                                                    false)),
                                                                    (String
                                                                    ((Ascii
                                                                    (true,
                                                                    false,
                                                                    false,
                                                                    false,
                                                                    false,
                                                                    true,
                                                                    true,
                                                                    false)),
                                                                    (String
                                                                    ((Ascii
                                                                    (false,
                                                                    true,
                                                                    false,
                                                                    false,
                                                                    true,
                                                                    true,
                                                                    true,
                                                                    false)),
                                                                    EmptyString))))))
                                                                    (oZ
                                                                    r.track_angle_rate))
                                                                    (app
                                                                    (kv
                                                                    (String
                                                                    ((Ascii
                                                                    (false,
                                                                    true,
                                                                    false,
                                                                    false,
                                                                    false,
                                                                    true,
                                                                    true,
                                                                    false)),
                                                                    (String
                                                                    ((Ascii
                                                                    (true,
                                                                    false,
                                                                    true,
                                                                    false,
                                                                    true,
                                                                    true,
                                                                    false,
                                                                    false)),
                                                                    (String
                                                                    ((Ascii
                                                                    (false,
                                                                    false,
                                                                    true,
                                                                    false,
                                                                    true,
                                                                    true,
                                                                    true,
                                                                    false)),
                                                                    EmptyString))))))
                                                                    (oage now
                                                                    r.bds50_t))
                                                                    (app
                                                                    (kv
                                                                    (String
                                                                    ((Ascii
                                                                    (false,
                                                                    false,
                                                                    true,
                                                                    false,
                                                                    true,
                                                                    true,
                                                                    true,
                                                                    false)),
                                                                    (String
                                                                    ((Ascii
                                                                    (true,
                                                                    false,
                                                                    true,
                                                                    false,
                                                                    false,
                                                                    true,
                                                                    true,
                                                                    false)),
                                                                    (String
                                                                    ((Ascii
                                                                    (true,
                                                                    false,
                                                                    true,
                                                                    true,
                                                                    false,
                                                                    true,
                                                                    true,
                                                                    false)),
                                                                    (String
                                                                    ((Ascii
                                                                    (false,
                                                                    false,
                                                                    false,
                                                                    false,
                                                                    true,
                                                                    true,
                                                                    true,
                                                                    false)),
                                                                    EmptyString))))))))
                                                                    (oQ
                                                                    r.temperature))
                                                                    (app
                                                                    (kv
                                                                    (String
                                                                    ((Ascii
                                                                    (true,
                                                                    true,
                                                                    true,
                                                                    false,
                                                                    true,
                                                                    true,
                                                                    true,
                                                                    false)),
                                                                    (String
                                                                    ((Ascii
                                                                    (true,
                                                                    false,
                                                                    false,
                                                                    true,
                                                                    false,
                                                                    true,
                                                                    true,
                                                                    false)),
                                                                    (String
                                                                    ((Ascii
                                                                    (false,
                                                                    true,
                                                                    true,
                                                                    true,
                                                                    false,
                                                                    true,
                                                                    true,
                                                                    false)),
                                                                    (String
                                                                    ((Ascii
                                                                    (false,
                                                                    false,
                                                                    true,
                                                                    false,
                                                                    false,
                                                                    true,
                                                                    true,
                                                                    false)),
                                                                    EmptyString))))))))
                                                                    (match r.wind with
                                                                    | Some p ->
                                                                    let (
                                                                    a, b) = p
                                                                    in
                                                                    app
                                                                    (dec a)
                                                                    (app
                                                                    ((Npos
                                                                    (XO (XI
                                                                    (XI (XI
                                                                    (XO
                                                                    XH)))))) :: [])
                                                                    (dec b))
                                                                    | None ->
                                                                    (Npos (XI
                                                                    (XO (XI
                                                                    (XI (XO
                                                                    XH)))))) :: []))
                                                                    (app
                                                                    (kv
                                                                    (String
                                                                    ((Ascii
                                                                    (false,
                                                                    false,
                                                                    true,
                                                                    false,
                                                                    true,
                                                                    true,
                                                                    true,
                                                                    false)),
                                                                    (String
                                                                    ((Ascii
                                                                    (true,
                                                                    false,
                                                                    true,
                                                                    false,
                                                                    true,
                                                                    true,
                                                                    true,
                                                                    false)),
                                                                    (String
                                                                    ((Ascii
                                                                    (false,
                                                                    true,
                                                                    false,
                                                                    false,
                                                                    true,
                                                                    true,
                                                                    true,
                                                                    false)),
                                                                    (String
                                                                    ((Ascii
                                                                    (false,
                                                                    true,
                                                                    false,
                                                                    false,
                                                                    false,
                                                                    true,
                                                                    true,
                                                                    false)),
                                                                    EmptyString))))))))
                                                                    (oN
                                                                    r.turbulence))
                                                                    (app
                                                                    (kv
                                                                    (String
                                                                    ((Ascii
                                                                    (false,
                                                                    false,
                                                                    false,
                                                                    true,
                                                                    false,
                                                                    true,
                                                                    true,
                                                                    false)),
                                                                    (String
                                                                    ((Ascii
                                                                    (true,
                                                                    false,
                                                                    true,
                                                                    false,
                                                                    true,
                                                                    true,
                                                                    true,
                                                                    false)),
                                                                    (String
                                                                    ((Ascii
                                                                    (true,
                                                                    false,
                                                                    true,
                                                                    true,
                                                                    false,
                                                                    true,
                                                                    true,
                                                                    false)),
                                                                    EmptyString))))))
                                                                    (oN
                                                                    r.humidity))
                                                                    (app
                                                                    (kv
                                                                    (String
                                                                    ((Ascii
                                                                    (false,
                                                                    false,
                                                                    false,
                                                                    false,
                                                                    true,
                                                                    true,
                                                                    true,
                                                                    false)),
                                                                    (String
                                                                    ((Ascii
                                                                    (false,
                                                                    true,
                                                                    false,
                                                                    false,
                                                                    true,
                                                                    true,
                                                                    true,
                                                                    false)),
                                                                    (String
                                                                    ((Ascii
                                                                    (true,
                                                                    false,
                                                                    true,
                                                                    false,
                                                                    false,
                                                                    true,
                                                                    true,
                                                                    false)),
                                                                    (String
                                                                    ((Ascii
                                                                    (true,
                                                                    true,
                                                                    false,
                                                                    false,
                                                                    true,
                                                                    true,
                                                                    true,
                                                                    false)),
                                                                    EmptyString))))))))
                                                                    (oN
                                                                    r.pressure))
                                                                    (app
                                                                    (kv
                                                                    (String
                                                                    ((Ascii
                                                                    (false,
                                                                    false,
                                                                    true,
                                                                    false,
                                                                    true,
                                                                    true,
                                                                    true,
                                                                    false)),
                                                                    (String
                                                                    ((Ascii
                                                                    (true,
                                                                    true,
                                                                    false,
                                                                    false,
                                                                    true,
                                                                    true,
                                                                    true,
                                                                    false)),
                                                                    EmptyString))))
                                                                    (age now
                                                                    r.timestamp))
                                                                    (app
                                                                    (kv
                                                                    (String
                                                                    ((Ascii
                                                                    (false,
                                                                    false,
                                                                    false,
                                                                    false,
                                                                    true,
                                                                    true,
                                                                    true,
                                                                    false)),
                                                                    (String
                                                                    ((Ascii
                                                                    (false,
                                                                    false,
                                                                    true,
                                                                    false,
                                                                    true,
                                                                    true,
                                                                    true,
                                                                    false)),
                                                                    EmptyString))))
                                                                    (oage now
                                                                    r.position_t))
                                                                    (app
                                                                    (kv
                                                                    (String
                                                                    ((Ascii
                                                                    (false,
                                                                    false,
                                                                    true,
                                                                    false,
                                                                    true,
                                                                    true,
                                                                    true,
                                                                    false)),
                                                                    (String
                                                                    ((Ascii
                                                                    (false,
                                                                    false,
                                                                    true,
                                                                    false,
                                                                    true,
                                                                    true,
                                                                    true,
                                                                    false)),
                                                                    EmptyString))))
                                                                    (oage now
                                                                    r.track_t))
                                                                    (app
                                                                    (kv
                                                                    (String
                                                                    ((Ascii
                                                                    (false,
                                                                    false,
                                                                    false,
                                                                    true,
                                                                    false,
                                                                    true,
                                                                    true,
                                                                    false)),
                                                                    (String
                                                                    ((Ascii
                                                                    (false,
                                                                    false,
                                                                    true,
                                                                    false,
                                                                    true,
                                                                    true,
                                                                    true,
                                                                    false)),
                                                                    EmptyString))))
                                                                    (oage now
                                                                    r.heading_t))
                                                                    (app
                                                                    (kv
                                                                    (String
                                                                    ((Ascii
                                                                    (false,
                                                                    false,
                                                                    true,
                                                                    true,
                                                                    false,
                                                                    true,
                                                                    true,
                                                                    false)),
                                                                    (String
                                                                    ((Ascii
                                                                    (false,
                                                                    false,
                                                                    true,
                                                                    false,
                                                                    true,
                                                                    true,
                                                                    true,
                                                                    false)),
                                                                    (String
                                                                    ((Ascii
                                                                    (true,
                                                                    true,
                                                                    false,
                                                                    false,
                                                                    false,
                                                                    true,
                                                                    true,
                                                                    false)),
                                                                    EmptyString))))))
                                                                    (dec
                                                                    r.last_tc))
                                                                    (app
                                                                    (kv
                                                                    (String
                                                                    ((Ascii
                                                                    (false,
                                                                    false,
                                                                    true,
                                                                    true,
                                                                    false,
                                                                    true,
                                                                    true,
                                                                    false)),
                                                                    (String
                                                                    ((Ascii
                                                                    (false,
                                                                    false,
                                                                    true,
                                                                    false,
                                                                    false,
                                                                    true,
                                                                    true,
                                                                    false)),
                                                                    (String
                                                                    ((Ascii
                                                                    (false,
                                                                    true,
                                                                    true,
                                                                    false,
                                                                    false,
                                                                    true,
                                                                    true,
                                                                    false)),
                                                                    EmptyString))))))
                                                                    (dec
                                                                    r.last_df))
                                                                    (app
                                                                    (str
                                                                    (String
                                                                    ((Ascii
                                                                    (false,
                                                                    true,
                                                                    true,
                                                                    false,
                                                                    true,
                                                                    true,
                                                                    true,
                                                                    false)),
                                                                    (String
                                                                    ((Ascii
                                                                    (true,
                                                                    false,
                                                                    true,
                                                                    false,
                                                                    false,
                                                                    true,
                                                                    true,
                                                                    false)),
                                                                    (String
                                                                    ((Ascii
                                                                    (false,
                                                                    true,
                                                                    false,
                                                                    false,
                                                                    true,
                                                                    true,
                                                                    true,
                                                                    false)),
                                                                    (String
                                                                    ((Ascii
                                                                    (true,
                                                                    false,
                                                                    true,
                                                                    true,
                                                                    true,
                                                                    true,
                                                                    false,
                                                                    false)),
                                                                    EmptyString)))))))))
                                                                    (oN
                                                                    r.adsb_version)))))))))))))))))))))))))))))))))))))))))))))))))))))

(** val insert_sorted : (n * row) -> table -> table **)

let rec insert_sorted x l = match l with
| [] -> x :: []
| y :: t -> if N.leb (fst x) (fst y) then x :: l else y :: (insert_sorted x t)

(** val sort_table : table -> table **)

let sort_table t =
  fold_right insert_sorted [] t

(** val join : bytes -> bytes list -> bytes **)

let rec join sep = function
| [] -> []
| x :: t -> (match t with
             | [] -> x
             | _ :: _ -> app x (app sep (join sep t)))

(** val dump_table : z -> table -> bytes **)

let dump_table now t =
  join ((Npos (XO (XO (XI (XI (XI (XI XH))))))) :: [])
    (map (fun pat ->
      let (k, r) = pat in
      app
        (kv (String ((Ascii (true, true, false, true, false, true, true,
          false)), (String ((Ascii (true, false, true, false, false, true,
          true, false)), (String ((Ascii (true, false, false, true, true,
          true, true, false)), EmptyString)))))) (hex6 k)) (dump_row now r))
      (sort_table t))

(** val split_on : n -> bytes -> bytes -> bytes list **)

let rec split_on sep l cur =
  match l with
  | [] -> (rev_append cur []) :: []
  | b :: t ->
    if N.eqb b sep
    then (rev_append cur []) :: (split_on sep t [])
    else split_on sep t (b :: cur)

(** val split : n -> bytes -> bytes list **)

let split sep l =
  split_on sep l []

(** val hexv : n -> n **)

let hexv b =
  match hexval b with
  | Some v -> v
  | None -> N0

(** val unhex : bytes -> bytes **)

let rec unhex = function
| [] -> []
| a :: l0 ->
  (match l0 with
   | [] -> []
   | b :: t ->
     (N.add (N.mul (hexv a) (Npos (XO (XO (XO (XO XH)))))) (hexv b)) :: 
       (unhex t))

(** val parse_dec : bytes -> n **)

let parse_dec l =
  fold_left (fun a b ->
    N.add (N.mul a (Npos (XO (XI (XO XH)))))
      (N.sub b (Npos (XO (XO (XO (XO (XI XH)))))))) l N0

(** val parse_z : bytes -> z **)

let parse_z l = match l with
| [] -> Z.of_N (parse_dec l)
| n0 :: t ->
  (match n0 with
   | N0 -> Z.of_N (parse_dec l)
   | Npos p ->
     (match p with
      | XI p0 ->
        (match p0 with
         | XO p1 ->
           (match p1 with
            | XI p2 ->
              (match p2 with
               | XI p3 ->
                 (match p3 with
                  | XO p4 ->
                    (match p4 with
                     | XH -> Z.opp (Z.of_N (parse_dec t))
                     | _ -> Z.of_N (parse_dec l))
                  | _ -> Z.of_N (parse_dec l))
               | _ -> Z.of_N (parse_dec l))
            | _ -> Z.of_N (parse_dec l))
         | _ -> Z.of_N (parse_dec l))
      | _ -> Z.of_N (parse_dec l)))

(** val is_digit : n -> bool **)

let is_digit b =
  (&&) (N.leb (Npos (XO (XO (XO (XO (XI XH)))))) b)
    (N.leb b (Npos (XI (XO (XO (XI (XI XH)))))))

(** val parse_q : bytes -> q option **)

let parse_q l = match l with
| [] ->
  let neg = false in
  (match split (Npos (XO (XI (XI (XI (XO XH)))))) l with
   | [] -> None
   | ip :: l0 ->
     (match l0 with
      | [] ->
        if (&&) (forallb is_digit ip) (negb (Nat.eqb (length ip) O))
        then Some { qnum =
               (if neg
                then Z.opp (Z.of_N (parse_dec ip))
                else Obj.magic id (Z.of_N (parse_dec ip))); qden = XH }
        else None
      | fp :: l1 ->
        (match l1 with
         | [] ->
           if (&&) ((&&) (forallb is_digit ip) (forallb is_digit fp))
                (negb (Nat.eqb (add (length ip) (length fp)) O))
           then Some { qnum =
                  (if neg
                   then Z.opp (Z.of_N (parse_dec (app ip fp)))
                   else Obj.magic id (Z.of_N (parse_dec (app ip fp))));
                  qden =
                  (Z.to_pos
                    (Z.pow (Zpos (XO (XI (XO XH)))) (Z.of_nat (length fp)))) }
           else None
         | _ :: _ -> None)))
| n0 :: t ->
  (match n0 with
   | N0 ->
     let neg = false in
     (match split (Npos (XO (XI (XI (XI (XO XH)))))) l with
      | [] -> None
      | ip :: l0 ->
        (match l0 with
         | [] ->
           if (&&) (forallb is_digit ip) (negb (Nat.eqb (length ip) O))
           then Some { qnum =
                  (if neg
                   then Z.opp (Z.of_N (parse_dec ip))
                   else Obj.magic id (Z.of_N (parse_dec ip))); qden = XH }
           else None
         | fp :: l1 ->
           (match l1 with
            | [] ->
              if (&&) ((&&) (forallb is_digit ip) (forallb is_digit fp))
                   (negb (Nat.eqb (add (length ip) (length fp)) O))
              then Some { qnum =
                     (if neg
                      then Z.opp (Z.of_N (parse_dec (app ip fp)))
                      else Obj.magic id (Z.of_N (parse_dec (app ip fp))));
                     qden =
                     (Z.to_pos
                       (Z.pow (Zpos (XO (XI (XO XH)))) (Z.of_nat (length fp)))) }
              else None
            | _ :: _ -> None)))
   | Npos p ->
     (match p with
      | XI p0 ->
        (match p0 with
         | XI p1 ->
           (match p1 with
            | XO p2 ->
              (match p2 with
               | XI p3 ->
                 (match p3 with
                  | XO p4 ->
                    (match p4 with
                     | XH ->
                       let neg = false in
                       (match split (Npos (XO (XI (XI (XI (XO XH)))))) t with
                        | [] -> None
                        | ip :: l0 ->
                          (match l0 with
                           | [] ->
                             if (&&) (forallb is_digit ip)
                                  (negb (Nat.eqb (length ip) O))
                             then Some { qnum =
                                    (if neg
                                     then Z.opp (Z.of_N (parse_dec ip))
                                     else Obj.magic id (Z.of_N (parse_dec ip)));
                                    qden = XH }
                             else None
                           | fp :: l1 ->
                             (match l1 with
                              | [] ->
                                if (&&)
                                     ((&&) (forallb is_digit ip)
                                       (forallb is_digit fp))
                                     (negb
                                       (Nat.eqb (add (length ip) (length fp))
                                         O))
                                then Some { qnum =
                                       (if neg
                                        then Z.opp
                                               (Z.of_N
                                                 (parse_dec (app ip fp)))
                                        else Obj.magic id
                                               (Z.of_N
                                                 (parse_dec (app ip fp))));
                                       qden =
                                       (Z.to_pos
                                         (Z.pow (Zpos (XO (XI (XO XH))))
                                           (Z.of_nat (length fp)))) }
                                else None
                              | _ :: _ -> None)))
                     | _ ->
                       let neg = false in
                       (match split (Npos (XO (XI (XI (XI (XO XH)))))) l with
                        | [] -> None
                        | ip :: l0 ->
                          (match l0 with
                           | [] ->
                             if (&&) (forallb is_digit ip)
                                  (negb (Nat.eqb (length ip) O))
                             then Some { qnum =
                                    (if neg
                                     then Z.opp (Z.of_N (parse_dec ip))
                                     else Obj.magic id (Z.of_N (parse_dec ip)));
                                    qden = XH }
                             else None
                           | fp :: l1 ->
                             (match l1 with
                              | [] ->
                                if (&&)
                                     ((&&) (forallb is_digit ip)
                                       (forallb is_digit fp))
                                     (negb
                                       (Nat.eqb (add (length ip) (length fp))
                                         O))
                                then Some { qnum =
                                       (if neg
                                        then Z.opp
                                               (Z.of_N
                                                 (parse_dec (app ip fp)))
                                        else Obj.magic id
                                               (Z.of_N
                                                 (parse_dec (app ip fp))));
                                       qden =
                                       (Z.to_pos
                                         (Z.pow (Zpos (XO (XI (XO XH))))
                                           (Z.of_nat (length fp)))) }
                                else None
                              | _ :: _ -> None))))
                  | _ ->
                    let neg = false in
                    (match split (Npos (XO (XI (XI (XI (XO XH)))))) l with
                     | [] -> None
                     | ip :: l0 ->
                       (match l0 with
                        | [] ->
                          if (&&) (forallb is_digit ip)
                               (negb (Nat.eqb (length ip) O))
                          then Some { qnum =
                                 (if neg
                                  then Z.opp (Z.of_N (parse_dec ip))
                                  else Obj.magic id (Z.of_N (parse_dec ip)));
                                 qden = XH }
                          else None
                        | fp :: l1 ->
                          (match l1 with
                           | [] ->
                             if (&&)
                                  ((&&) (forallb is_digit ip)
                                    (forallb is_digit fp))
                                  (negb
                                    (Nat.eqb (add (length ip) (length fp)) O))
                             then Some { qnum =
                                    (if neg
                                     then Z.opp
                                            (Z.of_N (parse_dec (app ip fp)))
                                     else Obj.magic id
                                            (Z.of_N (parse_dec (app ip fp))));
                                    qden =
                                    (Z.to_pos
                                      (Z.pow (Zpos (XO (XI (XO XH))))
                                        (Z.of_nat (length fp)))) }
                             else None
                           | _ :: _ -> None))))
               | _ ->
                 let neg = false in
                 (match split (Npos (XO (XI (XI (XI (XO XH)))))) l with
                  | [] -> None
                  | ip :: l0 ->
                    (match l0 with
                     | [] ->
                       if (&&) (forallb is_digit ip)
                            (negb (Nat.eqb (length ip) O))
                       then Some { qnum =
                              (if neg
                               then Z.opp (Z.of_N (parse_dec ip))
                               else Obj.magic id (Z.of_N (parse_dec ip)));
                              qden = XH }
                       else None
                     | fp :: l1 ->
                       (match l1 with
                        | [] ->
                          if (&&)
                               ((&&) (forallb is_digit ip)
                                 (forallb is_digit fp))
                               (negb
                                 (Nat.eqb (add (length ip) (length fp)) O))
                          then Some { qnum =
                                 (if neg
                                  then Z.opp (Z.of_N (parse_dec (app ip fp)))
                                  else Obj.magic id
                                         (Z.of_N (parse_dec (app ip fp))));
                                 qden =
                                 (Z.to_pos
                                   (Z.pow (Zpos (XO (XI (XO XH))))
                                     (Z.of_nat (length fp)))) }
                          else None
                        | _ :: _ -> None))))
            | _ ->
              let neg = false in
              (match split (Npos (XO (XI (XI (XI (XO XH)))))) l with
               | [] -> None
               | ip :: l0 ->
                 (match l0 with
                  | [] ->
                    if (&&) (forallb is_digit ip)
                         (negb (Nat.eqb (length ip) O))
                    then Some { qnum =
                           (if neg
                            then Z.opp (Z.of_N (parse_dec ip))
                            else Obj.magic id (Z.of_N (parse_dec ip)));
                           qden = XH }
                    else None
                  | fp :: l1 ->
                    (match l1 with
                     | [] ->
                       if (&&)
                            ((&&) (forallb is_digit ip) (forallb is_digit fp))
                            (negb (Nat.eqb (add (length ip) (length fp)) O))
                       then Some { qnum =
                              (if neg
                               then Z.opp (Z.of_N (parse_dec (app ip fp)))
                               else Obj.magic id
                                      (Z.of_N (parse_dec (app ip fp))));
                              qden =
                              (Z.to_pos
                                (Z.pow (Zpos (XO (XI (XO XH))))
                                  (Z.of_nat (length fp)))) }
                       else None
                     | _ :: _ -> None))))
         | XO p1 ->
           (match p1 with
            | XI p2 ->
              (match p2 with
               | XI p3 ->
                 (match p3 with
                  | XO p4 ->
                    (match p4 with
                     | XH ->
                       let neg = true in
                       (match split (Npos (XO (XI (XI (XI (XO XH)))))) t with
                        | [] -> None
                        | ip :: l0 ->
                          (match l0 with
                           | [] ->
                             if (&&) (forallb is_digit ip)
                                  (negb (Nat.eqb (length ip) O))
                             then Some { qnum =
                                    (if neg
                                     then Z.opp (Z.of_N (parse_dec ip))
                                     else Obj.magic id (Z.of_N (parse_dec ip)));
                                    qden = XH }
                             else None
                           | fp :: l1 ->
                             (match l1 with
                              | [] ->
                                if (&&)
                                     ((&&) (forallb is_digit ip)
                                       (forallb is_digit fp))
                                     (negb
                                       (Nat.eqb (add (length ip) (length fp))
                                         O))
                                then Some { qnum =
                                       (if neg
                                        then Z.opp
                                               (Z.of_N
                                                 (parse_dec (app ip fp)))
                                        else Obj.magic id
                                               (Z.of_N
                                                 (parse_dec (app ip fp))));
                                       qden =
                                       (Z.to_pos
                                         (Z.pow (Zpos (XO (XI (XO XH))))
                                           (Z.of_nat (length fp)))) }
                                else None
                              | _ :: _ -> None)))
                     | _ ->
                       let neg = false in
                       (match split (Npos (XO (XI (XI (XI (XO XH)))))) l with
                        | [] -> None
                        | ip :: l0 ->
                          (match l0 with
                           | [] ->
                             if (&&) (forallb is_digit ip)
                                  (negb (Nat.eqb (length ip) O))
                             then Some { qnum =
                                    (if neg
                                     then Z.opp (Z.of_N (parse_dec ip))
                                     else Obj.magic id (Z.of_N (parse_dec ip)));
                                    qden = XH }
                             else None
                           | fp :: l1 ->
                             (match l1 with
                              | [] ->
                                if (&&)
                                     ((&&) (forallb is_digit ip)
                                       (forallb is_digit fp))
                                     (negb
                                       (Nat.eqb (add (length ip) (length fp))
                                         O))
                                then Some { qnum =
                                       (if neg
                                        then Z.opp
                                               (Z.of_N
                                                 (parse_dec (app ip fp)))
                                        else Obj.magic id
                                               (Z.of_N
                                                 (parse_dec (app ip fp))));
                                       qden =
                                       (Z.to_pos
                                         (Z.pow (Zpos (XO (XI (XO XH))))
                                           (Z.of_nat (length fp)))) }
                                else None
                              | _ :: _ -> None))))
                  | _ ->
                    let neg = false in
                    (match split (Npos (XO (XI (XI (XI (XO XH)))))) l with
                     | [] -> None
                     | ip :: l0 ->
                       (match l0 with
                        | [] ->
                          if (&&) (forallb is_digit ip)
                               (negb (Nat.eqb (length ip) O))
                          then Some { qnum =
                                 (if neg
                                  then Z.opp (Z.of_N (parse_dec ip))
                                  else Obj.magic id (Z.of_N (parse_dec ip)));
                                 qden = XH }
                          else None
                        | fp :: l1 ->
                          (match l1 with
                           | [] ->
                             if (&&)
                                  ((&&) (forallb is_digit ip)
                                    (forallb is_digit fp))
                                  (negb
                                    (Nat.eqb (add (length ip) (length fp)) O))
                             then Some { qnum =
                                    (if neg
                                     then Z.opp
                                            (Z.of_N (parse_dec (app ip fp)))
                                     else Obj.magic id
                                            (Z.of_N (parse_dec (app ip fp))));
                                    qden =
                                    (Z.to_pos
                                      (Z.pow (Zpos (XO (XI (XO XH))))
                                        (Z.of_nat (length fp)))) }
                             else None
                           | _ :: _ -> None))))
               | _ ->
                 let neg = false in
                 (match split (Npos (XO (XI (XI (XI (XO XH)))))) l with
                  | [] -> None
                  | ip :: l0 ->
                    (match l0 with
                     | [] ->
                       if (&&) (forallb is_digit ip)
                            (negb (Nat.eqb (length ip) O))
                       then Some { qnum =
                              (if neg
                               then Z.opp (Z.of_N (parse_dec ip))
                               else Obj.magic id (Z.of_N (parse_dec ip)));
                              qden = XH }
                       else None
                     | fp :: l1 ->
                       (match l1 with
                        | [] ->
                          if (&&)
                               ((&&) (forallb is_digit ip)
                                 (forallb is_digit fp))
                               (negb
                                 (Nat.eqb (add (length ip) (length fp)) O))
                          then Some { qnum =
                                 (if neg
                                  then Z.opp (Z.of_N (parse_dec (app ip fp)))
                                  else Obj.magic id
                                         (Z.of_N (parse_dec (app ip fp))));
                                 qden =
                                 (Z.to_pos
                                   (Z.pow (Zpos (XO (XI (XO XH))))
                                     (Z.of_nat (length fp)))) }
                          else None
                        | _ :: _ -> None))))
            | _ ->
              let neg = false in
              (match split (Npos (XO (XI (XI (XI (XO XH)))))) l with
               | [] -> None
               | ip :: l0 ->
                 (match l0 with
                  | [] ->
                    if (&&) (forallb is_digit ip)
                         (negb (Nat.eqb (length ip) O))
                    then Some { qnum =
                           (if neg
                            then Z.opp (Z.of_N (parse_dec ip))
                            else Obj.magic id (Z.of_N (parse_dec ip)));
                           qden = XH }
                    else None
                  | fp :: l1 ->
                    (match l1 with
                     | [] ->
                       if (&&)
                            ((&&) (forallb is_digit ip) (forallb is_digit fp))
                            (negb (Nat.eqb (add (length ip) (length fp)) O))
                       then Some { qnum =
                              (if neg
                               then Z.opp (Z.of_N (parse_dec (app ip fp)))
                               else Obj.magic id
                                      (Z.of_N (parse_dec (app ip fp))));
                              qden =
                              (Z.to_pos
                                (Z.pow (Zpos (XO (XI (XO XH))))
                                  (Z.of_nat (length fp)))) }
                       else None
                     | _ :: _ -> None))))
         | XH ->
           let neg = false in
           (match split (Npos (XO (XI (XI (XI (XO XH)))))) l with
            | [] -> None
            | ip :: l0 ->
              (match l0 with
               | [] ->
                 if (&&) (forallb is_digit ip) (negb (Nat.eqb (length ip) O))
                 then Some { qnum =
                        (if neg
                         then Z.opp (Z.of_N (parse_dec ip))
                         else Obj.magic id (Z.of_N (parse_dec ip))); qden =
                        XH }
                 else None
               | fp :: l1 ->
                 (match l1 with
                  | [] ->
                    if (&&)
                         ((&&) (forallb is_digit ip) (forallb is_digit fp))
                         (negb (Nat.eqb (add (length ip) (length fp)) O))
                    then Some { qnum =
                           (if neg
                            then Z.opp (Z.of_N (parse_dec (app ip fp)))
                            else Obj.magic id (Z.of_N (parse_dec (app ip fp))));
                           qden =
                           (Z.to_pos
                             (Z.pow (Zpos (XO (XI (XO XH))))
                               (Z.of_nat (length fp)))) }
                    else None
                  | _ :: _ -> None))))
      | _ ->
        let neg = false in
        (match split (Npos (XO (XI (XI (XI (XO XH)))))) l with
         | [] -> None
         | ip :: l0 ->
           (match l0 with
            | [] ->
              if (&&) (forallb is_digit ip) (negb (Nat.eqb (length ip) O))
              then Some { qnum =
                     (if neg
                      then Z.opp (Z.of_N (parse_dec ip))
                      else Obj.magic id (Z.of_N (parse_dec ip))); qden = XH }
              else None
            | fp :: l1 ->
              (match l1 with
               | [] ->
                 if (&&) ((&&) (forallb is_digit ip) (forallb is_digit fp))
                      (negb (Nat.eqb (add (length ip) (length fp)) O))
                 then Some { qnum =
                        (if neg
                         then Z.opp (Z.of_N (parse_dec (app ip fp)))
                         else Obj.magic id (Z.of_N (parse_dec (app ip fp))));
                        qden =
                        (Z.to_pos
                          (Z.pow (Zpos (XO (XI (XO XH))))
                            (Z.of_nat (length fp)))) }
                 else None
               | _ :: _ -> None)))))

(** val is_ws : n -> bool **)

let is_ws b =
  (||) (N.eqb b (Npos (XO (XO (XO (XO (XO XH)))))))
    ((&&) (N.leb (Npos (XI (XO (XO XH)))) b)
      (N.leb b (Npos (XI (XO (XI XH))))))

(** val parse_observer : bytes -> (q * q) option **)

let parse_observer s =
  match split (Npos (XO (XO (XI (XI (XO XH)))))) s with
  | [] -> None
  | a :: l ->
    (match l with
     | [] -> None
     | b :: l0 ->
       (match l0 with
        | [] ->
          (match parse_q (filter (fun c -> negb (is_ws c)) a) with
           | Some la ->
             (match parse_q (filter (fun c -> negb (is_ws c)) b) with
              | Some lo -> Some (la, lo)
              | None -> None)
           | None -> None)
        | _ :: _ -> None))

(** val opts_default : opts **)

let opts_default =
  { use_update = false; relaxed = false; filter_df = None; count_df = false;
    display_info = ((Npos (XI (XO (XO (XO (XI (XO XH))))))) :: []);
    order_by = []; update_s = (Zpos (XI XH)); delete_after = (Zpos (XO (XO
    (XI (XI (XI XH)))))); observer = None }

(** val parse_opt : opts -> bytes -> opts **)

let parse_opt o kvp =
  match split (Npos (XI (XO (XI (XI (XI XH)))))) kvp with
  | [] -> o
  | k :: l ->
    (match l with
     | [] -> o
     | v :: l0 ->
       (match l0 with
        | [] ->
          let on =
            match v with
            | [] -> false
            | n0 :: l1 ->
              (match n0 with
               | N0 -> false
               | Npos p ->
                 (match p with
                  | XI p0 ->
                    (match p0 with
                     | XO p1 ->
                       (match p1 with
                        | XO p2 ->
                          (match p2 with
                           | XO p3 ->
                             (match p3 with
                              | XI p4 ->
                                (match p4 with
                                 | XH ->
                                   (match l1 with
                                    | [] -> true
                                    | _ :: _ -> false)
                                 | _ -> false)
                              | _ -> false)
                           | _ -> false)
                        | _ -> false)
                     | _ -> false)
                  | _ -> false))
          in
          (match k with
           | [] -> o
           | n0 :: l1 ->
             (match n0 with
              | N0 -> o
              | Npos p ->
                (match p with
                 | XI p0 ->
                   (match p0 with
                    | XI p1 ->
                      (match p1 with
                       | XI p2 ->
                         (match p2 with
                          | XI p3 ->
                            (match p3 with
                             | XO p4 ->
                               (match p4 with
                                | XI p5 ->
                                  (match p5 with
                                   | XH ->
                                     (match l1 with
                                      | [] ->
                                        { use_update = o.use_update;
                                          relaxed = o.relaxed; filter_df =
                                          o.filter_df; count_df = o.count_df;
                                          display_info = o.display_info;
                                          order_by =
                                          (split (Npos (XI (XI (XO (XI (XO
                                            XH)))))) v); update_s =
                                          o.update_s; delete_after =
                                          o.delete_after; observer =
                                          o.observer }
                                      | _ :: _ -> o)
                                   | _ -> o)
                                | XO p5 ->
                                  (match p5 with
                                   | XH ->
                                     (match l1 with
                                      | [] ->
                                        { use_update = o.use_update;
                                          relaxed = o.relaxed; filter_df =
                                          o.filter_df; count_df = o.count_df;
                                          display_info = o.display_info;
                                          order_by = o.order_by; update_s =
                                          o.update_s; delete_after =
                                          o.delete_after; observer =
                                          (parse_observer (unhex v)) }
                                      | _ :: _ -> o)
                                   | _ -> o)
                                | XH -> o)
                             | _ -> o)
                          | _ -> o)
                       | XO p2 ->
                         (match p2 with
                          | XO p3 ->
                            (match p3 with
                             | XO p4 ->
                               (match p4 with
                                | XI p5 ->
                                  (match p5 with
                                   | XH ->
                                     (match l1 with
                                      | [] ->
                                        { use_update = o.use_update;
                                          relaxed = o.relaxed; filter_df =
                                          o.filter_df; count_df = on;
                                          display_info = o.display_info;
                                          order_by = o.order_by; update_s =
                                          o.update_s; delete_after =
                                          o.delete_after; observer =
                                          o.observer }
                                      | _ :: _ -> o)
                                   | _ -> o)
                                | _ -> o)
                             | _ -> o)
                          | _ -> o)
                       | XH -> o)
                    | XO p1 ->
                      (match p1 with
                       | XI p2 ->
                         (match p2 with
                          | XO p3 ->
                            (match p3 with
                             | XI p4 ->
                               (match p4 with
                                | XI p5 ->
                                  (match p5 with
                                   | XH ->
                                     (match l1 with
                                      | [] ->
                                        { use_update = o.use_update;
                                          relaxed = o.relaxed; filter_df =
                                          o.filter_df; count_df = o.count_df;
                                          display_info = o.display_info;
                                          order_by = o.order_by; update_s =
                                          (parse_z v); delete_after =
                                          o.delete_after; observer =
                                          o.observer }
                                      | _ :: _ -> o)
                                   | _ -> o)
                                | XO p5 ->
                                  (match p5 with
                                   | XH ->
                                     (match l1 with
                                      | [] ->
                                        { use_update = on; relaxed =
                                          o.relaxed; filter_df = o.filter_df;
                                          count_df = o.count_df;
                                          display_info = o.display_info;
                                          order_by = o.order_by; update_s =
                                          o.update_s; delete_after =
                                          o.delete_after; observer =
                                          o.observer }
                                      | _ :: _ -> o)
                                   | _ -> o)
                                | XH -> o)
                             | _ -> o)
                          | _ -> o)
                       | XO p2 ->
                         (match p2 with
                          | XI p3 ->
                            (match p3 with
                             | XO p4 ->
                               (match p4 with
                                | XI p5 ->
                                  (match p5 with
                                   | XH ->
                                     (match l1 with
                                      | [] ->
                                        { use_update = o.use_update;
                                          relaxed = o.relaxed; filter_df =
                                          o.filter_df; count_df = o.count_df;
                                          display_info =
                                          (concat
                                            (split (Npos (XI (XI (XO (XI (XO
                                              XH)))))) v)); order_by =
                                          o.order_by; update_s = o.update_s;
                                          delete_after = o.delete_after;
                                          observer = o.observer }
                                      | _ :: _ -> o)
                                   | _ -> o)
                                | _ -> o)
                             | _ -> o)
                          | _ -> o)
                       | XH -> o)
                    | XH -> o)
                 | XO p0 ->
                   (match p0 with
                    | XI p1 ->
                      (match p1 with
                       | XI p2 ->
                         (match p2 with
                          | XO p3 ->
                            (match p3 with
                             | XO p4 ->
                               (match p4 with
                                | XI p5 ->
                                  (match p5 with
                                   | XH ->
                                     (match l1 with
                                      | [] ->
                                        { use_update = o.use_update;
                                          relaxed = o.relaxed; filter_df =
                                          (Some
                                          (map parse_dec
                                            (split (Npos (XI (XI (XO (XI (XO
                                              XH)))))) v))); count_df =
                                          o.count_df; display_info =
                                          o.display_info; order_by =
                                          o.order_by; update_s = o.update_s;
                                          delete_after = o.delete_after;
                                          observer = o.observer }
                                      | _ :: _ -> o)
                                   | _ -> o)
                                | _ -> o)
                             | _ -> o)
                          | _ -> o)
                       | XO p2 ->
                         (match p2 with
                          | XO p3 ->
                            (match p3 with
                             | XI p4 ->
                               (match p4 with
                                | XO p5 ->
                                  (match p5 with
                                   | XH ->
                                     (match l1 with
                                      | [] ->
                                        { use_update = o.use_update;
                                          relaxed = on; filter_df =
                                          o.filter_df; count_df = o.count_df;
                                          display_info = o.display_info;
                                          order_by = o.order_by; update_s =
                                          o.update_s; delete_after =
                                          o.delete_after; observer =
                                          o.observer }
                                      | _ :: _ -> o)
                                   | _ -> o)
                                | _ -> o)
                             | _ -> o)
                          | _ -> o)
                       | XH -> o)
                    | XO p1 ->
                      (match p1 with
                       | XI p2 ->
                         (match p2 with
                          | XO p3 ->
                            (match p3 with
                             | XO p4 ->
                               (match p4 with
                                | XI p5 ->
                                  (match p5 with
                                   | XH ->
                                     (match l1 with
                                      | [] ->
                                        { use_update = o.use_update;
                                          relaxed = o.relaxed; filter_df =
                                          o.filter_df; count_df = o.count_df;
                                          display_info = o.display_info;
                                          order_by = o.order_by; update_s =
                                          o.update_s; delete_after =
                                          (parse_z v); observer = o.observer }
                                      | _ :: _ -> o)
                                   | _ -> o)
                                | _ -> o)
                             | _ -> o)
                          | _ -> o)
                       | _ -> o)
                    | XH -> o)
                 | XH -> o)))
        | _ :: _ -> o))

(** val parse_opts : bytes -> opts **)

let parse_opts s =
  fold_left parse_opt (split (Npos (XO (XO (XI (XI (XO XH)))))) s)
    opts_default

(** val seg_bytes : bytes -> bytes **)

let seg_bytes rest = match rest with
| [] ->
  concat
    (map (fun l ->
      match l with
      | [] -> []
      | y :: l0 ->
        (match y with
         | N0 -> app (unhex l) ((Npos (XO (XI (XO XH)))) :: [])
         | Npos p ->
           (match p with
            | XO p0 ->
              (match p0 with
               | XI p1 ->
                 (match p1 with
                  | XI p2 ->
                    (match p2 with
                     | XI p3 ->
                       (match p3 with
                        | XO p4 ->
                          (match p4 with
                           | XH ->
                             (match l0 with
                              | [] -> (Npos (XO (XI (XO XH)))) :: []
                              | _ :: _ ->
                                app (unhex l) ((Npos (XO (XI (XO XH)))) :: []))
                           | _ ->
                             app (unhex l) ((Npos (XO (XI (XO XH)))) :: []))
                        | _ -> app (unhex l) ((Npos (XO (XI (XO XH)))) :: []))
                     | _ -> app (unhex l) ((Npos (XO (XI (XO XH)))) :: []))
                  | _ -> app (unhex l) ((Npos (XO (XI (XO XH)))) :: []))
               | _ -> app (unhex l) ((Npos (XO (XI (XO XH)))) :: []))
            | _ -> app (unhex l) ((Npos (XO (XI (XO XH)))) :: []))))
      (split (Npos (XO (XO (XI (XI (XO XH)))))) rest))
| n0 :: blob ->
  (match n0 with
   | N0 ->
     concat
       (map (fun l ->
         match l with
         | [] -> []
         | y :: l0 ->
           (match y with
            | N0 -> app (unhex l) ((Npos (XO (XI (XO XH)))) :: [])
            | Npos p ->
              (match p with
               | XO p0 ->
                 (match p0 with
                  | XI p1 ->
                    (match p1 with
                     | XI p2 ->
                       (match p2 with
                        | XI p3 ->
                          (match p3 with
                           | XO p4 ->
                             (match p4 with
                              | XH ->
                                (match l0 with
                                 | [] -> (Npos (XO (XI (XO XH)))) :: []
                                 | _ :: _ ->
                                   app (unhex l) ((Npos (XO (XI (XO
                                     XH)))) :: []))
                              | _ ->
                                app (unhex l) ((Npos (XO (XI (XO XH)))) :: []))
                           | _ ->
                             app (unhex l) ((Npos (XO (XI (XO XH)))) :: []))
                        | _ -> app (unhex l) ((Npos (XO (XI (XO XH)))) :: []))
                     | _ -> app (unhex l) ((Npos (XO (XI (XO XH)))) :: []))
                  | _ -> app (unhex l) ((Npos (XO (XI (XO XH)))) :: []))
               | _ -> app (unhex l) ((Npos (XO (XI (XO XH)))) :: []))))
         (split (Npos (XO (XO (XI (XI (XO XH)))))) rest))
   | Npos p ->
     (match p with
      | XI p0 ->
        (match p0 with
         | XO p1 ->
           (match p1 with
            | XO p2 ->
              (match p2 with
               | XO p3 ->
                 (match p3 with
                  | XO p4 ->
                    (match p4 with
                     | XH -> unhex blob
                     | _ ->
                       concat
                         (map (fun l ->
                           match l with
                           | [] -> []
                           | y :: l0 ->
                             (match y with
                              | N0 ->
                                app (unhex l) ((Npos (XO (XI (XO XH)))) :: [])
                              | Npos p5 ->
                                (match p5 with
                                 | XO p6 ->
                                   (match p6 with
                                    | XI p7 ->
                                      (match p7 with
                                       | XI p8 ->
                                         (match p8 with
                                          | XI p9 ->
                                            (match p9 with
                                             | XO p10 ->
                                               (match p10 with
                                                | XH ->
                                                  (match l0 with
                                                   | [] ->
                                                     (Npos (XO (XI (XO
                                                       XH)))) :: []
                                                   | _ :: _ ->
                                                     app (unhex l) ((Npos (XO
                                                       (XI (XO XH)))) :: []))
                                                | _ ->
                                                  app (unhex l) ((Npos (XO
                                                    (XI (XO XH)))) :: []))
                                             | _ ->
                                               app (unhex l) ((Npos (XO (XI
                                                 (XO XH)))) :: []))
                                          | _ ->
                                            app (unhex l) ((Npos (XO (XI (XO
                                              XH)))) :: []))
                                       | _ ->
                                         app (unhex l) ((Npos (XO (XI (XO
                                           XH)))) :: []))
                                    | _ ->
                                      app (unhex l) ((Npos (XO (XI (XO
                                        XH)))) :: []))
                                 | _ ->
                                   app (unhex l) ((Npos (XO (XI (XO
                                     XH)))) :: []))))
                           (split (Npos (XO (XO (XI (XI (XO XH)))))) rest)))
                  | _ ->
                    concat
                      (map (fun l ->
                        match l with
                        | [] -> []
                        | y :: l0 ->
                          (match y with
                           | N0 ->
                             app (unhex l) ((Npos (XO (XI (XO XH)))) :: [])
                           | Npos p4 ->
                             (match p4 with
                              | XO p5 ->
                                (match p5 with
                                 | XI p6 ->
                                   (match p6 with
                                    | XI p7 ->
                                      (match p7 with
                                       | XI p8 ->
                                         (match p8 with
                                          | XO p9 ->
                                            (match p9 with
                                             | XH ->
                                               (match l0 with
                                                | [] ->
                                                  (Npos (XO (XI (XO
                                                    XH)))) :: []
                                                | _ :: _ ->
                                                  app (unhex l) ((Npos (XO
                                                    (XI (XO XH)))) :: []))
                                             | _ ->
                                               app (unhex l) ((Npos (XO (XI
                                                 (XO XH)))) :: []))
                                          | _ ->
                                            app (unhex l) ((Npos (XO (XI (XO
                                              XH)))) :: []))
                                       | _ ->
                                         app (unhex l) ((Npos (XO (XI (XO
                                           XH)))) :: []))
                                    | _ ->
                                      app (unhex l) ((Npos (XO (XI (XO
                                        XH)))) :: []))
                                 | _ ->
                                   app (unhex l) ((Npos (XO (XI (XO
                                     XH)))) :: []))
                              | _ ->
                                app (unhex l) ((Npos (XO (XI (XO XH)))) :: []))))
                        (split (Npos (XO (XO (XI (XI (XO XH)))))) rest)))
               | _ ->
                 concat
                   (map (fun l ->
                     match l with
                     | [] -> []
                     | y :: l0 ->
                       (match y with
                        | N0 -> app (unhex l) ((Npos (XO (XI (XO XH)))) :: [])
                        | Npos p3 ->
                          (match p3 with
                           | XO p4 ->
                             (match p4 with
                              | XI p5 ->
                                (match p5 with
                                 | XI p6 ->
                                   (match p6 with
                                    | XI p7 ->
                                      (match p7 with
                                       | XO p8 ->
                                         (match p8 with
                                          | XH ->
                                            (match l0 with
                                             | [] ->
                                               (Npos (XO (XI (XO XH)))) :: []
                                             | _ :: _ ->
                                               app (unhex l) ((Npos (XO (XI
                                                 (XO XH)))) :: []))
                                          | _ ->
                                            app (unhex l) ((Npos (XO (XI (XO
                                              XH)))) :: []))
                                       | _ ->
                                         app (unhex l) ((Npos (XO (XI (XO
                                           XH)))) :: []))
                                    | _ ->
                                      app (unhex l) ((Npos (XO (XI (XO
                                        XH)))) :: []))
                                 | _ ->
                                   app (unhex l) ((Npos (XO (XI (XO
                                     XH)))) :: []))
                              | _ ->
                                app (unhex l) ((Npos (XO (XI (XO XH)))) :: []))
                           | _ ->
                             app (unhex l) ((Npos (XO (XI (XO XH)))) :: []))))
                     (split (Npos (XO (XO (XI (XI (XO XH)))))) rest)))
            | _ ->
              concat
                (map (fun l ->
                  match l with
                  | [] -> []
                  | y :: l0 ->
                    (match y with
                     | N0 -> app (unhex l) ((Npos (XO (XI (XO XH)))) :: [])
                     | Npos p2 ->
                       (match p2 with
                        | XO p3 ->
                          (match p3 with
                           | XI p4 ->
                             (match p4 with
                              | XI p5 ->
                                (match p5 with
                                 | XI p6 ->
                                   (match p6 with
                                    | XO p7 ->
                                      (match p7 with
                                       | XH ->
                                         (match l0 with
                                          | [] ->
                                            (Npos (XO (XI (XO XH)))) :: []
                                          | _ :: _ ->
                                            app (unhex l) ((Npos (XO (XI (XO
                                              XH)))) :: []))
                                       | _ ->
                                         app (unhex l) ((Npos (XO (XI (XO
                                           XH)))) :: []))
                                    | _ ->
                                      app (unhex l) ((Npos (XO (XI (XO
                                        XH)))) :: []))
                                 | _ ->
                                   app (unhex l) ((Npos (XO (XI (XO
                                     XH)))) :: []))
                              | _ ->
                                app (unhex l) ((Npos (XO (XI (XO XH)))) :: []))
                           | _ ->
                             app (unhex l) ((Npos (XO (XI (XO XH)))) :: []))
                        | _ -> app (unhex l) ((Npos (XO (XI (XO XH)))) :: []))))
                  (split (Npos (XO (XO (XI (XI (XO XH)))))) rest)))
         | _ ->
           concat
             (map (fun l ->
               match l with
               | [] -> []
               | y :: l0 ->
                 (match y with
                  | N0 -> app (unhex l) ((Npos (XO (XI (XO XH)))) :: [])
                  | Npos p1 ->
                    (match p1 with
                     | XO p2 ->
                       (match p2 with
                        | XI p3 ->
                          (match p3 with
                           | XI p4 ->
                             (match p4 with
                              | XI p5 ->
                                (match p5 with
                                 | XO p6 ->
                                   (match p6 with
                                    | XH ->
                                      (match l0 with
                                       | [] -> (Npos (XO (XI (XO XH)))) :: []
                                       | _ :: _ ->
                                         app (unhex l) ((Npos (XO (XI (XO
                                           XH)))) :: []))
                                    | _ ->
                                      app (unhex l) ((Npos (XO (XI (XO
                                        XH)))) :: []))
                                 | _ ->
                                   app (unhex l) ((Npos (XO (XI (XO
                                     XH)))) :: []))
                              | _ ->
                                app (unhex l) ((Npos (XO (XI (XO XH)))) :: []))
                           | _ ->
                             app (unhex l) ((Npos (XO (XI (XO XH)))) :: []))
                        | _ -> app (unhex l) ((Npos (XO (XI (XO XH)))) :: []))
                     | _ -> app (unhex l) ((Npos (XO (XI (XO XH)))) :: []))))
               (split (Npos (XO (XO (XI (XI (XO XH)))))) rest)))
      | _ ->
        concat
          (map (fun l ->
            match l with
            | [] -> []
            | y :: l0 ->
              (match y with
               | N0 -> app (unhex l) ((Npos (XO (XI (XO XH)))) :: [])
               | Npos p0 ->
                 (match p0 with
                  | XO p1 ->
                    (match p1 with
                     | XI p2 ->
                       (match p2 with
                        | XI p3 ->
                          (match p3 with
                           | XI p4 ->
                             (match p4 with
                              | XO p5 ->
                                (match p5 with
                                 | XH ->
                                   (match l0 with
                                    | [] -> (Npos (XO (XI (XO XH)))) :: []
                                    | _ :: _ ->
                                      app (unhex l) ((Npos (XO (XI (XO
                                        XH)))) :: []))
                                 | _ ->
                                   app (unhex l) ((Npos (XO (XI (XO
                                     XH)))) :: []))
                              | _ ->
                                app (unhex l) ((Npos (XO (XI (XO XH)))) :: []))
                           | _ ->
                             app (unhex l) ((Npos (XO (XI (XO XH)))) :: []))
                        | _ -> app (unhex l) ((Npos (XO (XI (XO XH)))) :: []))
                     | _ -> app (unhex l) ((Npos (XO (XI (XO XH)))) :: []))
                  | _ -> app (unhex l) ((Npos (XO (XI (XO XH)))) :: []))))
            (split (Npos (XO (XO (XI (XI (XO XH)))))) rest))))

(** val run_segs :
    opts -> table -> bytes list -> bytes list -> bool * bytes list **)

let rec run_segs o t segs acc =
  match segs with
  | [] -> (true, (rev_append acc []))
  | s :: rest ->
    (match s with
     | [] -> run_segs o t rest acc
     | _ :: _ ->
       (match split_on (Npos (XO (XI (XO (XI (XI XH)))))) s [] with
        | [] -> run_segs o t rest acc
        | ts :: l ->
          (match l with
           | [] -> run_segs o t rest acc
           | body :: _ ->
             let now = parse_z ts in
             (match read_lines o now t (seg_bytes body) with
              | Ok t' -> run_segs o t' rest ((dump_table now t') :: acc)
              | Panic _ -> (false, (rev_append acc []))))))

(** val run_h : opts -> bytes -> bytes * bytes **)

let run_h o body =
  let (ok, ds) =
    run_segs o [] (split (Npos (XI (XI (XO (XI (XI XH)))))) body) []
  in
  ((if ok
    then str (String ((Ascii (true, true, true, true, false, true, true,
           false)), (String ((Ascii (true, true, false, true, false, true,
           true, false)), EmptyString))))
    else str (String ((Ascii (false, false, false, false, true, true, true,
           false)), (String ((Ascii (true, false, false, false, false, true,
           true, false)), (String ((Ascii (false, true, true, true, false,
           true, true, false)), (String ((Ascii (true, false, false, true,
           false, true, true, false)), (String ((Ascii (true, true, false,
           false, false, true, true, false)), EmptyString))))))))))),
  (join ((Npos (XI (XI (XO (XO (XO XH)))))) :: []) ds))

(** val run_g : bytes -> bytes * bytes **)

let run_g body =
  let line = unhex body in
  if negb (valid_utf8 line)
  then ((str (String ((Ascii (true, true, true, true, false, true, true,
          false)), (String ((Ascii (true, true, false, true, false, true,
          true, false)), EmptyString))))),
         (str (String ((Ascii (false, true, true, true, false, true, true,
           false)), (String ((Ascii (true, true, true, true, false, true,
           true, false)), (String ((Ascii (false, false, true, false, true,
           true, true, false)), (String ((Ascii (true, false, true, false,
           true, true, true, false)), (String ((Ascii (false, false, true,
           false, true, true, true, false)), (String ((Ascii (false, true,
           true, false, false, true, true, false)), (String ((Ascii (false,
           false, false, true, true, true, false, false)),
           EmptyString))))))))))))))))
  else (match get_message line with
        | Ok a ->
          (match a with
           | Some m ->
             let hm =
               app
                 (str (String ((Ascii (true, false, true, true, false, true,
                   true, false)), (String ((Ascii (true, true, false, false,
                   true, true, true, false)), (String ((Ascii (true, true,
                   true, false, false, true, true, false)), (String ((Ascii
                   (true, false, true, true, true, true, false, false)),
                   EmptyString))))))))) (map hexdigit m)
             in
             (match get_downlink_format m with
              | Ok a0 ->
                (match a0 with
                 | Some df ->
                   (match get_icao m df with
                    | Ok ic ->
                      ((str (String ((Ascii (true, true, true, true, false,
                         true, true, false)), (String ((Ascii (true, true,
                         false, true, false, true, true, false)),
                         EmptyString))))),
                        (app hm
                          (app
                            (str (String ((Ascii (false, false, false, false,
                              false, true, false, false)), (String ((Ascii
                              (false, false, true, false, false, true, true,
                              false)), (String ((Ascii (false, true, true,
                              false, false, true, true, false)), (String
                              ((Ascii (true, false, true, true, true, true,
                              false, false)), EmptyString)))))))))
                            (app (dec df)
                              (app
                                (str (String ((Ascii (false, false, false,
                                  false, false, true, false, false)), (String
                                  ((Ascii (true, false, false, true, false,
                                  true, true, false)), (String ((Ascii (true,
                                  true, false, false, false, true, true,
                                  false)), (String ((Ascii (true, false,
                                  false, false, false, true, true, false)),
                                  (String ((Ascii (true, true, true, true,
                                  false, true, true, false)), (String ((Ascii
                                  (true, false, true, true, true, true,
                                  false, false)), EmptyString)))))))))))))
                                (match ic with
                                 | Some a1 -> hex6 a1
                                 | None ->
                                   (Npos (XI (XO (XI (XI (XO XH)))))) :: []))))))
                    | Panic _ ->
                      ((str (String ((Ascii (false, false, false, false,
                         true, true, true, false)), (String ((Ascii (true,
                         false, false, false, false, true, true, false)),
                         (String ((Ascii (false, true, true, true, false,
                         true, true, false)), (String ((Ascii (true, false,
                         false, true, false, true, true, false)), (String
                         ((Ascii (true, true, false, false, false, true,
                         true, false)), EmptyString))))))))))), []))
                 | None ->
                   ((str (String ((Ascii (true, true, true, true, false,
                      true, true, false)), (String ((Ascii (true, true,
                      false, true, false, true, true, false)),
                      EmptyString))))),
                     (app hm
                       (str (String ((Ascii (false, false, false, false,
                         false, true, false, false)), (String ((Ascii (false,
                         false, true, false, false, true, true, false)),
                         (String ((Ascii (false, true, true, false, false,
                         true, true, false)), (String ((Ascii (true, false,
                         true, true, true, true, false, false)), (String
                         ((Ascii (true, false, true, true, false, true,
                         false, false)), EmptyString))))))))))))))
              | Panic _ ->
                ((str (String ((Ascii (false, false, false, false, true,
                   true, true, false)), (String ((Ascii (true, false, false,
                   false, false, true, true, false)), (String ((Ascii (false,
                   true, true, true, false, true, true, false)), (String
                   ((Ascii (true, false, false, true, false, true, true,
                   false)), (String ((Ascii (true, true, false, false, false,
                   true, true, false)), EmptyString))))))))))), []))
           | None ->
             ((str (String ((Ascii (true, true, true, true, false, true,
                true, false)), (String ((Ascii (true, true, false, true,
                false, true, true, false)), EmptyString))))),
               (str (String ((Ascii (true, false, true, true, false, true,
                 true, false)), (String ((Ascii (true, true, false, false,
                 true, true, true, false)), (String ((Ascii (true, true,
                 true, false, false, true, true, false)), (String ((Ascii
                 (true, false, true, true, true, true, false, false)),
                 (String ((Ascii (true, false, true, true, false, true,
                 false, false)), EmptyString)))))))))))))
        | Panic _ ->
          ((str (String ((Ascii (false, false, false, false, true, true,
             true, false)), (String ((Ascii (true, false, false, false,
             false, true, true, false)), (String ((Ascii (false, true, true,
             true, false, true, true, false)), (String ((Ascii (true, false,
             false, true, false, true, true, false)), (String ((Ascii (true,
             true, false, false, false, true, true, false)),
             EmptyString))))))))))), []))

(** val ounwrap : n option -> n **)

let ounwrap = function
| Some v -> v
| None -> N0

(** val dump_compact : row -> bytes **)

let dump_compact r =
  app
    (str (String ((Ascii (false, false, true, false, true, true, true,
      false)), (String ((Ascii (false, true, false, false, true, true, true,
      false)), (String ((Ascii (true, true, false, true, false, true, true,
      false)), (String ((Ascii (true, false, true, true, true, true, false,
      false)), EmptyString)))))))))
    (app (oN r.track)
      (app
        (str (String ((Ascii (false, false, false, false, false, true, false,
          false)), (String ((Ascii (true, true, true, false, false, true,
          true, false)), (String ((Ascii (true, true, false, false, true,
          true, true, false)), (String ((Ascii (true, false, true, true,
          true, true, false, false)), EmptyString)))))))))
        (app (oN r.grspeed)
          (app
            (str (String ((Ascii (false, false, false, false, false, true,
              false, false)), (String ((Ascii (false, true, true, false,
              true, true, true, false)), (String ((Ascii (false, true, false,
              false, true, true, true, false)), (String ((Ascii (true, false,
              true, true, true, true, false, false)), EmptyString)))))))))
            (oZ r.vrate)))))

(** val run_m_go :
    opts -> bool -> bool -> row option -> bytes list -> bytes list ->
    bool * bytes list **)

let rec run_m_go o compact path_m r ms acc =
  match ms with
  | [] -> (true, (rev_append acc []))
  | hm :: rest ->
    (match hm with
     | [] -> run_m_go o compact path_m r rest acc
     | _ :: _ ->
       let m = map hexv hm in
       let step0 =
         bind (get_downlink_format m) (fun dfo ->
           let df = ounwrap dfo in
           bind (get_icao m df) (fun ao ->
             let a = ounwrap ao in
             if path_m
             then (match r with
                   | Some r0 ->
                     bind (plane_update o.observer Z0 r0 m df o.relaxed)
                       (fun r' -> Ok (Some r'))
                   | None ->
                     bind (row_from_message o.observer Z0 m df a o.relaxed)
                       (fun r' -> Ok (Some r')))
             else bind (df_from_message m) (fun d ->
                    match d with
                    | Some d0 ->
                      (match r with
                       | Some r0 ->
                         Ok (Some (update_from_downlink o.observer Z0 r0 d0))
                       | None ->
                         Ok (Some (row_from_downlink o.observer Z0 d0 a)))
                    | None -> Ok r)))
       in
       (match step0 with
        | Ok a ->
          (match a with
           | Some r' ->
             run_m_go o compact path_m (Some r') rest
               ((if compact then dump_compact r' else dump_row Z0 r') :: acc)
           | None -> run_m_go o compact path_m r rest acc)
        | Panic _ -> (false, (rev_append acc []))))

(** val run_m : opts -> bytes -> bytes * bytes **)

let run_m o body =
  match split_on (Npos (XO (XI (XO (XI (XI XH)))))) body [] with
  | [] ->
    ((str (String ((Ascii (true, true, false, false, true, true, true,
       false)), (String ((Ascii (true, true, false, true, false, true, true,
       false)), (String ((Ascii (true, false, false, true, false, true, true,
       false)), (String ((Ascii (false, false, false, false, true, true,
       true, false)), EmptyString))))))))), [])
  | p :: l ->
    (match l with
     | [] ->
       ((str (String ((Ascii (true, true, false, false, true, true, true,
          false)), (String ((Ascii (true, true, false, true, false, true,
          true, false)), (String ((Ascii (true, false, false, true, false,
          true, true, false)), (String ((Ascii (false, false, false, false,
          true, true, true, false)), EmptyString))))))))), [])
     | rest :: _ ->
       (match p with
        | [] ->
          let compact = false in
          let (ok, ds) =
            run_m_go o compact
              (match p with
               | [] -> false
               | n0 :: l0 ->
                 (match n0 with
                  | N0 -> false
                  | Npos p0 ->
                    (match p0 with
                     | XI p1 ->
                       (match p1 with
                        | XO p2 ->
                          (match p2 with
                           | XI p3 ->
                             (match p3 with
                              | XI p4 ->
                                (match p4 with
                                 | XO p5 ->
                                   (match p5 with
                                    | XI p6 ->
                                      (match p6 with
                                       | XH ->
                                         (match l0 with
                                          | [] -> true
                                          | _ :: _ -> false)
                                       | _ -> false)
                                    | _ -> false)
                                 | _ -> false)
                              | _ -> false)
                           | _ -> false)
                        | _ -> false)
                     | _ -> false))) None
              (split (Npos (XO (XO (XI (XI (XO XH)))))) rest) []
          in
          ((if ok
            then str (String ((Ascii (true, true, true, true, false, true,
                   true, false)), (String ((Ascii (true, true, false, true,
                   false, true, true, false)), EmptyString))))
            else str (String ((Ascii (false, false, false, false, true, true,
                   true, false)), (String ((Ascii (true, false, false, false,
                   false, true, true, false)), (String ((Ascii (false, true,
                   true, true, false, true, true, false)), (String ((Ascii
                   (true, false, false, true, false, true, true, false)),
                   (String ((Ascii (true, true, false, false, false, true,
                   true, false)), EmptyString))))))))))),
          (if ok
           then join ((Npos (XI (XI (XO (XO (XO XH)))))) :: []) ds
           else []))
        | n0 :: t ->
          (match n0 with
           | N0 ->
             let compact = false in
             let (ok, ds) =
               run_m_go o compact
                 (match p with
                  | [] -> false
                  | n1 :: l0 ->
                    (match n1 with
                     | N0 -> false
                     | Npos p0 ->
                       (match p0 with
                        | XI p1 ->
                          (match p1 with
                           | XO p2 ->
                             (match p2 with
                              | XI p3 ->
                                (match p3 with
                                 | XI p4 ->
                                   (match p4 with
                                    | XO p5 ->
                                      (match p5 with
                                       | XI p6 ->
                                         (match p6 with
                                          | XH ->
                                            (match l0 with
                                             | [] -> true
                                             | _ :: _ -> false)
                                          | _ -> false)
                                       | _ -> false)
                                    | _ -> false)
                                 | _ -> false)
                              | _ -> false)
                           | _ -> false)
                        | _ -> false))) None
                 (split (Npos (XO (XO (XI (XI (XO XH)))))) rest) []
             in
             ((if ok
               then str (String ((Ascii (true, true, true, true, false, true,
                      true, false)), (String ((Ascii (true, true, false,
                      true, false, true, true, false)), EmptyString))))
               else str (String ((Ascii (false, false, false, false, true,
                      true, true, false)), (String ((Ascii (true, false,
                      false, false, false, true, true, false)), (String
                      ((Ascii (false, true, true, true, false, true, true,
                      false)), (String ((Ascii (true, false, false, true,
                      false, true, true, false)), (String ((Ascii (true,
                      true, false, false, false, true, true, false)),
                      EmptyString))))))))))),
             (if ok
              then join ((Npos (XI (XI (XO (XO (XO XH)))))) :: []) ds
              else []))
           | Npos p0 ->
             (match p0 with
              | XO p1 ->
                (match p1 with
                 | XI p2 ->
                   (match p2 with
                    | XI p3 ->
                      (match p3 with
                       | XO p4 ->
                         (match p4 with
                          | XI p5 ->
                            (match p5 with
                             | XI p6 ->
                               (match p6 with
                                | XH ->
                                  let compact = true in
                                  let (ok, ds) =
                                    run_m_go o compact
                                      (match t with
                                       | [] -> false
                                       | n1 :: l0 ->
                                         (match n1 with
                                          | N0 -> false
                                          | Npos p7 ->
                                            (match p7 with
                                             | XI p8 ->
                                               (match p8 with
                                                | XO p9 ->
                                                  (match p9 with
                                                   | XI p10 ->
                                                     (match p10 with
                                                      | XI p11 ->
                                                        (match p11 with
                                                         | XO p12 ->
                                                           (match p12 with
                                                            | XI p13 ->
                                                              (match p13 with
                                                               | XH ->
                                                                 (match l0 with
                                                                  | [] -> true
                                                                  | _ :: _ ->
                                                                    false)
                                                               | _ -> false)
                                                            | _ -> false)
                                                         | _ -> false)
                                                      | _ -> false)
                                                   | _ -> false)
                                                | _ -> false)
                                             | _ -> false))) None
                                      (split (Npos (XO (XO (XI (XI (XO
                                        XH)))))) rest) []
                                  in
                                  ((if ok
                                    then str (String ((Ascii (true, true,
                                           true, true, false, true, true,
                                           false)), (String ((Ascii (true,
                                           true, false, true, false, true,
                                           true, false)), EmptyString))))
                                    else str (String ((Ascii (false, false,
                                           false, false, true, true, true,
                                           false)), (String ((Ascii (true,
                                           false, false, false, false, true,
                                           true, false)), (String ((Ascii
                                           (false, true, true, true, false,
                                           true, true, false)), (String
                                           ((Ascii (true, false, false, true,
                                           false, true, true, false)),
                                           (String ((Ascii (true, true,
                                           false, false, false, true, true,
                                           false)), EmptyString))))))))))),
                                  (if ok
                                   then join ((Npos (XI (XI (XO (XO (XO
                                          XH)))))) :: []) ds
                                   else []))
                                | _ ->
                                  let compact = false in
                                  let (ok, ds) =
                                    run_m_go o compact
                                      (match p with
                                       | [] -> false
                                       | n1 :: l0 ->
                                         (match n1 with
                                          | N0 -> false
                                          | Npos p7 ->
                                            (match p7 with
                                             | XI p8 ->
                                               (match p8 with
                                                | XO p9 ->
                                                  (match p9 with
                                                   | XI p10 ->
                                                     (match p10 with
                                                      | XI p11 ->
                                                        (match p11 with
                                                         | XO p12 ->
                                                           (match p12 with
                                                            | XI p13 ->
                                                              (match p13 with
                                                               | XH ->
                                                                 (match l0 with
                                                                  | [] -> true
                                                                  | _ :: _ ->
                                                                    false)
                                                               | _ -> false)
                                                            | _ -> false)
                                                         | _ -> false)
                                                      | _ -> false)
                                                   | _ -> false)
                                                | _ -> false)
                                             | _ -> false))) None
                                      (split (Npos (XO (XO (XI (XI (XO
                                        XH)))))) rest) []
                                  in
                                  ((if ok
                                    then str (String ((Ascii (true, true,
                                           true, true, false, true, true,
                                           false)), (String ((Ascii (true,
                                           true, false, true, false, true,
                                           true, false)), EmptyString))))
                                    else str (String ((Ascii (false, false,
                                           false, false, true, true, true,
                                           false)), (String ((Ascii (true,
                                           false, false, false, false, true,
                                           true, false)), (String ((Ascii
                                           (false, true, true, true, false,
                                           true, true, false)), (String
                                           ((Ascii (true, false, false, true,
                                           false, true, true, false)),
                                           (String ((Ascii (true, true,
                                           false, false, false, true, true,
                                           false)), EmptyString))))))))))),
                                  (if ok
                                   then join ((Npos (XI (XI (XO (XO (XO
                                          XH)))))) :: []) ds
                                   else [])))
                             | _ ->
                               let compact = false in
                               let (ok, ds) =
                                 run_m_go o compact
                                   (match p with
                                    | [] -> false
                                    | n1 :: l0 ->
                                      (match n1 with
                                       | N0 -> false
                                       | Npos p6 ->
                                         (match p6 with
                                          | XI p7 ->
                                            (match p7 with
                                             | XO p8 ->
                                               (match p8 with
                                                | XI p9 ->
                                                  (match p9 with
                                                   | XI p10 ->
                                                     (match p10 with
                                                      | XO p11 ->
                                                        (match p11 with
                                                         | XI p12 ->
                                                           (match p12 with
                                                            | XH ->
                                                              (match l0 with
                                                               | [] -> true
                                                               | _ :: _ ->
                                                                 false)
                                                            | _ -> false)
                                                         | _ -> false)
                                                      | _ -> false)
                                                   | _ -> false)
                                                | _ -> false)
                                             | _ -> false)
                                          | _ -> false))) None
                                   (split (Npos (XO (XO (XI (XI (XO XH))))))
                                     rest) []
                               in
                               ((if ok
                                 then str (String ((Ascii (true, true, true,
                                        true, false, true, true, false)),
                                        (String ((Ascii (true, true, false,
                                        true, false, true, true, false)),
                                        EmptyString))))
                                 else str (String ((Ascii (false, false,
                                        false, false, true, true, true,
                                        false)), (String ((Ascii (true,
                                        false, false, false, false, true,
                                        true, false)), (String ((Ascii
                                        (false, true, true, true, false,
                                        true, true, false)), (String ((Ascii
                                        (true, false, false, true, false,
                                        true, true, false)), (String ((Ascii
                                        (true, true, false, false, false,
                                        true, true, false)),
                                        EmptyString))))))))))),
                               (if ok
                                then join ((Npos (XI (XI (XO (XO (XO
                                       XH)))))) :: []) ds
                                else [])))
                          | _ ->
                            let compact = false in
                            let (ok, ds) =
                              run_m_go o compact
                                (match p with
                                 | [] -> false
                                 | n1 :: l0 ->
                                   (match n1 with
                                    | N0 -> false
                                    | Npos p5 ->
                                      (match p5 with
                                       | XI p6 ->
                                         (match p6 with
                                          | XO p7 ->
                                            (match p7 with
                                             | XI p8 ->
                                               (match p8 with
                                                | XI p9 ->
                                                  (match p9 with
                                                   | XO p10 ->
                                                     (match p10 with
                                                      | XI p11 ->
                                                        (match p11 with
                                                         | XH ->
                                                           (match l0 with
                                                            | [] -> true
                                                            | _ :: _ -> false)
                                                         | _ -> false)
                                                      | _ -> false)
                                                   | _ -> false)
                                                | _ -> false)
                                             | _ -> false)
                                          | _ -> false)
                                       | _ -> false))) None
                                (split (Npos (XO (XO (XI (XI (XO XH))))))
                                  rest) []
                            in
                            ((if ok
                              then str (String ((Ascii (true, true, true,
                                     true, false, true, true, false)),
                                     (String ((Ascii (true, true, false,
                                     true, false, true, true, false)),
                                     EmptyString))))
                              else str (String ((Ascii (false, false, false,
                                     false, true, true, true, false)),
                                     (String ((Ascii (true, false, false,
                                     false, false, true, true, false)),
                                     (String ((Ascii (false, true, true,
                                     true, false, true, true, false)),
                                     (String ((Ascii (true, false, false,
                                     true, false, true, true, false)),
                                     (String ((Ascii (true, true, false,
                                     false, false, true, true, false)),
                                     EmptyString))))))))))),
                            (if ok
                             then join ((Npos (XI (XI (XO (XO (XO
                                    XH)))))) :: []) ds
                             else [])))
                       | _ ->
                         let compact = false in
                         let (ok, ds) =
                           run_m_go o compact
                             (match p with
                              | [] -> false
                              | n1 :: l0 ->
                                (match n1 with
                                 | N0 -> false
                                 | Npos p4 ->
                                   (match p4 with
                                    | XI p5 ->
                                      (match p5 with
                                       | XO p6 ->
                                         (match p6 with
                                          | XI p7 ->
                                            (match p7 with
                                             | XI p8 ->
                                               (match p8 with
                                                | XO p9 ->
                                                  (match p9 with
                                                   | XI p10 ->
                                                     (match p10 with
                                                      | XH ->
                                                        (match l0 with
                                                         | [] -> true
                                                         | _ :: _ -> false)
                                                      | _ -> false)
                                                   | _ -> false)
                                                | _ -> false)
                                             | _ -> false)
                                          | _ -> false)
                                       | _ -> false)
                                    | _ -> false))) None
                             (split (Npos (XO (XO (XI (XI (XO XH)))))) rest)
                             []
                         in
                         ((if ok
                           then str (String ((Ascii (true, true, true, true,
                                  false, true, true, false)), (String ((Ascii
                                  (true, true, false, true, false, true,
                                  true, false)), EmptyString))))
                           else str (String ((Ascii (false, false, false,
                                  false, true, true, true, false)), (String
                                  ((Ascii (true, false, false, false, false,
                                  true, true, false)), (String ((Ascii
                                  (false, true, true, true, false, true,
                                  true, false)), (String ((Ascii (true,
                                  false, false, true, false, true, true,
                                  false)), (String ((Ascii (true, true,
                                  false, false, false, true, true, false)),
                                  EmptyString))))))))))),
                         (if ok
                          then join ((Npos (XI (XI (XO (XO (XO
                                 XH)))))) :: []) ds
                          else [])))
                    | _ ->
                      let compact = false in
                      let (ok, ds) =
                        run_m_go o compact
                          (match p with
                           | [] -> false
                           | n1 :: l0 ->
                             (match n1 with
                              | N0 -> false
                              | Npos p3 ->
                                (match p3 with
                                 | XI p4 ->
                                   (match p4 with
                                    | XO p5 ->
                                      (match p5 with
                                       | XI p6 ->
                                         (match p6 with
                                          | XI p7 ->
                                            (match p7 with
                                             | XO p8 ->
                                               (match p8 with
                                                | XI p9 ->
                                                  (match p9 with
                                                   | XH ->
                                                     (match l0 with
                                                      | [] -> true
                                                      | _ :: _ -> false)
                                                   | _ -> false)
                                                | _ -> false)
                                             | _ -> false)
                                          | _ -> false)
                                       | _ -> false)
                                    | _ -> false)
                                 | _ -> false))) None
                          (split (Npos (XO (XO (XI (XI (XO XH)))))) rest) []
                      in
                      ((if ok
                        then str (String ((Ascii (true, true, true, true,
                               false, true, true, false)), (String ((Ascii
                               (true, true, false, true, false, true, true,
                               false)), EmptyString))))
                        else str (String ((Ascii (false, false, false, false,
                               true, true, true, false)), (String ((Ascii
                               (true, false, false, false, false, true, true,
                               false)), (String ((Ascii (false, true, true,
                               true, false, true, true, false)), (String
                               ((Ascii (true, false, false, true, false,
                               true, true, false)), (String ((Ascii (true,
                               true, false, false, false, true, true,
                               false)), EmptyString))))))))))),
                      (if ok
                       then join ((Npos (XI (XI (XO (XO (XO XH)))))) :: []) ds
                       else [])))
                 | _ ->
                   let compact = false in
                   let (ok, ds) =
                     run_m_go o compact
                       (match p with
                        | [] -> false
                        | n1 :: l0 ->
                          (match n1 with
                           | N0 -> false
                           | Npos p2 ->
                             (match p2 with
                              | XI p3 ->
                                (match p3 with
                                 | XO p4 ->
                                   (match p4 with
                                    | XI p5 ->
                                      (match p5 with
                                       | XI p6 ->
                                         (match p6 with
                                          | XO p7 ->
                                            (match p7 with
                                             | XI p8 ->
                                               (match p8 with
                                                | XH ->
                                                  (match l0 with
                                                   | [] -> true
                                                   | _ :: _ -> false)
                                                | _ -> false)
                                             | _ -> false)
                                          | _ -> false)
                                       | _ -> false)
                                    | _ -> false)
                                 | _ -> false)
                              | _ -> false))) None
                       (split (Npos (XO (XO (XI (XI (XO XH)))))) rest) []
                   in
                   ((if ok
                     then str (String ((Ascii (true, true, true, true, false,
                            true, true, false)), (String ((Ascii (true, true,
                            false, true, false, true, true, false)),
                            EmptyString))))
                     else str (String ((Ascii (false, false, false, false,
                            true, true, true, false)), (String ((Ascii (true,
                            false, false, false, false, true, true, false)),
                            (String ((Ascii (false, true, true, true, false,
                            true, true, false)), (String ((Ascii (true,
                            false, false, true, false, true, true, false)),
                            (String ((Ascii (true, true, false, false, false,
                            true, true, false)), EmptyString))))))))))),
                   (if ok
                    then join ((Npos (XI (XI (XO (XO (XO XH)))))) :: []) ds
                    else [])))
              | _ ->
                let compact = false in
                let (ok, ds) =
                  run_m_go o compact
                    (match p with
                     | [] -> false
                     | n1 :: l0 ->
                       (match n1 with
                        | N0 -> false
                        | Npos p1 ->
                          (match p1 with
                           | XI p2 ->
                             (match p2 with
                              | XO p3 ->
                                (match p3 with
                                 | XI p4 ->
                                   (match p4 with
                                    | XI p5 ->
                                      (match p5 with
                                       | XO p6 ->
                                         (match p6 with
                                          | XI p7 ->
                                            (match p7 with
                                             | XH ->
                                               (match l0 with
                                                | [] -> true
                                                | _ :: _ -> false)
                                             | _ -> false)
                                          | _ -> false)
                                       | _ -> false)
                                    | _ -> false)
                                 | _ -> false)
                              | _ -> false)
                           | _ -> false))) None
                    (split (Npos (XO (XO (XI (XI (XO XH)))))) rest) []
                in
                ((if ok
                  then str (String ((Ascii (true, true, true, true, false,
                         true, true, false)), (String ((Ascii (true, true,
                         false, true, false, true, true, false)),
                         EmptyString))))
                  else str (String ((Ascii (false, false, false, false, true,
                         true, true, false)), (String ((Ascii (true, false,
                         false, false, false, true, true, false)), (String
                         ((Ascii (false, true, true, true, false, true, true,
                         false)), (String ((Ascii (true, false, false, true,
                         false, true, true, false)), (String ((Ascii (true,
                         true, false, false, false, true, true, false)),
                         EmptyString))))))))))),
                (if ok
                 then join ((Npos (XI (XI (XO (XO (XO XH)))))) :: []) ds
                 else []))))))

(** val run_k_go : nat -> n -> n -> bytes list -> bytes list **)

let rec run_k_go n0 a step0 acc =
  match n0 with
  | O -> rev_append acc []
  | S k -> run_k_go k (N.add a step0) step0 ((str (icao_to_country a)) :: acc)

(** val run_k : bytes -> bytes * bytes **)

let run_k body =
  match split (Npos (XO (XI (XO (XI (XI XH)))))) body with
  | [] ->
    ((str (String ((Ascii (true, true, false, false, true, true, true,
       false)), (String ((Ascii (true, true, false, true, false, true, true,
       false)), (String ((Ascii (true, false, false, true, false, true, true,
       false)), (String ((Ascii (false, false, false, false, true, true,
       true, false)), EmptyString))))))))), [])
  | s :: l ->
    (match l with
     | [] ->
       ((str (String ((Ascii (true, true, false, false, true, true, true,
          false)), (String ((Ascii (true, true, false, true, false, true,
          true, false)), (String ((Ascii (true, false, false, true, false,
          true, true, false)), (String ((Ascii (false, false, false, false,
          true, true, true, false)), EmptyString))))))))), [])
     | c :: l0 ->
       (match l0 with
        | [] ->
          ((str (String ((Ascii (true, true, false, false, true, true, true,
             false)), (String ((Ascii (true, true, false, true, false, true,
             true, false)), (String ((Ascii (true, false, false, true, false,
             true, true, false)), (String ((Ascii (false, false, false,
             false, true, true, true, false)), EmptyString))))))))), [])
        | st :: l1 ->
          (match l1 with
           | [] ->
             ((str (String ((Ascii (true, true, true, true, false, true,
                true, false)), (String ((Ascii (true, true, false, true,
                false, true, true, false)), EmptyString))))),
               (join ((Npos (XO (XO (XI (XI (XO XH)))))) :: [])
                 (run_k_go (N.to_nat (parse_dec c)) (parse_dec s)
                   (parse_dec st) [])))
           | _ :: _ ->
             ((str (String ((Ascii (true, true, false, false, true, true,
                true, false)), (String ((Ascii (true, true, false, true,
                false, true, true, false)), (String ((Ascii (true, false,
                false, true, false, true, true, false)), (String ((Ascii
                (false, false, false, false, true, true, true, false)),
                EmptyString))))))))), []))))

(** val run_case : bytes -> bytes **)

let run_case line =
  match split (Npos (XI (XO (XO XH)))) line with
  | [] -> []
  | id0 :: l ->
    (match l with
     | [] -> []
     | kind :: l0 ->
       (match l0 with
        | [] -> []
        | os :: l1 ->
          (match l1 with
           | [] -> []
           | body :: _ ->
             let o = parse_opts os in
             let (oc, obs) =
               match kind with
               | [] ->
                 ((str (String ((Ascii (true, true, false, false, true, true,
                    true, false)), (String ((Ascii (true, true, false, true,
                    false, true, true, false)), (String ((Ascii (true, false,
                    false, true, false, true, true, false)), (String ((Ascii
                    (false, false, false, false, true, true, true, false)),
                    EmptyString))))))))), [])
               | n0 :: l2 ->
                 (match n0 with
                  | N0 ->
                    ((str (String ((Ascii (true, true, false, false, true,
                       true, true, false)), (String ((Ascii (true, true,
                       false, true, false, true, true, false)), (String
                       ((Ascii (true, false, false, true, false, true, true,
                       false)), (String ((Ascii (false, false, false, false,
                       true, true, true, false)), EmptyString))))))))), [])
                  | Npos p ->
                    (match p with
                     | XI p0 ->
                       (match p0 with
                        | XI p1 ->
                          (match p1 with
                           | XI p2 ->
                             (match p2 with
                              | XI _ ->
                                ((str (String ((Ascii (true, true, false,
                                   false, true, true, true, false)), (String
                                   ((Ascii (true, true, false, true, false,
                                   true, true, false)), (String ((Ascii
                                   (true, false, false, true, false, true,
                                   true, false)), (String ((Ascii (false,
                                   false, false, false, true, true, true,
                                   false)), EmptyString))))))))), [])
                              | XO p3 ->
                                (match p3 with
                                 | XI _ ->
                                   ((str (String ((Ascii (true, true, false,
                                      false, true, true, true, false)),
                                      (String ((Ascii (true, true, false,
                                      true, false, true, true, false)),
                                      (String ((Ascii (true, false, false,
                                      true, false, true, true, false)),
                                      (String ((Ascii (false, false, false,
                                      false, true, true, true, false)),
                                      EmptyString))))))))), [])
                                 | XO p4 ->
                                   (match p4 with
                                    | XI _ ->
                                      ((str (String ((Ascii (true, true,
                                         false, false, true, true, true,
                                         false)), (String ((Ascii (true,
                                         true, false, true, false, true,
                                         true, false)), (String ((Ascii
                                         (true, false, false, true, false,
                                         true, true, false)), (String ((Ascii
                                         (false, false, false, false, true,
                                         true, true, false)),
                                         EmptyString))))))))), [])
                                    | XO p5 ->
                                      (match p5 with
                                       | XI _ ->
                                         ((str (String ((Ascii (true, true,
                                            false, false, true, true, true,
                                            false)), (String ((Ascii (true,
                                            true, false, true, false, true,
                                            true, false)), (String ((Ascii
                                            (true, false, false, true, false,
                                            true, true, false)), (String
                                            ((Ascii (false, false, false,
                                            false, true, true, true, false)),
                                            EmptyString))))))))), [])
                                       | XO _ ->
                                         ((str (String ((Ascii (true, true,
                                            false, false, true, true, true,
                                            false)), (String ((Ascii (true,
                                            true, false, true, false, true,
                                            true, false)), (String ((Ascii
                                            (true, false, false, true, false,
                                            true, true, false)), (String
                                            ((Ascii (false, false, false,
                                            false, true, true, true, false)),
                                            EmptyString))))))))), [])
                                       | XH ->
                                         (match l2 with
                                          | [] -> run_g body
                                          | _ :: _ ->
                                            ((str (String ((Ascii (true,
                                               true, false, false, true,
                                               true, true, false)), (String
                                               ((Ascii (true, true, false,
                                               true, false, true, true,
                                               false)), (String ((Ascii
                                               (true, false, false, true,
                                               false, true, true, false)),
                                               (String ((Ascii (false, false,
                                               false, false, true, true,
                                               true, false)),
                                               EmptyString))))))))), [])))
                                    | XH ->
                                      ((str (String ((Ascii (true, true,
                                         false, false, true, true, true,
                                         false)), (String ((Ascii (true,
                                         true, false, true, false, true,
                                         true, false)), (String ((Ascii
                                         (true, false, false, true, false,
                                         true, true, false)), (String ((Ascii
                                         (false, false, false, false, true,
                                         true, true, false)),
                                         EmptyString))))))))), []))
                                 | XH ->
                                   ((str (String ((Ascii (true, true, false,
                                      false, true, true, true, false)),
                                      (String ((Ascii (true, true, false,
                                      true, false, true, true, false)),
                                      (String ((Ascii (true, false, false,
                                      true, false, true, true, false)),
                                      (String ((Ascii (false, false, false,
                                      false, true, true, true, false)),
                                      EmptyString))))))))), []))
                              | XH ->
                                ((str (String ((Ascii (true, true, false,
                                   false, true, true, true, false)), (String
                                   ((Ascii (true, true, false, true, false,
                                   true, true, false)), (String ((Ascii
                                   (true, false, false, true, false, true,
                                   true, false)), (String ((Ascii (false,
                                   false, false, false, true, true, true,
                                   false)), EmptyString))))))))), []))
                           | XO p2 ->
                             (match p2 with
                              | XI p3 ->
                                (match p3 with
                                 | XO p4 ->
                                   (match p4 with
                                    | XO p5 ->
                                      (match p5 with
                                       | XH ->
                                         (match l2 with
                                          | [] -> run_k body
                                          | _ :: _ ->
                                            ((str (String ((Ascii (true,
                                               true, false, false, true,
                                               true, true, false)), (String
                                               ((Ascii (true, true, false,
                                               true, false, true, true,
                                               false)), (String ((Ascii
                                               (true, false, false, true,
                                               false, true, true, false)),
                                               (String ((Ascii (false, false,
                                               false, false, true, true,
                                               true, false)),
                                               EmptyString))))))))), []))
                                       | _ ->
                                         ((str (String ((Ascii (true, true,
                                            false, false, true, true, true,
                                            false)), (String ((Ascii (true,
                                            true, false, true, false, true,
                                            true, false)), (String ((Ascii
                                            (true, false, false, true, false,
                                            true, true, false)), (String
                                            ((Ascii (false, false, false,
                                            false, true, true, true, false)),
                                            EmptyString))))))))), []))
                                    | _ ->
                                      ((str (String ((Ascii (true, true,
                                         false, false, true, true, true,
                                         false)), (String ((Ascii (true,
                                         true, false, true, false, true,
                                         true, false)), (String ((Ascii
                                         (true, false, false, true, false,
                                         true, true, false)), (String ((Ascii
                                         (false, false, false, false, true,
                                         true, true, false)),
                                         EmptyString))))))))), []))
                                 | _ ->
                                   ((str (String ((Ascii (true, true, false,
                                      false, true, true, true, false)),
                                      (String ((Ascii (true, true, false,
                                      true, false, true, true, false)),
                                      (String ((Ascii (true, false, false,
                                      true, false, true, true, false)),
                                      (String ((Ascii (false, false, false,
                                      false, true, true, true, false)),
                                      EmptyString))))))))), []))
                              | _ ->
                                ((str (String ((Ascii (true, true, false,
                                   false, true, true, true, false)), (String
                                   ((Ascii (true, true, false, true, false,
                                   true, true, false)), (String ((Ascii
                                   (true, false, false, true, false, true,
                                   true, false)), (String ((Ascii (false,
                                   false, false, false, true, true, true,
                                   false)), EmptyString))))))))), []))
                           | XH ->
                             ((str (String ((Ascii (true, true, false, false,
                                true, true, true, false)), (String ((Ascii
                                (true, true, false, true, false, true, true,
                                false)), (String ((Ascii (true, false, false,
                                true, false, true, true, false)), (String
                                ((Ascii (false, false, false, false, true,
                                true, true, false)), EmptyString))))))))), []))
                        | XO p1 ->
                          (match p1 with
                           | XI p2 ->
                             (match p2 with
                              | XI p3 ->
                                (match p3 with
                                 | XO p4 ->
                                   (match p4 with
                                    | XO p5 ->
                                      (match p5 with
                                       | XH ->
                                         (match l2 with
                                          | [] -> run_m o body
                                          | _ :: _ ->
                                            ((str (String ((Ascii (true,
                                               true, false, false, true,
                                               true, true, false)), (String
                                               ((Ascii (true, true, false,
                                               true, false, true, true,
                                               false)), (String ((Ascii
                                               (true, false, false, true,
                                               false, true, true, false)),
                                               (String ((Ascii (false, false,
                                               false, false, true, true,
                                               true, false)),
                                               EmptyString))))))))), []))
                                       | _ ->
                                         ((str (String ((Ascii (true, true,
                                            false, false, true, true, true,
                                            false)), (String ((Ascii (true,
                                            true, false, true, false, true,
                                            true, false)), (String ((Ascii
                                            (true, false, false, true, false,
                                            true, true, false)), (String
                                            ((Ascii (false, false, false,
                                            false, true, true, true, false)),
                                            EmptyString))))))))), []))
                                    | _ ->
                                      ((str (String ((Ascii (true, true,
                                         false, false, true, true, true,
                                         false)), (String ((Ascii (true,
                                         true, false, true, false, true,
                                         true, false)), (String ((Ascii
                                         (true, false, false, true, false,
                                         true, true, false)), (String ((Ascii
                                         (false, false, false, false, true,
                                         true, true, false)),
                                         EmptyString))))))))), []))
                                 | _ ->
                                   ((str (String ((Ascii (true, true, false,
                                      false, true, true, true, false)),
                                      (String ((Ascii (true, true, false,
                                      true, false, true, true, false)),
                                      (String ((Ascii (true, false, false,
                                      true, false, true, true, false)),
                                      (String ((Ascii (false, false, false,
                                      false, true, true, true, false)),
                                      EmptyString))))))))), []))
                              | _ ->
                                ((str (String ((Ascii (true, true, false,
                                   false, true, true, true, false)), (String
                                   ((Ascii (true, true, false, true, false,
                                   true, true, false)), (String ((Ascii
                                   (true, false, false, true, false, true,
                                   true, false)), (String ((Ascii (false,
                                   false, false, false, true, true, true,
                                   false)), EmptyString))))))))), []))
                           | _ ->
                             ((str (String ((Ascii (true, true, false, false,
                                true, true, true, false)), (String ((Ascii
                                (true, true, false, true, false, true, true,
                                false)), (String ((Ascii (true, false, false,
                                true, false, true, true, false)), (String
                                ((Ascii (false, false, false, false, true,
                                true, true, false)), EmptyString))))))))), []))
                        | XH ->
                          ((str (String ((Ascii (true, true, false, false,
                             true, true, true, false)), (String ((Ascii
                             (true, true, false, true, false, true, true,
                             false)), (String ((Ascii (true, false, false,
                             true, false, true, true, false)), (String
                             ((Ascii (false, false, false, false, true, true,
                             true, false)), EmptyString))))))))), []))
                     | XO p0 ->
                       (match p0 with
                        | XO p1 ->
                          (match p1 with
                           | XO p2 ->
                             (match p2 with
                              | XI p3 ->
                                (match p3 with
                                 | XO p4 ->
                                   (match p4 with
                                    | XO p5 ->
                                      (match p5 with
                                       | XH ->
                                         (match l2 with
                                          | [] -> run_h o body
                                          | _ :: _ ->
                                            ((str (String ((Ascii (true,
                                               true, false, false, true,
                                               true, true, false)), (String
                                               ((Ascii (true, true, false,
                                               true, false, true, true,
                                               false)), (String ((Ascii
                                               (true, false, false, true,
                                               false, true, true, false)),
                                               (String ((Ascii (false, false,
                                               false, false, true, true,
                                               true, false)),
                                               EmptyString))))))))), []))
                                       | _ ->
                                         ((str (String ((Ascii (true, true,
                                            false, false, true, true, true,
                                            false)), (String ((Ascii (true,
                                            true, false, true, false, true,
                                            true, false)), (String ((Ascii
                                            (true, false, false, true, false,
                                            true, true, false)), (String
                                            ((Ascii (false, false, false,
                                            false, true, true, true, false)),
                                            EmptyString))))))))), []))
                                    | _ ->
                                      ((str (String ((Ascii (true, true,
                                         false, false, true, true, true,
                                         false)), (String ((Ascii (true,
                                         true, false, true, false, true,
                                         true, false)), (String ((Ascii
                                         (true, false, false, true, false,
                                         true, true, false)), (String ((Ascii
                                         (false, false, false, false, true,
                                         true, true, false)),
                                         EmptyString))))))))), []))
                                 | _ ->
                                   ((str (String ((Ascii (true, true, false,
                                      false, true, true, true, false)),
                                      (String ((Ascii (true, true, false,
                                      true, false, true, true, false)),
                                      (String ((Ascii (true, false, false,
                                      true, false, true, true, false)),
                                      (String ((Ascii (false, false, false,
                                      false, true, true, true, false)),
                                      EmptyString))))))))), []))
                              | _ ->
                                ((str (String ((Ascii (true, true, false,
                                   false, true, true, true, false)), (String
                                   ((Ascii (true, true, false, true, false,
                                   true, true, false)), (String ((Ascii
                                   (true, false, false, true, false, true,
                                   true, false)), (String ((Ascii (false,
                                   false, false, false, true, true, true,
                                   false)), EmptyString))))))))), []))
                           | _ ->
                             ((str (String ((Ascii (true, true, false, false,
                                true, true, true, false)), (String ((Ascii
                                (true, true, false, true, false, true, true,
                                false)), (String ((Ascii (true, false, false,
                                true, false, true, true, false)), (String
                                ((Ascii (false, false, false, false, true,
                                true, true, false)), EmptyString))))))))), []))
                        | _ ->
                          ((str (String ((Ascii (true, true, false, false,
                             true, true, true, false)), (String ((Ascii
                             (true, true, false, true, false, true, true,
                             false)), (String ((Ascii (true, false, false,
                             true, false, true, true, false)), (String
                             ((Ascii (false, false, false, false, true, true,
                             true, false)), EmptyString))))))))), []))
                     | XH ->
                       ((str (String ((Ascii (true, true, false, false, true,
                          true, true, false)), (String ((Ascii (true, true,
                          false, true, false, true, true, false)), (String
                          ((Ascii (true, false, false, true, false, true,
                          true, false)), (String ((Ascii (false, false,
                          false, false, true, true, true, false)),
                          EmptyString))))))))), [])))
             in
             app id0
               (app ((Npos (XI (XO (XO XH)))) :: [])
                 (app oc (app ((Npos (XI (XO (XO XH)))) :: []) obs))))))

(** val spaces : nat -> bytes **)

let spaces n0 =
  repeat (Npos (XO (XO (XO (XO (XO XH)))))) n0

(** val pad_left : nat -> bytes -> bytes **)

let pad_left w s =
  app (spaces (sub w (length s))) s

(** val pad_right : nat -> bytes -> bytes **)

let pad_right w s =
  app s (spaces (sub w (length s)))

(** val zero_pad : nat -> bytes -> bytes **)

let zero_pad w s =
  app (repeat (Npos (XO (XO (XO (XO (XI XH)))))) (sub w (length s))) s

(** val round_half_even : q -> z **)

let round_half_even q0 =
  let f = qfloor q0 in
  let r = qminus q0 { qnum = f; qden = XH } in
  (match qcompare r { qnum = (Zpos XH); qden = (XO XH) } with
   | Eq -> if Z.even f then f else Z.add f (Zpos XH)
   | Lt -> f
   | Gt -> Z.add f (Zpos XH))

(** val fmt_fixed : nat -> q -> bytes **)

let fmt_fixed p q0 =
  let scale = Z.pow (Zpos (XO (XI (XO XH)))) (Z.of_nat p) in
  let neg = qlt_bool q0 { qnum = Z0; qden = XH } in
  let a = qabs q0 in
  let n0 = round_half_even (qmult a { qnum = scale; qden = XH }) in
  let ip = Z.div n0 scale in
  let fp = Z.modulo n0 scale in
  let body =
    app (decz ip)
      (match p with
       | O -> []
       | S _ ->
         app ((Npos (XO (XI (XI (XI (XO XH)))))) :: []) (zero_pad p (decz fp)))
  in
  if neg then (Npos (XI (XO (XI (XI (XO XH)))))) :: body else body

(** val has_flag : opts -> n -> bool **)

let has_flag o c =
  existsb (fun x -> N.eqb x c) o.display_info

(** val fl_weather : opts -> bool **)

let fl_weather o =
  has_flag o (Npos (XI (XI (XI (XO (XI (XI XH)))))))

(** val fl_angles : opts -> bool **)

let fl_angles o =
  has_flag o (Npos (XI (XO (XO (XO (XO (XI XH)))))))

(** val fl_speed : opts -> bool **)

let fl_speed o =
  has_flag o (Npos (XI (XI (XO (XO (XI (XI XH)))))))

(** val fl_altitude : opts -> bool **)

let fl_altitude o =
  has_flag o (Npos (XI (XO (XO (XO (XO (XO XH)))))))

(** val fl_extra : opts -> bool **)

let fl_extra o =
  has_flag o (Npos (XI (XO (XI (XO (XO (XI XH)))))))

(** val group_on : opts -> string -> bool **)

let group_on o g =
  if eqb1 g EmptyString
  then true
  else if eqb1 g (String ((Ascii (true, false, false, false, false, true,
            true, false)), (String ((Ascii (false, false, true, true, false,
            true, true, false)), (String ((Ascii (false, false, true, false,
            true, true, true, false)), (String ((Ascii (true, false, false,
            true, false, true, true, false)), (String ((Ascii (false, false,
            true, false, true, true, true, false)), (String ((Ascii (true,
            false, true, false, true, true, true, false)), (String ((Ascii
            (false, false, true, false, false, true, true, false)), (String
            ((Ascii (true, false, true, false, false, true, true, false)),
            EmptyString))))))))))))))))
       then fl_altitude o
       else if eqb1 g (String ((Ascii (true, true, false, false, true, true,
                 true, false)), (String ((Ascii (false, false, false, false,
                 true, true, true, false)), (String ((Ascii (true, false,
                 true, false, false, true, true, false)), (String ((Ascii
                 (true, false, true, false, false, true, true, false)),
                 (String ((Ascii (false, false, true, false, false, true,
                 true, false)), EmptyString))))))))))
            then fl_speed o
            else if eqb1 g (String ((Ascii (true, false, false, false, false,
                      true, true, false)), (String ((Ascii (false, true,
                      true, true, false, true, true, false)), (String ((Ascii
                      (true, true, true, false, false, true, true, false)),
                      (String ((Ascii (false, false, true, true, false, true,
                      true, false)), (String ((Ascii (true, false, true,
                      false, false, true, true, false)), (String ((Ascii
                      (true, true, false, false, true, true, true, false)),
                      EmptyString))))))))))))
                 then fl_angles o
                 else if eqb1 g (String ((Ascii (true, true, true, false,
                           true, true, true, false)), (String ((Ascii (true,
                           false, true, false, false, true, true, false)),
                           (String ((Ascii (true, false, false, false, false,
                           true, true, false)), (String ((Ascii (false,
                           false, true, false, true, true, true, false)),
                           (String ((Ascii (false, false, false, true, false,
                           true, true, false)), (String ((Ascii (true, false,
                           true, false, false, true, true, false)), (String
                           ((Ascii (false, true, false, false, true, true,
                           true, false)), EmptyString))))))))))))))
                      then fl_weather o
                      else if eqb1 g (String ((Ascii (true, false, true,
                                false, false, true, true, false)), (String
                                ((Ascii (false, false, false, true, true,
                                true, true, false)), (String ((Ascii (false,
                                false, true, false, true, true, true,
                                false)), (String ((Ascii (false, true, false,
                                false, true, true, true, false)), (String
                                ((Ascii (true, false, false, false, false,
                                true, true, false)), EmptyString))))))))))
                           then fl_extra o
                           else false

(** val header_line : opts -> bytes **)

let header_line o =
  app
    (concat
      (map (fun pat ->
        let (y, w) = pat in
        let (g, name) = y in
        if group_on o g
        then app (pad_left w (str name)) ((Npos (XO (XO (XO (XO (XO
               XH)))))) :: [])
        else []) header_cols)) (str header_tail)

(** val separator_line : opts -> bytes **)

let separator_line o =
  app
    (concat
      (map (fun pat ->
        let (y, w) = pat in
        let (g, _) = y in
        if group_on o g
        then app (repeat (Npos (XI (XO (XI (XI (XO XH)))))) w) ((Npos (XO (XO
               (XO (XO (XO XH)))))) :: [])
        else []) header_cols)) (str separator_tail)

(** val cell_oN : nat -> n option -> bytes **)

let cell_oN w = function
| Some x ->
  app (pad_left w (dec x)) ((Npos (XO (XO (XO (XO (XO XH)))))) :: [])
| None -> app (spaces w) ((Npos (XO (XO (XO (XO (XO XH)))))) :: [])

(** val cell_oZ : nat -> z option -> bytes **)

let cell_oZ w = function
| Some x ->
  app (pad_left w (decz x)) ((Npos (XO (XO (XO (XO (XO XH)))))) :: [])
| None -> app (spaces w) ((Npos (XO (XO (XO (XO (XO XH)))))) :: [])

(** val age10 : z -> z option -> bytes **)

let age10 now = function
| Some t0 ->
  (hexdigit
    (Z.to_N
      (Z.coq_land (Z.quot (num_seconds now t0) (Zpos (XO (XI (XO XH)))))
        (Zpos (XI (XI (XI XH))))))) :: []
| None -> (Npos (XO (XO (XO (XO (XO XH)))))) :: []

(** val render_row : opts -> z -> (row -> bytes) -> row -> bytes **)

let render_row o now dcell r =
  app
    (zero_pad (S (S (S (S (S (S O))))))
      (hex_go (S (S (S (S (S (S O)))))) r.icao []))
    (app ((Npos (XO (XO (XO (XO (XO XH)))))) :: [])
      (app (pad_right (S (S O)) (str r.reg))
        (app ((Npos (XO (XO (XO (XO (XO XH)))))) :: [])
          (app
            (match r.r_squawk with
             | Some s -> zero_pad (S (S (S (S O)))) (dec s)
             | None -> spaces (S (S (S (S O)))))
            (app
              (match r.threat with
               | Some c -> c :: []
               | None -> (Npos (XO (XO (XO (XO (XO XH)))))) :: [])
              (app
                (match get_wake_turbulence_category r.category with
                 | Some w -> w :: ((Npos (XO (XO (XO (XO (XO XH)))))) :: [])
                 | None ->
                   (Npos (XO (XO (XO (XO (XO XH)))))) :: ((Npos (XO (XO (XO
                     (XO (XO XH)))))) :: []))
                (app
                  (match r.r_ais with
                   | Some a ->
                     app (pad_right (S (S (S (S (S (S (S (S O)))))))) a)
                       ((Npos (XO (XO (XO (XO (XO XH)))))) :: [])
                   | None ->
                     app (spaces (S (S (S (S (S (S (S (S O))))))))) ((Npos
                       (XO (XO (XO (XO (XO XH)))))) :: []))
                  (app
                    (if (&&) (negb (qeq_bool r.lat { qnum = Z0; qden = XH }))
                          (negb (qeq_bool r.lon { qnum = Z0; qden = XH }))
                     then app
                            (pad_left (S (S (S (S (S (S (S (S (S O)))))))))
                              (fmt_fixed (S (S (S (S (S O))))) r.lat))
                            (app ((Npos (XO (XO (XO (XO (XO XH)))))) :: [])
                              (app
                                (pad_left (S (S (S (S (S (S (S (S (S (S (S
                                  O)))))))))))
                                  (fmt_fixed (S (S (S (S (S O))))) r.lon))
                                ((Npos (XO (XO (XO (XO (XO XH)))))) :: [])))
                     else app (spaces (S (S (S (S (S (S (S (S (S O))))))))))
                            (app ((Npos (XO (XO (XO (XO (XO XH)))))) :: [])
                              (app
                                (spaces (S (S (S (S (S (S (S (S (S (S (S
                                  O)))))))))))) ((Npos (XO (XO (XO (XO (XO
                                XH)))))) :: []))))
                    (app
                      (match r.dist with
                       | Some _ ->
                         app (pad_left (S (S (S (S (S O))))) (dcell r))
                           ((Npos (XO (XO (XO (XO (XO XH)))))) :: [])
                       | None ->
                         app (spaces (S (S (S (S (S O)))))) ((Npos (XO (XO
                           (XO (XO (XO XH)))))) :: []))
                      (app
                        (match r.r_altitude with
                         | Some a ->
                           app (pad_left (S (S (S (S (S O))))) (dec a))
                             (r.altitude_source :: [])
                         | None ->
                           app (spaces (S (S (S (S (S O)))))) ((Npos (XO (XO
                             (XO (XO (XO XH)))))) :: []))
                        (app
                          (if fl_altitude o
                           then app
                                  (cell_oN (S (S (S (S (S O)))))
                                    r.altitude_gnss_)
                                  (app
                                    (match r.selected_altitude with
                                     | Some a ->
                                       app
                                         (pad_left (S (S (S (S (S O)))))
                                           (dec a))
                                         (r.target_alt_source :: [])
                                     | None ->
                                       app (spaces (S (S (S (S (S O))))))
                                         ((Npos (XO (XO (XO (XO (XO
                                         XH)))))) :: []))
                                    (cell_oN (S (S (S (S O)))) r.baro_setting))
                           else [])
                          (app
                            (match r.vrate with
                             | Some v ->
                               app (pad_left (S (S (S (S (S O))))) (decz v))
                                 (r.vrate_source :: [])
                             | None -> spaces (S (S (S (S (S (S O)))))))
                            (app
                              (match r.track with
                               | Some v ->
                                 app (pad_left (S (S (S O))) (dec v))
                                   (r.track_source :: [])
                               | None -> spaces (S (S (S (S O)))))
                              (app
                                (match r.r_heading with
                                 | Some v ->
                                   app (pad_left (S (S (S O))) (dec v))
                                     (r.heading_source :: [])
                                 | None -> spaces (S (S (S (S O)))))
                                (app (cell_oN (S (S (S O))) r.grspeed)
                                  (app
                                    (if fl_speed o
                                     then app
                                            (cell_oN (S (S (S O)))
                                              r.true_airspeed)
                                            (app
                                              (cell_oN (S (S (S O)))
                                                r.indicated_airspeed)
                                              (match r.mach with
                                               | Some q0 ->
                                                 app
                                                   (pad_left (S (S (S (S
                                                     O))))
                                                     (fmt_fixed (S (S O)) q0))
                                                   ((Npos (XO (XO (XO (XO (XO
                                                   XH)))))) :: [])
                                               | None ->
                                                 app
                                                   (spaces (S (S (S (S O)))))
                                                   ((Npos (XO (XO (XO (XO (XO
                                                   XH)))))) :: [])))
                                     else [])
                                    (app
                                      (if fl_angles o
                                       then app
                                              (cell_oZ (S (S (S O)))
                                                r.roll_angle)
                                              (cell_oZ (S (S (S O)))
                                                r.track_angle_rate)
                                       else [])
                                      (app
                                        (if fl_weather o
                                         then app
                                                (match r.temperature with
                                                 | Some q0 ->
                                                   app
                                                     (pad_left (S (S (S (S (S
                                                       O)))))
                                                       (fmt_fixed (S O) q0))
                                                     ((Npos (XO (XO (XO (XO
                                                     (XO XH)))))) :: [])
                                                 | None ->
                                                   app
                                                     (spaces (S (S (S (S (S
                                                       O)))))) ((Npos (XO (XO
                                                     (XO (XO (XO
                                                     XH)))))) :: []))
                                                (app
                                                  (match r.wind with
                                                   | Some p ->
                                                     let (a, b) = p in
                                                     app
                                                       (pad_left (S (S (S
                                                         O))) (dec a))
                                                       (app ((Npos (XO (XO
                                                         (XO (XO (XO
                                                         XH)))))) :: [])
                                                         (app
                                                           (pad_left (S (S (S
                                                             O))) (dec b))
                                                           ((Npos (XO (XO (XO
                                                           (XO (XO
                                                           XH)))))) :: [])))
                                                   | None ->
                                                     app
                                                       (spaces (S (S (S (S (S
                                                         (S (S O))))))))
                                                       ((Npos (XO (XO (XO (XO
                                                       (XO XH)))))) :: []))
                                                  (app
                                                    (cell_oN (S (S (S O)))
                                                      r.humidity)
                                                    (app
                                                      (cell_oN (S (S (S (S
                                                        O)))) r.pressure)
                                                      (cell_oN (S (S O))
                                                        r.turbulence))))
                                         else [])
                                        (app
                                          (if fl_extra o
                                           then app (dec (fst r.category))
                                                  (app (dec (snd r.category))
                                                    (app ((Npos (XO (XO (XO
                                                      (XO (XO XH)))))) :: [])
                                                      (app
                                                        (if negb
                                                              (N.eqb
                                                                r.last_df N0)
                                                         then app
                                                                (pad_left (S
                                                                  (S O))
                                                                  (dec
                                                                    r.last_df))
                                                                ((Npos (XO
                                                                (XO (XO (XO
                                                                (XO
                                                                XH)))))) :: [])
                                                         else app
                                                                (spaces (S (S
                                                                  O))) ((Npos
                                                                (XO (XO (XO
                                                                (XO (XO
                                                                XH)))))) :: []))
                                                        (app
                                                          (if negb
                                                                (N.eqb
                                                                  r.last_tc
                                                                  N0)
                                                           then app
                                                                  (pad_left
                                                                    (S (S O))
                                                                    (dec
                                                                    r.last_tc))
                                                                  ((Npos (XO
                                                                  (XO (XO (XO
                                                                  (XO
                                                                  XH)))))) :: [])
                                                           else app
                                                                  (spaces (S
                                                                    (S O)))
                                                                  ((Npos (XO
                                                                  (XO (XO (XO
                                                                  (XO
                                                                  XH)))))) :: []))
                                                          (app
                                                            (match r.adsb_version with
                                                             | Some v ->
                                                               app
                                                                 (pad_right
                                                                   (S O)
                                                                   (dec v))
                                                                 ((Npos (XO
                                                                 (XO (XO (XO
                                                                 (XO
                                                                 XH)))))) :: [])
                                                             | None ->
                                                               (Npos (XO (XO
                                                                 (XO (XO (XO
                                                                 XH)))))) :: ((Npos
                                                                 (XO (XO (XO
                                                                 (XO (XO
                                                                 XH)))))) :: []))
                                                            (app
                                                              (r.surv_status :: ((Npos
                                                              (XO (XO (XO (XO
                                                              (XO
                                                              XH)))))) :: []))
                                                              (app
                                                                (age10 now
                                                                  r.position_t)
                                                                (app
                                                                  (age10 now
                                                                    r.track_t)
                                                                  (match r.heading_t with
                                                                   | Some _ ->
                                                                    app
                                                                    (age10
                                                                    now
                                                                    r.heading_t)
                                                                    ((Npos
                                                                    (XO (XO
                                                                    (XO (XO
                                                                    (XO
                                                                    XH)))))) :: [])
                                                                   | None ->
                                                                    (Npos (XO
                                                                    (XO (XO
                                                                    (XO (XO
                                                                    XH)))))) :: ((Npos
                                                                    (XO (XO
                                                                    (XO (XO
                                                                    (XO
                                                                    XH)))))) :: []))))))))))
                                           else [])
                                          (pad_left (S (S O))
                                            (decz
                                              (num_seconds now r.timestamp))))))))))))))))))))))

(** val counter_line : counters -> bytes **)

let counter_line c =
  concat
    (map (fun pat ->
      let (df, n0) = pat in
      app
        (str (String ((Ascii (false, false, true, false, false, false, true,
          false)), (String ((Ascii (false, true, true, false, false, false,
          true, false)), EmptyString)))))
        (app (dec df)
          (app ((Npos (XO (XI (XO (XI (XI XH)))))) :: [])
            (app (decz n0) ((Npos (XO (XO (XO (XO (XO XH)))))) :: [])))))
      c.df_count)

(** val render_frame :
    opts -> z -> (row -> z) -> (row -> bytes) -> state -> bytes list **)

let render_frame o now dkey dcell s =
  app ((header_line o) :: ((separator_line o) :: []))
    (app
      (map (fun p -> render_row o now dcell (snd p))
        (print_order dkey o.order_by s.tbl))
      (app ((separator_line o) :: [])
        (if o.count_df then (counter_line s.cnt) :: [] else [])))

(** val run_cli_lines :
    opts -> z -> state -> n list option list -> bytes list list -> bytes list
    list res **)

let rec run_cli_lines o now s ls acc =
  match ls with
  | [] -> Ok (rev_append acc [])
  | l :: t ->
    bind (step o now s l) (fun pat ->
      let (p, _) = pat in
      let (s', refresh) = p in
      run_cli_lines o now s' t
        (if refresh
         then (render_frame o now (fun _ -> Z0) (fun _ ->
                str (String ((Ascii (true, true, true, true, true, true,
                  false, false)), (String ((Ascii (true, true, true, true,
                  true, true, false, false)), (String ((Ascii (true, true,
                  true, true, true, true, false, false)), (String ((Ascii
                  (true, true, true, true, true, true, false, false)),
                  (String ((Ascii (true, true, true, true, true, true, false,
                  false)), EmptyString))))))))))) s') :: acc
         else acc))

(** val run_cli : opts -> z -> bytes -> bytes list list res **)

let run_cli o now bs =
  run_cli_lines o now { tbl = []; cnt = (counters_new now o.update_s) }
    (text_lines bs) []

type conn_event =
| Refused
| Delivered of bytes * bool

(** val pause_after : conn_event -> n **)

let pause_after = function
| Refused -> Npos (XI (XO XH))
| Delivered (_, clean) -> if clean then N0 else Npos (XI (XO XH))

(** val run_tcp_loop :
    opts -> z -> table -> conn_event list -> (table * n list) res **)

let rec run_tcp_loop o now t = function
| [] -> Ok (t, [])
| e :: rest ->
  bind
    (match e with
     | Refused -> Ok t
     | Delivered (bs, _) -> read_lines o now t bs) (fun t' ->
    bind (run_tcp_loop o now t' rest) (fun pat ->
      let (t2, ps) = pat in Ok (t2, ((pause_after e) :: ps))))

(** val run_c : opts -> bytes -> bytes * bytes **)

let run_c o body =
  match split_on (Npos (XO (XI (XO (XI (XI XH)))))) body [] with
  | [] ->
    ((str (String ((Ascii (true, true, false, false, true, true, true,
       false)), (String ((Ascii (true, true, false, true, false, true, true,
       false)), (String ((Ascii (true, false, false, true, false, true, true,
       false)), (String ((Ascii (false, false, false, false, true, true,
       true, false)), EmptyString))))))))), [])
  | _ :: l ->
    (match l with
     | [] ->
       ((str (String ((Ascii (true, true, false, false, true, true, true,
          false)), (String ((Ascii (true, true, false, true, false, true,
          true, false)), (String ((Ascii (true, false, false, true, false,
          true, true, false)), (String ((Ascii (false, false, false, false,
          true, true, true, false)), EmptyString))))))))), [])
     | rest :: _ ->
       (match run_cli o Z0 (seg_bytes rest) with
        | Ok frames ->
          ((str (String ((Ascii (true, true, true, true, false, true, true,
             false)), (String ((Ascii (true, true, false, true, false, true,
             true, false)), EmptyString))))),
            (join ((Npos (XO (XI (XI (XI XH))))) :: [])
              (map (join ((Npos (XI (XO (XI (XI XH))))) :: [])) frames)))
        | Panic _ ->
          ((str (String ((Ascii (false, false, false, false, true, true,
             true, false)), (String ((Ascii (true, false, false, false,
             false, true, true, false)), (String ((Ascii (false, true, true,
             true, false, true, true, false)), (String ((Ascii (true, false,
             false, true, false, true, true, false)), (String ((Ascii (true,
             true, false, false, false, true, true, false)),
             EmptyString))))))))))), [])))

(** val num_of : bytes -> n -> n **)

let rec num_of l acc =
  match l with
  | [] -> acc
  | c :: t ->
    if (&&) (N.leb (Npos (XO (XO (XO (XO (XI XH)))))) c)
         (N.leb c (Npos (XI (XO (XO (XI (XI XH)))))))
    then num_of t
           (N.add (N.mul (Npos (XO (XI (XO XH)))) acc)
             (N.sub c (Npos (XO (XO (XO (XO (XI XH))))))))
    else acc

(** val tcp_event : bytes -> conn_event **)

let tcp_event s =
  match split_on (Npos (XO (XI (XO (XI (XI XH)))))) s [] with
  | [] -> Delivered ([], true)
  | ty :: l ->
    (match l with
     | [] -> Delivered ([], true)
     | rest :: _ ->
       let k = num_of ty N0 in
       if (||)
            ((||) (N.eqb k (Npos (XI XH))) (N.eqb k (Npos (XO (XO (XO XH))))))
            (N.eqb k (Npos (XO (XO (XI XH)))))
       then Refused
       else Delivered ((seg_bytes rest),
              (negb
                ((||) (N.eqb k (Npos (XO XH))) (N.eqb k (Npos (XI (XI XH))))))))

(** val run_t : opts -> bytes -> bytes * bytes **)

let run_t o body =
  let evs =
    map tcp_event
      (filter (fun s -> negb (Nat.eqb (length s) O))
        (split (Npos (XI (XI (XO (XI (XI XH)))))) body))
  in
  (match run_tcp_loop o Z0 [] evs with
   | Ok a ->
     let (t, ps) = a in
     ((str (String ((Ascii (true, true, true, true, false, true, true,
        false)), (String ((Ascii (true, true, false, true, false, true, true,
        false)), EmptyString))))),
     (app
       (str (String ((Ascii (false, false, false, false, true, true, true,
         false)), (String ((Ascii (true, false, false, false, false, true,
         true, false)), (String ((Ascii (true, false, true, false, true,
         true, true, false)), (String ((Ascii (true, true, false, false,
         true, true, true, false)), (String ((Ascii (true, false, true,
         false, false, true, true, false)), (String ((Ascii (true, true,
         false, false, true, true, true, false)), (String ((Ascii (true,
         false, true, true, true, true, false, false)),
         EmptyString)))))))))))))))
       (app (join ((Npos (XI (XI (XO (XI (XI XH)))))) :: []) (map dec ps))
         (app ((Npos (XI (XI (XO (XO (XO XH)))))) :: []) (dump_table Z0 t)))))
   | Panic _ ->
     ((str (String ((Ascii (false, false, false, false, true, true, true,
        false)), (String ((Ascii (true, false, false, false, false, true,
        true, false)), (String ((Ascii (false, true, true, true, false, true,
        true, false)), (String ((Ascii (true, false, false, true, false,
        true, true, false)), (String ((Ascii (true, true, false, false,
        false, true, true, false)), EmptyString))))))))))), []))

(** val dump_disp : opts -> z -> table -> bytes **)

let dump_disp o now t =
  join ((Npos (XO (XO (XI (XI (XI (XI XH))))))) :: [])
    (map (fun pat ->
      let (k, r) = pat in
      app
        (kv (String ((Ascii (true, true, false, true, false, true, true,
          false)), (String ((Ascii (true, false, true, false, false, true,
          true, false)), (String ((Ascii (true, false, false, true, true,
          true, true, false)), EmptyString)))))) (hex6 k))
        (kv (String ((Ascii (false, false, true, false, false, true, true,
          false)), (String ((Ascii (true, false, false, true, false, true,
          true, false)), (String ((Ascii (true, true, false, false, true,
          true, true, false)), (String ((Ascii (false, false, false, false,
          true, true, true, false)), EmptyString))))))))
          (map (fun c ->
            if N.eqb c (Npos (XO (XO (XO (XO (XO XH))))))
            then Npos (XI (XI (XI (XI (XI (XO XH))))))
            else c)
            (render_row o now (fun _ ->
              str (String ((Ascii (true, true, true, true, true, true, false,
                false)), (String ((Ascii (true, true, true, true, true, true,
                false, false)), (String ((Ascii (true, true, true, true,
                true, true, false, false)), (String ((Ascii (true, true,
                true, true, true, true, false, false)), (String ((Ascii
                (true, true, true, true, true, true, false, false)),
                EmptyString))))))))))) r)))) (sort_table t))

(** val run_segs_d :
    opts -> table -> bytes list -> bytes list -> bool * bytes list **)

let rec run_segs_d o t segs acc =
  match segs with
  | [] -> (true, (rev_append acc []))
  | s :: rest ->
    (match s with
     | [] -> run_segs_d o t rest acc
     | _ :: _ ->
       (match split_on (Npos (XO (XI (XO (XI (XI XH)))))) s [] with
        | [] -> run_segs_d o t rest acc
        | ts :: l ->
          (match l with
           | [] -> run_segs_d o t rest acc
           | body :: _ ->
             let now = parse_z ts in
             (match read_lines o now t (seg_bytes body) with
              | Ok t' -> run_segs_d o t' rest ((dump_disp o now t') :: acc)
              | Panic _ -> (false, (rev_append acc []))))))

(** val run_d : opts -> bytes -> bytes * bytes **)

let run_d o body =
  let (ok, ds) =
    run_segs_d o [] (split (Npos (XI (XI (XO (XI (XI XH)))))) body) []
  in
  ((if ok
    then str (String ((Ascii (true, true, true, true, false, true, true,
           false)), (String ((Ascii (true, true, false, true, false, true,
           true, false)), EmptyString))))
    else str (String ((Ascii (false, false, false, false, true, true, true,
           false)), (String ((Ascii (true, false, false, false, false, true,
           true, false)), (String ((Ascii (false, true, true, true, false,
           true, true, false)), (String ((Ascii (true, false, false, true,
           false, true, true, false)), (String ((Ascii (true, true, false,
           false, false, true, true, false)), EmptyString))))))))))),
  (join ((Npos (XI (XI (XO (XO (XO XH)))))) :: []) ds))

(** val run_case2 : bytes -> bytes **)

let run_case2 line =
  match split (Npos (XI (XO (XO XH)))) line with
  | [] -> []
  | id0 :: l ->
    (match l with
     | [] -> []
     | kind :: l0 ->
       (match l0 with
        | [] -> []
        | os :: l1 ->
          (match l1 with
           | [] -> []
           | body :: _ ->
             (match kind with
              | [] -> run_case line
              | n0 :: l2 ->
                (match n0 with
                 | N0 -> run_case line
                 | Npos p ->
                   (match p with
                    | XI p0 ->
                      (match p0 with
                       | XI p1 ->
                         (match p1 with
                          | XO p2 ->
                            (match p2 with
                             | XO p3 ->
                               (match p3 with
                                | XO p4 ->
                                  (match p4 with
                                   | XO p5 ->
                                     (match p5 with
                                      | XH ->
                                        (match l2 with
                                         | [] ->
                                           let (oc, obs) =
                                             run_c (parse_opts os) body
                                           in
                                           app id0
                                             (app ((Npos (XI (XO (XO
                                               XH)))) :: [])
                                               (app oc
                                                 (app ((Npos (XI (XO (XO
                                                   XH)))) :: []) obs)))
                                         | _ :: _ -> run_case line)
                                      | _ -> run_case line)
                                   | _ -> run_case line)
                                | _ -> run_case line)
                             | _ -> run_case line)
                          | _ -> run_case line)
                       | _ -> run_case line)
                    | XO p0 ->
                      (match p0 with
                       | XO p1 ->
                         (match p1 with
                          | XI p2 ->
                            (match p2 with
                             | XO p3 ->
                               (match p3 with
                                | XI p4 ->
                                  (match p4 with
                                   | XO p5 ->
                                     (match p5 with
                                      | XH ->
                                        (match l2 with
                                         | [] ->
                                           let (oc, obs) =
                                             run_t (parse_opts os) body
                                           in
                                           app id0
                                             (app ((Npos (XI (XO (XO
                                               XH)))) :: [])
                                               (app oc
                                                 (app ((Npos (XI (XO (XO
                                                   XH)))) :: []) obs)))
                                         | _ :: _ -> run_case line)
                                      | _ -> run_case line)
                                   | _ -> run_case line)
                                | XO p4 ->
                                  (match p4 with
                                   | XO p5 ->
                                     (match p5 with
                                      | XH ->
                                        (match l2 with
                                         | [] ->
                                           let (oc, obs) =
                                             run_d (parse_opts os) body
                                           in
                                           app id0
                                             (app ((Npos (XI (XO (XO
                                               XH)))) :: [])
                                               (app oc
                                                 (app ((Npos (XI (XO (XO
                                                   XH)))) :: []) obs)))
                                         | _ :: _ -> run_case line)
                                      | _ -> run_case line)
                                   | _ -> run_case line)
                                | XH -> run_case line)
                             | _ -> run_case line)
                          | _ -> run_case line)
                       | _ -> run_case line)
                    | XH -> run_case line))))))
