(** C05 -- barometric altitude equals the Mode S altitude-code decoding. *)
From SQ Require Import Base Decode Update AltSpec AltProof RowFacts.
Local Open Scope N_scope.

(** DF4 / DF20 (every format other than DF17): 13-bit code in bits 20-32, M = 0.  The decoder is a
    function of that field and nothing else, and equals the specification on every code that is not
    listed as known finding K1a (1906 Gillham codes, file known/C05_gillham_ac13.txt). *)
Theorem C05_ac13 : forall m df,
  (8 <= List.length m)%nat -> wf m -> (df =? 17) = false ->
  m_bit (field m 20 32) = false -> known_ac13 (field m 20 32) = false ->
  altitude m df = Ok (alt13_spec (field m 20 32)).
Proof. exact altitude_ac13_correct. Qed.
Check C05_ac13 : forall m df,
  (8 <= List.length m)%nat -> wf m -> (df =? 17) = false ->
  m_bit (field m 20 32) = false -> known_ac13 (field m 20 32) = false ->
  altitude m df = Ok (alt13_spec (field m 20 32)).
Print Assumptions C05_ac13.

(** the known-finding class is real: on a listed code the decoder is wrong (so the full statement,
    without the [known_ac13] hypothesis, is refuted by this witness: DF4 code 8 shows 300 ft) *)
Theorem C05_known_finding_witness :
  exists m, known_ac13 (field m 20 32) = true /\ m_bit (field m 20 32) = false /\
            altitude m 4 <> Ok (alt13_spec (field m 20 32)).
Proof. exact known_ac13_witness. Qed.
Check C05_known_finding_witness :
  exists m, known_ac13 (field m 20 32) = true /\ m_bit (field m 20 32) = false /\
            altitude m 4 <> Ok (alt13_spec (field m 20 32)).
Print Assumptions C05_known_finding_witness.

(** every listed code has Q = 0: all Q = 1 codes and the all-zero code are decoded correctly *)
Theorem C05_known_only_gillham : forall c v, In (c, v) Known.known_c05_ac13 -> q_bit13 c = false /\ m_bit c = false.
Proof.
  intros c v H.
  assert (forallb (fun p => negb (q_bit13 (fst p)) && negb (m_bit (fst p))) Known.known_c05_ac13 = true) as A
    by (vm_compute; reflexivity).
  rewrite forallb_forall in A. specialize (A (c, v) H). cbn [fst] in A.
  apply andb_prop in A. destruct A as [A1 A2].
  split; apply negb_true_iff; assumption.
Qed.
Check C05_known_only_gillham : forall c v, In (c, v) Known.known_c05_ac13 -> q_bit13 c = false /\ m_bit c = false.
Print Assumptions C05_known_only_gillham.

(** DF17 airborne position: 12-bit code in bits 41-52, Q = 1 or all zero (Q = 0 non-zero: known
    finding K1b) *)
Theorem C05_ac12 : forall m,
  wf m -> List.length m = 28%nat ->
  N.testbit (field m 41 52) 4 = true \/ field m 41 52 = 0 ->
  altitude m 17 = Ok (alt12_spec (field m 41 52)).
Proof. exact altitude_ac12_correct. Qed.
Check C05_ac12 : forall m,
  wf m -> List.length m = 28%nat ->
  N.testbit (field m 41 52) 4 = true \/ field m 41 52 = 0 ->
  altitude m 17 = Ok (alt12_spec (field m 41 52)).
Print Assumptions C05_ac12.

(** the frame has this effect on an existing row, on the squitter path ... *)
Theorem C05_update_df4_20 : forall obs now r m df relaxed r',
  plane_update obs now r m df relaxed = Ok r' -> df = 4 \/ df = 20 ->
  exists a, altitude m df = Ok a /\ r_altitude r' = a.
Proof. exact plane_update_altitude_sets. Qed.
Check C05_update_df4_20 : forall obs now r m df relaxed r',
  plane_update obs now r m df relaxed = Ok r' -> df = 4 \/ df = 20 ->
  exists a, altitude m df = Ok a /\ r_altitude r' = a.
Print Assumptions C05_update_df4_20.

Theorem C05_update_df17 : forall obs now r m relaxed r' tc st,
  plane_update obs now r m 17 relaxed = Ok r' ->
  get_message_type m = Ok (tc, st) -> in_tc 9 18 tc = true ->
  exists a, altitude m 17 = Ok a /\ r_altitude r' = a.
Proof. exact plane_update_altitude_df17. Qed.
Check C05_update_df17 : forall obs now r m relaxed r' tc st,
  plane_update obs now r m 17 relaxed = Ok r' ->
  get_message_type m = Ok (tc, st) -> in_tc 9 18 tc = true ->
  exists a, altitude m 17 = Ok a /\ r_altitude r' = a.
Print Assumptions C05_update_df17.

(** ... and on the downlink path (a DF4 reply that gives no altitude keeps the previous value) *)
Theorem C05_downlink_df4 : forall obs now r s,
  s_df s = Some 4 -> s_icao s <> None ->
  r_altitude (update_from_downlink obs now r (DSrt s)) =
    match s_alt s with Some a => Some a | None => r_altitude r end.
Proof. exact downlink_altitude_df4. Qed.
Check C05_downlink_df4 : forall obs now r s,
  s_df s = Some 4 -> s_icao s <> None ->
  r_altitude (update_from_downlink obs now r (DSrt s)) =
    match s_alt s with Some a => Some a | None => r_altitude r end.
Print Assumptions C05_downlink_df4.

(** non-vacuity: 38000 ft in the textbook position squitter, 14300 ft in a recorded DF20 reply *)
Example C05_example :
  alt12_spec 3128 = Some 38000 /\ alt13_spec 4608 = Some 14300.
Proof. split; vm_compute; reflexivity. Qed.

(** ---- through the whole pipeline: one reader step on an existing row, every option record ---- *)
From SQ Require Import Base Table Update AltSpec AltProof TableProofs TotalPipeline EndToEnd.
Local Open Scope N_scope.

(** DF4 on an existing row: the squitter path shows exactly the specified altitude (blank when the code gives none); the default path shows it when it exists and keeps the previous value otherwise *)
Theorem C05_end_to_end_df4 : forall (o : opts) (now : Z) (s : state) (line : list N) (s' : state) (rf : bool) (a : N) (r : row) (m : list N), step_line o now s line = Ok (s', rf, Applied 4 a) -> lookup (tbl s) a = Some r -> (0 < delete_after o)%Z -> get_message line = Ok (Some m) -> m_bit (field m 20 32) = false -> known_ac13 (field m 20 32) = false -> exists r' : row, lookup (tbl s') a = Some r' /\ r_altitude r' = (if use_update o then alt13_spec (field m 20 32) else match alt13_spec (field m 20 32) with | Some v => Some v | None => r_altitude r end).
Proof. exact altitude_df4_end_to_end. Qed.
Check C05_end_to_end_df4 : forall (o : opts) (now : Z) (s : state) (line : list N) (s' : state) (rf : bool) (a : N) (r : row) (m : list N), step_line o now s line = Ok (s', rf, Applied 4 a) -> lookup (tbl s) a = Some r -> (0 < delete_after o)%Z -> get_message line = Ok (Some m) -> m_bit (field m 20 32) = false -> known_ac13 (field m 20 32) = false -> exists r' : row, lookup (tbl s') a = Some r' /\ r_altitude r' = (if use_update o then alt13_spec (field m 20 32) else match alt13_spec (field m 20 32) with | Some v => Some v | None => r_altitude r end).
Print Assumptions C05_end_to_end_df4.

(** DF17 TC 9-18 on an existing row, Q=1 or zero code: the altitude is the specified one on both paths *)
Theorem C05_end_to_end_df17 : forall (o : opts) (now : Z) (s : state) (line : list N) (s' : state) (rf : bool) (a : N) (r : row) (m : list N), step_line o now s line = Ok (s', rf, Applied 17 a) -> lookup (tbl s) a = Some r -> (0 < delete_after o)%Z -> get_message line = Ok (Some m) -> 9 <= field m 33 37 <= 18 -> N.testbit (field m 41 52) 4 = true \/ field m 41 52 = 0 -> exists r' : row, lookup (tbl s') a = Some r' /\ r_altitude r' = alt12_spec (field m 41 52).
Proof. exact altitude_df17_end_to_end. Qed.
Check C05_end_to_end_df17 : forall (o : opts) (now : Z) (s : state) (line : list N) (s' : state) (rf : bool) (a : N) (r : row) (m : list N), step_line o now s line = Ok (s', rf, Applied 17 a) -> lookup (tbl s) a = Some r -> (0 < delete_after o)%Z -> get_message line = Ok (Some m) -> 9 <= field m 33 37 <= 18 -> N.testbit (field m 41 52) 4 = true \/ field m 41 52 = 0 -> exists r' : row, lookup (tbl s') a = Some r' /\ r_altitude r' = alt12_spec (field m 41 52).
Print Assumptions C05_end_to_end_df17.

(** non-vacuity: the textbook squitter gives 38000 ft through the theorem for both -U settings *)
Theorem C05_end_to_end_witness : forall u : bool, exists (s' : state) (rf : bool) (r' : row), step_line (ex_opts u) 1000 (ex_state 4219421) ex_line17 = Ok (s', rf, Applied 17 4219421) /\ lookup (tbl s') 4219421 = Some r' /\ r_altitude r' = Some 38000.
Proof. exact witness_df17_altitude. Qed.
Check C05_end_to_end_witness : forall u : bool, exists (s' : state) (rf : bool) (r' : row), step_line (ex_opts u) 1000 (ex_state 4219421) ex_line17 = Ok (s', rf, Applied 17 4219421) /\ lookup (tbl s') 4219421 = Some r' /\ r_altitude r' = Some 38000.
Print Assumptions C05_end_to_end_witness.



(** ---- the frame that creates the row; surface squitters ---- *)
From SQ Require Import Base Table Update EndToEnd EndToEnd2.


(** a DF17 airborne-position squitter that CREATES the row delivers its altitude (12-bit code, Q = 1 or all zero), whatever the options *)
Theorem C05_new_row_df17 : forall (o : opts) (now : Z) (s : state) (line : list N) (s' : state) (rf : bool) (a : N) (m : list N), step_line o now s line = Ok (s', rf, Applied 17 a) -> lookup (tbl s) a = None -> (0 < delete_after o)%Z -> get_message line = Ok (Some m) -> 9 <= field m 33 37 <= 18 -> N.testbit (field m 41 52) 4 = true \/ field m 41 52 = 0 -> exists r' : row, lookup (tbl s') a = Some r' /\ r_altitude r' = AltSpec.alt12_spec (field m 41 52).
Proof. exact altitude_df17_new_row. Qed.
Check C05_new_row_df17 : forall (o : opts) (now : Z) (s : state) (line : list N) (s' : state) (rf : bool) (a : N) (m : list N), step_line o now s line = Ok (s', rf, Applied 17 a) -> lookup (tbl s) a = None -> (0 < delete_after o)%Z -> get_message line = Ok (Some m) -> 9 <= field m 33 37 <= 18 -> N.testbit (field m 41 52) 4 = true \/ field m 41 52 = 0 -> exists r' : row, lookup (tbl s') a = Some r' /\ r_altitude r' = AltSpec.alt12_spec (field m 41 52).
Print Assumptions C05_new_row_df17.

(** a DF4 reply that creates the row delivers its altitude *)
Theorem C05_new_row_df4 : forall (o : opts) (now : Z) (s : state) (line : list N) (s' : state) (rf : bool) (a : N) (m : list N), step_line o now s line = Ok (s', rf, Applied 4 a) -> lookup (tbl s) a = None -> (0 < delete_after o)%Z -> get_message line = Ok (Some m) -> AltSpec.m_bit (field m 20 32) = false -> AltProof.known_ac13 (field m 20 32) = false -> exists r' : row, lookup (tbl s') a = Some r' /\ r_altitude r' = AltSpec.alt13_spec (field m 20 32).
Proof. exact altitude_df4_new_row. Qed.
Check C05_new_row_df4 : forall (o : opts) (now : Z) (s : state) (line : list N) (s' : state) (rf : bool) (a : N) (m : list N), step_line o now s line = Ok (s', rf, Applied 4 a) -> lookup (tbl s) a = None -> (0 < delete_after o)%Z -> get_message line = Ok (Some m) -> AltSpec.m_bit (field m 20 32) = false -> AltProof.known_ac13 (field m 20 32) = false -> exists r' : row, lookup (tbl s') a = Some r' /\ r_altitude r' = AltSpec.alt13_spec (field m 20 32).
Print Assumptions C05_new_row_df4.

(** a surface-position squitter (TC 5-8) on an existing row blanks the altitude, on both update paths *)
Theorem C05_surface_blanks : forall (o : opts) (now : Z) (s : state) (line : list N) (s' : state) (rf : bool) (a : N) (r : row) (m : list N), step_line o now s line = Ok (s', rf, Applied 17 a) -> lookup (tbl s) a = Some r -> (0 < delete_after o)%Z -> get_message line = Ok (Some m) -> 5 <= field m 33 37 <= 8 -> exists r' : row, lookup (tbl s') a = Some r' /\ r_altitude r' = None.
Proof. exact surface_blanks_altitude. Qed.
Check C05_surface_blanks : forall (o : opts) (now : Z) (s : state) (line : list N) (s' : state) (rf : bool) (a : N) (r : row) (m : list N), step_line o now s line = Ok (s', rf, Applied 17 a) -> lookup (tbl s) a = Some r -> (0 < delete_after o)%Z -> get_message line = Ok (Some m) -> 5 <= field m 33 37 <= 8 -> exists r' : row, lookup (tbl s') a = Some r' /\ r_altitude r' = None.
Print Assumptions C05_surface_blanks.


